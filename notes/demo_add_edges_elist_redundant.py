"""C09: add_edges(..., elist=True) lists an edge twice when it is already present."""
from geometry_tools.automata.fsa import FSA

from collections import Counter
def views(a):
    """the three views as multisets of (tail, label, head)"""
    g = Counter((v, l, w) for v, row in a.graph_dict.items() for l, w in row.items())
    o = Counter((v, l, w) for v, row in a.out_dict.items() for w, ls in row.items() for l in ls)
    i = Counter((v, l, w) for w, row in a.in_dict.items() for v, ls in row.items() for l in ls)
    return g, o, i

a = FSA()
a.add_edges([(0, 1, ['a', 'b'])], elist=True)
a.add_edges([(0, 1, ['a', 'b'])], elist=True)      # same edges again; ignore_redundant=True is the default
g, o, i = views(a)
print("label view   :", dict(g))
print("outgoing view:", dict(o))
print("incoming view:", dict(i))
print("edge_labels(0, 1) =", a.edge_labels(0, 1), "; edges_out(0) =", list(a.edges_out(0)))

b = FSA({0: {'a': 1}})
b.add_edges([(0, 1, 'a')])                          # single form: correctly ignored
b.add_edges([(0, 1, ['a'])], elist=True)            # list form: duplicated
print("single then list form: edge_labels(0, 1) =", b.edge_labels(0, 1))
try:
    b.edge_label(0, 1)
except ValueError as e:
    print("edge_label(0, 1) raises:", e)
assert max(o.values()) == 1 and max(i.values()) == 1, "an edge is listed twice in the outgoing / incoming view"
assert g == o == i
