import numpy as np
from geometry_tools import hyperbolic
from geometry_tools.hyperbolic import Model
rng = np.random.default_rng(3)
def ideal(n):
    v = rng.normal(size=n); v /= np.linalg.norm(v)
    return np.concatenate([[1.0], v])
worst = 0
for dim, k in ((3, 3), (4, 3), (4, 4), (2, 2), (3, 2)):
    pts = np.array([ideal(dim) for _ in range(k)])
    S = hyperbolic.Subspace(pts)
    for model in (Model.POINCARE, Model.HALFSPACE):
        c, r = S.sphere_parameters(model=model)
        ib = S.ideal_basis_coords(model)
        err = np.abs(np.linalg.norm(ib - c, axis=-1) - r).max()
        print(f"H^{dim} subspace through {k} ideal points, {model}: max | |p - c| - r | = {err:.3g}")
# composite subspaces and hyperplanes: sphere through the ideal points, orthogonal to the boundary
pts = np.array([[ideal(3) for _ in range(3)] for _ in range(4)])
S = hyperbolic.Subspace(pts)
c, r = S.sphere_parameters(model=Model.POINCARE)
ib = S.ideal_basis_coords(Model.POINCARE)
print("composite (4,): contains", np.abs(np.linalg.norm(ib - c[:, None, :], axis=-1) - r[:, None]).max(), "orthogonal", np.abs((c**2).sum(-1) - 1 - r**2).max())
for n in ([0.2, 1.0, 0.3, -0.4], [0.0, 1.0, 1.0, 0.5]):
    Hp = hyperbolic.Hyperplane(np.array(n))
    for model in (Model.POINCARE, Model.HALFSPACE):
        c, r = Hp.sphere_parameters(model=model)
        ib = Hp.ideal_basis_coords(model)
        print("Hyperplane", n, model, float(np.abs(np.linalg.norm(ib - c, axis=-1) - r).max()))
