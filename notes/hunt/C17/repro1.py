"""C17: lie.o_to_pgl does not recover SL(2,R) matrices with a vanishing entry.

The signs of the recovered entries b, c, d are read from products with the
recovered (0,0) entry.  When that entry (or b) is zero the products vanish and
the signs are lost: the quarter turn [[0,-1],[1,0]] comes back as the swap
[[0,1],[1,0]] of determinant -1, and Isometry.to_sl2 is no homomorphism there.
"""
import numpy as np
from geometry_tools import lie
from geometry_tools.hyperbolic import Isometry

swap = np.array([[0., 1.], [1., 0.]])

def same_up_to_sign(X, Y):
    return np.allclose(X, Y) or np.allclose(X, -Y)

failures = []
for A in [np.array([[0., -1.], [1., 0.]]),     # rotation by pi/2
          np.array([[1., -1.], [1., 0.]]),     # order 6 elliptic
          np.array([[3., -1.], [1., 0.]])]:    # hyperbolic
    assert np.isclose(np.linalg.det(A), 1)
    S = lie.sl2_to_so21(A)
    J = np.diag([-1., 1., 1.])
    assert np.allclose(S.T @ J @ S, J) and np.isclose(np.linalg.det(S), 1)
    B = lie.o_to_pgl(S)
    # (the already known conjugation by the coordinate swap is allowed for)
    ok = same_up_to_sign(B, A) or same_up_to_sign(B, swap @ A @ swap)
    print("A =", A.tolist(), " o_to_pgl(sl2_to_so21(A)) =", B.tolist(),
          " det =", np.linalg.det(B), " recovered up to sign:", ok)
    if not ok:
        failures.append(A)

# the same thing through the Isometry API, as a failure of multiplicativity
R = Isometry.from_sl2(np.array([[0., -1.], [1., 0.]]))
T = Isometry.from_sl2(np.array([[2., 1.], [1., 1.]]))
lhs = R.to_sl2() @ T.to_sl2()
rhs = (R @ T).to_sl2()
hom_ok = same_up_to_sign(lhs, rhs)
print("to_sl2(R) to_sl2(T) =", lhs.tolist(), "  to_sl2(R T) =", rhs.tolist(),
      " equal up to sign:", hom_ok)

assert not failures, "o_to_pgl returned a matrix of determinant -1 / wrong signs"
assert hom_ok, "Isometry.to_sl2 is not multiplicative up to sign"
