"""C17: lie.o_to_pgl is not a homomorphism (up to sign) on all of O(2,1).

o_to_pgl documents itself as the representation O(2,1) -> (P)GL(2).  -I lies in
O(2,1) and is sent to the identity, so multiplicativity up to sign forces
o_to_pgl(-X) = +-o_to_pgl(X).  Instead the off-diagonal signs flip:
o_to_pgl(-X) = diag(1,-1) o_to_pgl(X) diag(1,-1).  No entry vanishes here; the
failure is generic on the two components of O(2,1) not met by SL^+-(2,R).
"""
import numpy as np
from geometry_tools import lie

J = np.diag([-1., 1., 1.])

def same_up_to_sign(X, Y):
    return np.allclose(X, Y) or np.allclose(X, -Y)

A = np.array([[2., 1.], [1., 1.]])
B = np.array([[1., 2.], [1., 3.]])
X, Y = lie.sl2_to_so21(A), lie.sl2_to_so21(B)
mI = -np.eye(3)

for name, M in [("X", X), ("Y", Y), ("-I", mI), ("-X", -X)]:
    assert np.allclose(M.T @ J @ M, J), name + " is not in O(2,1)"

print("o_to_pgl(-I) =", lie.o_to_pgl(mI).tolist())
print("o_to_pgl(X)  =", lie.o_to_pgl(X).tolist())
print("o_to_pgl(-X) =", lie.o_to_pgl(-X).tolist())

checks = {
    "o_to_pgl(X) o_to_pgl(Y) = +-o_to_pgl(XY)":
        same_up_to_sign(lie.o_to_pgl(X) @ lie.o_to_pgl(Y), lie.o_to_pgl(X @ Y)),
    "o_to_pgl(-I) o_to_pgl(X) = +-o_to_pgl(-X)":
        same_up_to_sign(lie.o_to_pgl(mI) @ lie.o_to_pgl(X), lie.o_to_pgl(mI @ X)),
    "o_to_pgl(-X) o_to_pgl(Y) = +-o_to_pgl(-XY)":
        same_up_to_sign(lie.o_to_pgl(-X) @ lie.o_to_pgl(Y), lie.o_to_pgl(-X @ Y)),
    "o_to_pgl(-X) o_to_pgl(-Y) = +-o_to_pgl(XY)":
        same_up_to_sign(lie.o_to_pgl(-X) @ lie.o_to_pgl(-Y), lie.o_to_pgl(X @ Y)),
}
for k, v in checks.items():
    print(k, ":", v)

assert all(checks.values()), "o_to_pgl is not multiplicative up to sign on O(2,1)"
