"""C17: lie.hom._wrap_hom silently drops the keyword arguments of every map
that has no `inv` parameter.

hom.so21_to_sl2(bilinear_form=F) is meant to be the generator-wise version of
lie.o_to_pgl(., bilinear_form=F) for a group preserving the form F.  The
wrapper forgets F, evaluates o_to_pgl with the default diag(-1,1,1), and the
resulting map is not multiplicative (not even up to sign) on O(F).
"""
import numpy as np
from geometry_tools import lie
from geometry_tools.lie import hom

def same_up_to_sign(X, Y):
    return np.allclose(X, Y) or np.allclose(X, -Y)

J = np.diag([-1., 1., 1.])
# the same Minkowski form with the coordinates permuted (timelike one in the middle)
P = np.eye(3)[[1, 2, 0]]
F = P.T @ J @ P
print("form F =", np.diag(F).tolist())

A = np.array([[2., 1.], [1., 1.]])
B = np.array([[1., 2.], [1., 3.]])
X = P.T @ lie.sl2_to_so21(A) @ P
Y = P.T @ lie.sl2_to_so21(B) @ P
for M in (X, Y):
    assert np.allclose(M.T @ F @ M, F)

direct = lambda M: lie.o_to_pgl(M, bilinear_form=F)
wrapped = hom.so21_to_sl2(bilinear_form=F)

direct_hom = same_up_to_sign(direct(X) @ direct(Y), direct(X @ Y))
print("lie.o_to_pgl(., bilinear_form=F) multiplicative up to sign:", direct_hom)
assert direct_hom

print("direct :", direct(X).tolist())
print("wrapped:", wrapped(X).tolist())
agree = np.allclose(wrapped(X), direct(X))
wrapped_hom = same_up_to_sign(wrapped(X) @ wrapped(Y), wrapped(X @ Y))
print("hom.so21_to_sl2(bilinear_form=F) agrees with lie.o_to_pgl(., bilinear_form=F):", agree)
print("hom.so21_to_sl2(bilinear_form=F) multiplicative up to sign:", wrapped_hom)

assert agree, "_wrap_hom dropped the bilinear_form keyword"
assert wrapped_hom
