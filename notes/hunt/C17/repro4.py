"""C17: lie.sl2_irrep is not multiplicative on integer SL(2,Z) data with
moderately large entries: the powers a**i, b**(j-i), ... are taken in the
integer dtype of the input and wrap around silently, although the result array
is deliberately allocated as float64 (integer_type=False).
"""
import numpy as np
from geometry_tools import lie

g = np.array([[2, 1], [1, 1]])
A = np.linalg.matrix_power(g, 10)          # entries 10946, 6765, 6765, 4181
B = np.array([[1, 1], [0, 1]])
assert A.dtype.kind == "i" and round(np.linalg.det(A.astype(float))) == 1
print("A =", A.tolist(), "dtype", A.dtype)

n = 6
int_image = lie.sl2_irrep(A, n)
float_image = lie.sl2_irrep(A.astype(float), n)
print("sl2_irrep(A, 6)[5, 5] for integer A:", int_image[5, 5])
print("sl2_irrep(A, 6)[5, 5] for float A  :", float_image[5, 5], " (a**5 =", float(A[0, 0])**5, ")")

same = np.allclose(int_image, float_image, rtol=1e-9, atol=0)
print("integer and float input give the same image:", same)

lhs = lie.sl2_irrep(A, n) @ lie.sl2_irrep(B, n)
rhs = lie.sl2_irrep(A @ B, n)
hom_ok = np.allclose(lhs, rhs, rtol=1e-9, atol=0)
print("sl2_irrep(A) sl2_irrep(B) == sl2_irrep(AB):", hom_ok)

# A = g^5 g^5, all of whose images are exactly representable
h = np.linalg.matrix_power(g, 5)
pow_ok = np.allclose(lie.sl2_irrep(h, n) @ lie.sl2_irrep(h, n), lie.sl2_irrep(h @ h, n),
                     rtol=1e-9, atol=0)
print("sl2_irrep(g^5)^2 == sl2_irrep(g^10):", pow_ok)
det = np.linalg.det(int_image)
print("det sl2_irrep(A, 6) =", det)

assert same and hom_ok and pow_ok, "integer overflow inside sl2_irrep"
