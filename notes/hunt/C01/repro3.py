"""C01: projective coordinates are 'a row vector in R^(n,1), defined up to
scale', and every chart (Klein, Poincare, half-space) of a rescaled vector is
indeed unchanged.  Point.distance, however, depends on the scale of the
representative: for small representatives the Minkowski square norm
underflows, utils.normalize treats the interior point as lightlike and leaves
it unnormalised, and the reported distance silently collapses to 0 (no
warning); for large representatives it overflows and also gives 0."""
import numpy as np
from geometry_tools.hyperbolic import Point

a = np.array([2., 1., 0.])       # Klein (0.5, 0)
b = np.array([3., 1., 1.])       # Klein (1/3, 1/3)
ref = float(Point(a).distance(Point(b)))
ka, kb = Point(a).coords("klein"), Point(b).coords("klein")
klein_metric = np.arccosh((1 - ka @ kb) / np.sqrt((1 - ka @ ka) * (1 - kb @ kb)))
print("reference distance", ref, " Klein closed form", klein_metric)

bad = []
for s in [1e-100, 1e-150, 1e-160, 1e-165, 1e-200, 1e-300, 1e150, 1e155, 1e200]:
    p = Point(s * a)
    assert np.allclose(p.coords("klein"), ka) and np.allclose(p.coords("poincare"), Point(a).coords("poincare"))
    with np.errstate(all="ignore"):
        d = float(p.distance(Point(b)))
        dself = float(p.distance(Point(a)))
    print("scale %g: same Klein/Poincare coords, distance to b = %r (expected %r), distance to the same point unscaled = %r"
          % (s, d, ref, dself))
    if not np.isclose(d, klein_metric, atol=1e-6):
        bad.append(s)
assert not bad, "distance depends on the scale of the projective representative: wrong for scales %r" % bad
print("ok")
