"""C01: reading hyperboloid-model coordinates of points stored as column
vectors.  hyperbolic.hyperboloid_coords documents/accepts column_vectors=True
(like its sibling hyperbolic.kleinian_coords), but that branch refers to an
undefined name and raises NameError instead of returning the coordinates."""
import numpy as np
from geometry_tools import hyperbolic

rows = np.array([[2., 1., 0.],
                 [3., 1., 1.]])          # two interior points of H^2, one per row
cols = rows.T.copy()                     # same two points, one per column

expected = hyperbolic.hyperboloid_coords(rows.copy()).T
print("row-vector form works, hyperboloid coords (as columns):\n", expected)

# the sibling chart map handles the same argument form:
print("kleinian_coords(column_vectors=True):\n",
      hyperbolic.kleinian_coords(cols.copy(), column_vectors=True))

print("checking hyperboloid_coords(cols, column_vectors=True) == row result transposed")
try:
    got = hyperbolic.hyperboloid_coords(cols.copy(), column_vectors=True)
except Exception as e:
    raise AssertionError(
        "hyperboloid_coords(column_vectors=True) raised %r" % (e,))
assert np.allclose(got, expected), (got, expected)
print("ok")
