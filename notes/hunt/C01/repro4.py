"""C01: half-space (and Poincare) coordinates of ordinary interior points are
not reproduced, and distances disagree with the half-space metric, once the
point is moderately far from the base point (0,...,0,1): the setters route the
data half-space -> Poincare -> Klein (affine chart) -> projective, and the Klein
step squares the closeness to the boundary (1-|k|^2 = ((1-|p|^2)/(1+|p|^2))^2),
so all information is lost when 1-|p|^2 ~ 1e-8 although the input itself is
nowhere near the precision limit."""
import numpy as np
from geometry_tools.hyperbolic import Point

def halfspace_metric(a, b):
    a, b = np.asarray(a, float), np.asarray(b, float)
    return np.arccosh(1 + ((a - b) ** 2).sum() / (2 * a[-1] * b[-1]))

failures = []
cases = [([1e3, 1.], [1e3, 2.]), ([1e4, 1.], [1e4, 2.]), ([1e6, 1.], [1e6, 2.]),
         ([0., 1e-7], [0., 2e-7]), ([0., 1e-8], [0., 2e-8]), ([0., 1e-9], [0., 2e-9]),
         ([3e4, 2., 5.], [3e4, 2., 9.])]
for a, b in cases:
    pa, pb = Point(a, model="halfspace"), Point(b, model="halfspace")
    back = pa.coords("halfspace")
    d_lib = float(pa.distance(pb))
    d_model = halfspace_metric(a, b)
    print("a =", a, " read back as", back, "| library distance", d_lib, " half-space metric", d_model)
    if not np.allclose(back, a, rtol=1e-3):
        failures.append(("round trip", a, back.tolist()))
    if abs(d_lib - d_model) > 1e-3:
        failures.append(("distance", a, b, d_lib, d_model))
assert not failures, "half-space coordinates / metric not reproduced:\n" + "\n".join(map(str, failures))
print("ok")
