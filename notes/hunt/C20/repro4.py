"""C20 violation 4: the pairwise mode of utils.disk_containments (the
containment test between two families of affine disks, next to
disk_interactions) raises NameError; the elementwise mode works."""
import numpy as np
from geometry_tools import utils

c_out = np.array([[0.0, 0.0], [5.0, 0.0]]); r_out = np.array([3.0, 1.0])
c_in = np.array([[0.5, 0.0], [5.0, 0.1]]);  r_in = np.array([1.0, 0.2])

contain, contained = utils.disk_containments(c_out, r_out, c_in, r_in)
print("elementwise:", contain, contained)
assert contain.tolist() == [True, True] and contained.tolist() == [False, False]

# reference for the pairwise answer, from the working three-way helper
ref_contain, ref_contained, _ = utils.disk_interactions(
    c_out, r_out, c_in, r_in, broadcast="pairwise")
print("disk_interactions pairwise (out contains in):\n", ref_contain)

try:
    pw = utils.disk_containments(c_out, r_out, c_in, r_in, broadcast="pairwise")
except Exception as e:
    print("disk_containments(broadcast='pairwise') raised", type(e).__name__, ":", e)
    raise AssertionError("pairwise disk containment test is not usable") from e

print("pairwise:", pw)
# either index convention is accepted here
assert (np.array_equal(pw[0], ref_contain) or np.array_equal(pw[0], ref_contain.T))
assert (np.array_equal(pw[1], ref_contained) or np.array_equal(pw[1], ref_contained.T))
