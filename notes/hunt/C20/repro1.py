"""C20 violation 1: a CP1Disk whose boundary circle passes through infinity
(a hemisphere / half-plane) reports a wrong centre and gives wrong
containment answers, silently; Moebius images that are half-planes raise.

The hemisphere {Re w > 0} is the Fubini-Study disk of radius pi/4 about the
point w = 1, i.e. about the spherical centre (1, 0, 0).
"""
import numpy as np
from geometry_tools import complex_projective as cp
from geometry_tools import projective

failures = []

def check(label, ok, detail=""):
    print(("ok   " if ok else "FAIL ") + label, detail)
    if not ok:
        failures.append(label)

# (a) spherical centre + Fubini-Study radius must be reported back
ctr = np.array([1.0, 0.0, 0.0])
H = cp.CP1Disk(ctr, np.pi / 4, radius_metric="fs", center_coords="spherical")
got = H.fs_center().spherical_coords()
check("fs_center of FS disk (centre (1,0,0), radius pi/4)",
      np.allclose(got, ctr, atol=1e-6), f"expected {ctr}, got {got}")
check("fs_diameter of that disk", abs(H.fs_diameter() - np.pi / 2) < 1e-6,
      f"got {H.fs_diameter()}")

# another centre, radius = FS distance from the centre to infinity
ctr2 = np.array([0.6, 0.0, 0.8])
rad2 = np.arccos(ctr2[2]) / 2
G = cp.CP1Disk(ctr2, rad2, radius_metric="fs", center_coords="spherical")
got2 = G.fs_center().spherical_coords()
check("fs_center of FS disk (centre (.6,0,.8), boundary through infinity)",
      np.allclose(got2, ctr2, atol=1e-6), f"expected {ctr2}, got {got2}")
check("fs_diameter of that disk", abs(G.fs_diameter() - 2 * rad2) < 1e-6,
      f"expected {2 * rad2}, got {G.fs_diameter()}")

# (b) containment / intersection with the half-plane Re w > 0
inside = cp.CP1Disk(3.0, 0.25)     # |w - 3| < 1/4, inside  Re w > 0
outside = cp.CP1Disk(-3.0, 0.25)   # |w + 3| < 1/4, disjoint from Re w > 0
check("H contains |w-3|<1/4", bool(H.contains(inside)) is True,
      f"got {H.contains(inside)}")
check("H intersects |w-3|<1/4", bool(H.intersects(inside)) is True,
      f"got {H.intersects(inside)}")
check("H does not contain |w+3|<1/4", bool(H.contains(outside)) is False,
      f"got {H.contains(outside)}")
check("H does not intersect |w+3|<1/4", bool(H.intersects(outside)) is False,
      f"got {H.intersects(outside)}")
Hc = H.complement()
check("complement of H contains |w+3|<1/4 and not |w-3|<1/4",
      bool(Hc.contains(outside)) is True and bool(Hc.contains(inside)) is False,
      f"got {Hc.contains(outside)}, {Hc.contains(inside)}")

# (c) a Moebius map (Cayley transform w -> (1+w)/(1-w)) sends the unit disk
# to the half-plane Re w > 0; the image disk cannot be queried at all
cayley = projective.Transformation(np.array([[1.0, 1.0], [-1.0, 1.0]]))
image = cayley @ cp.CP1Disk(0.0, 1.0)
try:
    c = image.fs_center().spherical_coords()
    check("fs_center of Cayley image of the unit disk",
          np.allclose(c, [1, 0, 0], atol=1e-6), f"got {c}")
    check("Cayley image contains |w-3|<1/4", bool(image.contains(inside)))
except Exception as e:   # GeometryError
    check("Cayley image of the unit disk can be queried", False,
          f"raised {type(e).__name__}: {e}")

assert not failures, f"{len(failures)} checks failed: {failures}"
