"""C20 violation 2: projective_to_spherical(column_vectors=True) cannot be
called at all (NameError), so the documented column-vector form of the
spherical <-> homogeneous conversion is not the inverse of
spherical_to_projective(column_vectors=True)."""
import numpy as np
from geometry_tools import complex_projective as cp

sph = np.array([[0.0, 0.0, 1.0],      # infinity
                [0.0, 0.0, -1.0],     # origin
                [1.0, 0.0, 0.0],
                [0.0, 0.6, 0.8],
                [0.48, -0.6, -0.64]])

# row-vector form: round trip works
rows = cp.spherical_to_projective(sph)
back = cp.projective_to_spherical(rows)
print("row vectors: round-trip error", np.abs(back - sph).max())
assert np.allclose(back, sph)

# column-vector form: spherical points are the columns of a (3, N) array
cols = cp.spherical_to_projective(sph.T, column_vectors=True)
print("spherical_to_projective(column_vectors=True) ->", cols.shape)
assert cols.shape == (2, 5) and np.allclose(cols, rows.T)

try:
    back_cols = cp.projective_to_spherical(cols, column_vectors=True)
except Exception as e:
    print("projective_to_spherical(column_vectors=True) raised",
          type(e).__name__, ":", e)
    raise AssertionError(
        "projective_to_spherical(column_vectors=True) is not usable") from e

print("column vectors: round-trip error", np.abs(back_cols - sph.T).max())
assert back_cols.shape == (3, 5) and np.allclose(back_cols, sph.T)
