"""C16 (borderline: negative, numpy-style chart index): chart index -1 = 'the last chart'.
affine_coords accepts -1 and means the last homogeneous coordinate, but
projective_coords / Point(..., chart_index=-1) silently build wrong homogeneous
coordinates: the last affine coordinate is overwritten, so the round trip loses it."""
import numpy as np
from geometry_tools import projective as P

x = np.array([[1., 2, 3], [4, 5, 6]])
n = x.shape[-1]
good = P.projective_coords(x, chart_index=n)       # the same chart, non-negative index
neg = P.projective_coords(x, chart_index=-1)
print("chart_index = n :", good.tolist())
print("chart_index = -1:", neg.tolist())
back = P.affine_coords(neg, chart_index=-1)
print("back through affine_coords(chart_index=-1):", back.tolist())
back_pt = P.Point(x, chart_index=-1).affine_coords(chart_index=-1)
print("Point(x, chart_index=-1).affine_coords(chart_index=-1):", back_pt.tolist())
assert (neg[..., -1] == 1).all()
assert np.allclose(back, x), "projective_coords(chart_index=-1) does not convert back to the same affine coordinates"
assert np.allclose(back_pt, x)
