"""C16: Subspace.intersect of two transverse subspaces of complementary dimension
(dim U + dim V = dim of the ambient vector space, so U + V is everything and the
intersection is the zero subspace / the empty projective subspace).
Expected: a Subspace with 0 spanning vectors (shape (..., 0, N)), as the docstring
says: dim(self) + dim(other) - dim(ambient).  Actual: N spanning rows, not in `other`."""
import numpy as np
from geometry_tools import projective as P

def rank(m):
    return np.linalg.matrix_rank(m, tol=1e-9)

cases = {
    "two skew lines in P^3": (np.array([[1., 0, 0, 0], [0, 1, 0, 0]]),
                              np.array([[0., 0, 1, 0], [0, 0, 0, 1]])),
    "a line and a point off it in P^2": (np.array([[1., 2, 0], [0, 1, 1]]),
                                         np.array([[3., 1, 7]])),
    "two distinct points of P^1": (np.array([[1., 2]]), np.array([[3., 1]])),
}
failures = 0
for name, (u, v) in cases.items():
    N = u.shape[-1]
    assert rank(np.concatenate([u, v])) == N, "not transverse?"
    expected = u.shape[0] + v.shape[0] - N          # == 0
    for bc in ("elementwise", "pairwise"):
        got = P.Subspace(u).intersect(P.Subspace(v), broadcast=bc).proj_data
        in_v = rank(np.concatenate([v, got])) == rank(v)
        print(f"{name} [{bc}]: expected {expected} spanning vectors, got array of shape "
              f"{got.shape}; rows lie in other: {in_v}")
        print(np.round(got, 6))
        if got.shape != (expected, N) or not in_v:
            failures += 1
assert failures == 0, f"{failures} intersections of complementary subspaces are wrong"
