"""C16: Subspace.intersect depends on the scale of the (homogeneous) spanning vectors.
A projective subspace does not change when its spanning vectors are rescaled, but
the kernel routine counts singular values below an ABSOLUTE tolerance of 1e-8, so
spanning vectors with small entries make the reported intersection too big."""
import numpy as np
from geometry_tools import projective as P

def rank(m):
    m = m / np.linalg.norm(m, axis=-1, keepdims=True)
    return np.linalg.matrix_rank(m, tol=1e-9)

# two distinct lines of P^2: they meet in exactly one point, (0,1,0)
u = np.array([[1., 0, 0], [0, 1, 0]])
v = np.array([[0., 1, 0], [0, 0, 1]])

ref = P.Subspace(u).intersect(P.Subspace(v)).proj_data
print("unscaled: shape", ref.shape, ref)
assert ref.shape == (1, 3)

failures = 0
for s in (1e-3, 1e-9, -1e-9):
    got = P.Subspace(s * u).intersect(P.Subspace(v)).proj_data
    in_u = got.shape[0] > 0 and rank(np.concatenate([u, got])) == rank(u)
    in_v = got.shape[0] > 0 and rank(np.concatenate([v, got])) == rank(v)
    print(f"self scaled by {s:g}: shape {got.shape} (expected (1, 3)); in self: {in_u}; in other: {in_v}")
    print(got)
    if got.shape != (1, 3) or not (in_u and in_v):
        failures += 1
# both scaled
got = P.Subspace(1e-9 * u).intersect(P.Subspace(1e-9 * v)).proj_data
print("both scaled by 1e-9: shape", got.shape, "(expected (1, 3))")
if got.shape != (1, 3):
    failures += 1
assert failures == 0, f"{failures} rescaled intersections have the wrong dimension / do not lie in both subspaces"
