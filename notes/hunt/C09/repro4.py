"""C09: free_automaton(iterable) silently drops all inverse generators when the iterable is one-shot."""
from geometry_tools.automata import fsa
from geometry_tools.utils import words

gens = ['a', 'b']
ref = fsa.free_automaton(gens)
# words.asym_gens (and Representation.asym_gens) are generator functions; the
# docstring of free_automaton asks for an "iterable of strings"
aut = fsa.free_automaton(words.asym_gens('aAbB'))

letters = gens + [words.invert_gen(g) for g in gens]
model = {(g, h, h) for g in [''] + letters for h in letters if words.invert_gen(h) != g}
got = set((v, l, w) for v, w, l in aut.edges(with_labels=True))
print("vertices from a list      :", sorted(ref.vertices()))
print("vertices from an iterator :", sorted(aut.vertices()))
print("missing edges:", len(model - got), "of", len(model))
print("accepts 'aB':", aut.accepts('aB'), "(list version:", ref.accepts('aB'), ")")
assert set((v, l, w) for v, w, l in ref.edges(with_labels=True)) == model
assert got == model, "free_automaton built from an iterator has no inverse generators"
