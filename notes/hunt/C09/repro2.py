"""C09: FSA(target->labels dict, graph_dict=False) does not register vertices that occur only as targets."""
from geometry_tools.automata.fsa import FSA

from collections import Counter
def views(a):
    """the three views as multisets of (tail, label, head)"""
    g = Counter((v, l, w) for v, row in a.graph_dict.items() for l, w in row.items())
    o = Counter((v, l, w) for v, row in a.out_dict.items() for w, ls in row.items() for l in ls)
    i = Counter((v, l, w) for w, row in a.in_dict.items() for v, ls in row.items() for l in ls)
    return g, o, i

ref = FSA({0: {'a': 1}})                           # label->target route: vertex 1 is added
a = FSA({0: {1: ['a']}}, graph_dict=False)         # same automaton, target->labels route
print("vertices, label->target route  :", sorted(ref.vertices()))
print("vertices, target->labels route :", sorted(a.vertices()), " graph_dict keys:", sorted(a.graph_dict))
g, o, i = views(a)
print("views:", sorted(g), sorted(o), sorted(i))
ok_vertices = set(a.vertices()) == set(a.graph_dict) == {0, 1}

# consequence 1: adding the (already used) vertex wipes its incoming edges
a.add_vertices([1])
g, o, i = views(a)
print("after add_vertices([1]):  label", sorted(g), " out", sorted(o), " in", sorted(i))
ok_views = set(g) == set(o) == set(i)

# consequence 2: deleting the target vertex raises
b = FSA({0: {1: ['a']}}, graph_dict=False)
try:
    b.delete_vertex(1)
    ok_delete = True
except KeyError as e:
    print("delete_vertex(1) raised KeyError", e)
    ok_delete = False

assert ok_vertices, "target-only vertex 1 is missing from the vertex set of the label / outgoing views"
assert ok_views, "incoming view lost the edge 0-a->1"
assert ok_delete
