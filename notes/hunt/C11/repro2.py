"""C11 violation 2: a Segment's ideal endpoints depend on the lift of its
endpoints, and are NaN for perfectly legal primary data.

Segment._compute_aux_data parametrises the line through the endpoints as
mu*p1 + (1-mu)*p2 and divides by a = <p1-p2, p1-p2>.  When the chosen lifts
differ by a lightlike vector (common with integer data: about 6% of pairs of
small integer timelike vectors), a == 0 and the stored ideal endpoints are NaN,
although the same two points in another lift give the right answer.  A
read-only query that rescales proj_data in place (hyperboloid_coords) then
makes "stored" and "recomputed from primary" differ outright.
"""
import warnings
import numpy as np
from geometry_tools import hyperbolic as H

warnings.simplefilter("ignore")
np.set_printoptions(precision=4, suppress=True)

# the segment between the points (1/2, 0) and (1/3, 1/3) of the Klein disk
good = H.Segment(np.array([[2., 1, 0], [6, 2, 2]]))    # lift (6,2,2) of (1/3,1/3)
bad = H.Segment(np.array([[2., 1, 0], [3, 1, 1]]))     # lift (3,1,1) of (1/3,1/3)
bad_int = H.Segment(np.array([[2, 1, 0], [3, 1, 1]]))  # same, integer dtype

print("primary data are projectively equal: (2,1,0)-(6,2,2) and (2,1,0)-(3,1,1)")
print("Klein coordinates of both:\n", good.coords("klein"), "\n", bad.coords("klein"))
print("ideal endpoints stored for lift (6,2,2):\n", good.aux_data)
print("ideal endpoints stored for lift (3,1,1):\n", bad.aux_data)
print("ideal endpoints stored for integer data:\n", bad_int.aux_data)
print("geodesic() of the bad segment:\n", bad.geodesic().proj_data)
print("circle_parameters() good:", good.circle_parameters())
print("circle_parameters() bad: ", bad.circle_parameters())

# composite shapes / after transformation: still NaN
iso = H.Point(np.array([.3, -.2]), model="klein").origin_to()
print("after applying an isometry:\n", (iso @ bad).aux_data)

# a read-only query rescales proj_data in place; now the stored derived data
# differ from what is recomputed from the (projectively unchanged) primary data
bad.hyperboloid_coords()
recomputed = bad._compute_aux_data(bad.proj_data)
print("after the query hyperboloid_coords(): stored\n", bad.aux_data,
      "\nrecomputed from primary data\n", recomputed)

assert np.isfinite(good.aux_data).all()
assert np.isfinite(recomputed).all()
assert np.isfinite(bad_int.aux_data).all() and np.isfinite(bad.aux_data).all(), (
    "Segment((2,1,0),(3,1,1)) stores NaN ideal endpoints although the same "
    "segment given as ((2,1,0),(6,2,2)) stores finite lightlike endpoints")
print("OK")
