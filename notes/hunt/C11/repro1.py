"""C11 violation 1: copy + item assignment.

copy.copy(obj) (the same shallow copy the library itself uses in
flatten_to_unit / Transformation.apply; no __copy__ is defined) shares the
proj_data array.  ProjectiveObject.__setitem__ then writes *in place* into
that shared array and only refreshes the aux_data of the object it was
called on.  Result: assigning into the copy silently moves the ORIGINAL
object's vertices / endpoints, and the original's stored derived data
(edges, ideal endpoints, projected vector) no longer match its primary data.
"""
import copy
import numpy as np
from geometry_tools import hyperbolic as H, projective as P


def proj_equal(a, b, tol=1e-9):
    """rows of a and b are equal as points of projective space"""
    a = np.asarray(a, dtype=float).reshape(-1, np.shape(a)[-1])
    b = np.asarray(b, dtype=float).reshape(-1, np.shape(b)[-1])
    if a.shape != b.shape or not (np.isfinite(a).all() and np.isfinite(b).all()):
        return False
    a = a / np.linalg.norm(a, axis=-1, keepdims=True)
    b = b / np.linalg.norm(b, axis=-1, keepdims=True)
    minors = a[:, :, None] * b[:, None, :] - a[:, None, :] * b[:, :, None]
    return bool(np.abs(minors).max() < tol)


def coherent(obj):
    return proj_equal(obj.aux_data, obj._compute_aux_data(obj.proj_data))


tri = np.array([[1., 0, 0], [1, .5, 0], [1, .5, .5]])
tri2 = np.array([[1., .1, .1], [1, -.5, 0], [1, 0, -.5]])
new_tri = np.array([[1., .2, .7], [1, -.6, .2], [1, .1, -.3]])

cases = {
    "hyperbolic.Polygon": (H.Polygon(np.array([tri, tri2])), H.Polygon(new_tri)),
    "projective.Polygon": (P.Polygon(np.array([tri, tri2])), P.Polygon(new_tri)),
    "hyperbolic.Segment": (H.Segment(np.array([tri[:2], tri2[:2]])),
                           H.Segment(new_tri[:2])),
    "hyperbolic.TangentVector": (
        H.TangentVector(np.array([[1., 0, 0], [1, .2, .1]]),
                        np.array([[0., 1, 0], [.2, 1, 0]])),
        H.TangentVector(np.array([1., .3, -.2]), np.array([0., 1, 1.5]))),
}

failures = []
for name, (original, value) in cases.items():
    primary_before = original.proj_data.copy()
    assert coherent(original)

    duplicate = copy.copy(original)     # history: construct, copy,
    duplicate[0] = value                #          set item (on the copy only)

    moved = not proj_equal(original.proj_data, primary_before)
    stale = not coherent(original)
    print(f"{name}: original moved by assignment into its copy: {moved}; "
          f"original's stored derived data != recomputed: {stale}; "
          f"copy itself coherent: {coherent(duplicate)}")
    if moved or stale:
        failures.append(name)

assert not failures, (
    "after copy + set item on the copy, the untouched original object was "
    "moved and its aux_data is stale for: " + ", ".join(failures))
print("OK")
