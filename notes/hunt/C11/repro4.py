"""C11 violation 4: Transformation.apply transforms the dual data of an object
like a vector, not like a dual vector, so the dual data stop describing the
transformed primary data.

ProjectiveObject documents dual_data as "data ... which transforms covariantly,
i.e. as a dual vector", and Transformation._apply_to_data has a `dual=True`
branch (inverse transpose) for it - but apply() never passes dual=True.  For a
ConvexPolygon the dual vector is the affine chart that contains the polygon
(all vertices pair with it with the same sign).  After applying a
non-orthogonal projective transformation the stored dual vector pairs with the
transformed vertices with MIXED signs: the "chart containing the polygon" now
cuts through it, whereas a dual vector recomputed from the primary data (or the
correctly transformed one) is positive on all vertices.
"""
import numpy as np
from geometry_tools import projective as P, utils

np.set_printoptions(precision=4, suppress=True)

square = P.Point(np.array([[0., 0], [1, 0], [1, 1], [0, 1]]),
                 chart_index=0).proj_data
chart = np.array([1., 0, 0])                 # the standard affine chart x0 != 0
poly = P.ConvexPolygon(square, dual_data=chart)
print("vertices paired with dual data before:", poly.proj_data @ poly.dual_data)

T = P.Transformation(np.array([[1., -2, -2],
                               [0, 1, -2],
                               [-2, 0, 1]]), column_vectors=True)
moved = T @ poly                                           # history: construct, apply
assert np.allclose(moved.aux_data, moved._compute_aux_data(moved.proj_data))

stored = moved.proj_data @ moved.dual_data
covariant = moved.proj_data @ (chart @ np.linalg.inv(T.matrix).T)
recomputed = moved.proj_data @ utils.find_positive_functional(moved.proj_data)
print("transformed vertices paired with STORED dual data:     ", stored)
print("transformed vertices paired with inverse-transpose dual:", covariant)
print("transformed vertices paired with recomputed dual data:  ", recomputed)

same_sign = (stored > 0).all() or (stored < 0).all()
assert (covariant > 0).all() and (recomputed > 0).all()
assert same_sign, (
    "after apply, the stored dual vector of the ConvexPolygon no longer "
    "defines an affine chart containing the transformed vertices "
    f"(pairings {stored}); dual data were multiplied by M instead of M^-T")
print("OK")
