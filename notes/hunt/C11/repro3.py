"""C11 violation 3: flattening a composite Polygon with an explicit `unit`
(flatten_to_unit(unit) / flatten_to_aux()) leaves vertices and edges with
different composite shapes.

flatten_to_unit(unit) reshapes proj_data, aux_data and dual_data with the SAME
number of trailing "unit" axes, although a Polygon's edges have one more unit
axis (aux_ndims = 3) than its vertices (unit_ndims = 2).  So
  * polys.flatten_to_unit(2)   (2 == Polygon.unit_ndims, i.e. what the
    documented default means) keeps 3 polygons but stores 12 "edges" of shape
    (12, 2, 3) instead of (3, 4, 2, 3);
  * polys.flatten_to_aux()     stores vertices of composite shape (1, 3) next to
    edges of composite shape (3,).
The stored derived data no longer equal what is recomputed from the primary
data, and every later apply / get_edges works on the mismatched arrays.
"""
import numpy as np
from geometry_tools import hyperbolic as H, projective as P

rng = np.random.default_rng(0)
klein = rng.uniform(-.6, .6, size=(3, 4, 2))        # 3 quadrilaterals in H^2

failures = []
for mod, cls, verts in [("hyperbolic", H.Polygon, H.Point(klein, model="klein")),
                        ("projective", P.Polygon, P.Point(klein, chart_index=0))]:
    polys = cls(verts.proj_data)
    default = polys.flatten_to_unit()
    print(f"{mod}.Polygon composite shape {polys.shape}: vertices "
          f"{polys.proj_data.shape}, edges {polys.aux_data.shape}")
    print(f"  flatten_to_unit():   vertices {default.proj_data.shape}, "
          f"edges {default.aux_data.shape}")

    for label, flat in [("flatten_to_unit(2)", polys.flatten_to_unit(2)),
                        ("flatten_to_unit(unit=polys.unit_ndims)",
                         polys.flatten_to_unit(unit=polys.unit_ndims)),
                        ("flatten_to_aux()", polys.flatten_to_aux())]:
        recomputed = flat._compute_aux_data(flat.proj_data)
        ok = (flat.aux_data.shape == recomputed.shape
              and np.allclose(flat.aux_data, recomputed))
        print(f"  {label}: vertices {flat.proj_data.shape}, stored edges "
              f"{flat.aux_data.shape}, recomputed edges {recomputed.shape}, "
              f"object shape {flat.shape}, "
              f"{len(flat.get_edges().flatten_to_unit())} edges seen by get_edges()"
              f" -> {'coherent' if ok else 'INCOHERENT'}")
        if not ok:
            failures.append(f"{mod}.Polygon.{label}")

assert not failures, "stored edges != edges recomputed from vertices after: " \
    + "; ".join(failures)
print("OK")
