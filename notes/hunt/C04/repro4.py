"""C04: BoundaryArc (unit rank 2) only works as a single object.
 (a) building a composite arc from composite endpoints raises for every composite shape with
     more than one unit, although each unit builds fine;
 (b) a composite arc obtained by stacking units cannot be indexed or iterated:
     __getitem__ re-runs the constructor on the stored (3, n) unit data (two endpoints plus the
     orientation point) as if it were a pair of endpoints."""
import numpy as np
from geometry_tools import hyperbolic


def ideal(theta):
    theta = np.asarray(theta, dtype=float)
    return np.stack([np.ones_like(theta), np.cos(theta), np.sin(theta)], axis=-1)

starts = np.array([0.3, 2.0, 4.0])
ends = np.array([1.0, 1.0, 5.5])

units = [hyperbolic.BoundaryArc(ideal(a), ideal(b)) for a, b in zip(starts, ends)]
unit_angles = np.array([u.circle_parameters()[2] for u in units])
print("unit arcs, begin/end angles:\n", unit_angles)

problems = []

# (a) composite endpoints
try:
    arcs = hyperbolic.BoundaryArc(ideal(starts), ideal(ends))
    assert arcs.shape == (3,)
    assert np.allclose(arcs.circle_parameters()[2], unit_angles)
    print("(a) BoundaryArc(composite endpoints): ok")
except Exception as e:
    print("(a) BoundaryArc(composite endpoints) raised %s: %s" % (type(e).__name__, e))
    problems.append("construct")

# (b) stack the units, then index / iterate
stacked = hyperbolic.BoundaryArc(units)
print("stacked composite: shape", stacked.shape)
assert stacked.shape == (3,)
assert np.allclose(stacked.circle_parameters()[2], unit_angles)   # vectorised op agrees with the units
try:
    second = stacked[1]
    assert np.allclose(second.proj_data, units[1].proj_data)
    print("(b) stacked[1]: ok")
except Exception as e:
    print("(b) stacked[1] raised %s: %s" % (type(e).__name__, e))
    problems.append("index")
try:
    back = list(stacked)
    assert len(back) == 3
    print("(b) list(stacked): ok")
except Exception as e:
    print("(b) list(stacked) raised %s: %s" % (type(e).__name__, e))
    problems.append("iterate")

assert not problems, "composite BoundaryArc fails at: %r" % (problems,)
