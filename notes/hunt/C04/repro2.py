"""C04: indexing / iterating a composite object does not return its units: __getitem__ keeps
only proj_data and recomputes the auxiliary data, so the stored (transformed) aux_data of a
unit is lost.  (A @ segments)[i] differs from A @ segments[i] and from what
flatten_to_unit() / reshape() hold at the same position."""
import numpy as np
from geometry_tools import hyperbolic, projective

p = hyperbolic.Point(np.array([[0.1, 0.2], [-0.3, 0.4], [0.5, -0.1]]), model="klein")
q = hyperbolic.Point(np.array([[0.6, 0.1], [0.2, -0.5], [-0.4, -0.4]]), model="klein")
segments = hyperbolic.Segment(p, q)                      # composite shape (3,), aux rank 2

# a projective change of coordinates (not an isometry), as used e.g. to draw in another chart
A = projective.Transformation(np.array([[1.0, 0.2, 0.0],
                                        [0.0, 1.5, 0.1],
                                        [0.3, 0.0, 0.8]]))
moved = A @ segments
print("composite shape:", moved.shape, " aux_data shape:", moved.aux_data.shape)

i = 1
unit_then_apply = A @ segments[i]          # the transformation applied to unit i
by_index = moved[i]                        # unit i of the transformed composite
by_iter = list(moved)[i]
by_flatten = moved.flatten_to_unit()

print("ideal endpoints of unit 1")
print("  A @ segments[1]            :", unit_then_apply.aux_data.tolist())
print("  (A @ segments).aux_data[1] :", moved.aux_data[i].tolist())
print("  flatten_to_unit().aux_data :", by_flatten.aux_data[i].tolist())
print("  (A @ segments)[1]          :", by_index.aux_data.tolist())
print("  list(A @ segments)[1]      :", by_iter.aux_data.tolist())

assert np.allclose(unit_then_apply.aux_data, moved.aux_data[i])       # elementwise application is fine
assert np.allclose(by_flatten.aux_data[i], moved.aux_data[i])        # flattening keeps the unit
assert np.allclose(by_index.proj_data, moved.proj_data[i])
assert np.allclose(by_index.aux_data, moved.aux_data[i]), \
    "indexing changed the auxiliary data of the unit"
assert np.allclose(by_iter.aux_data, moved.aux_data[i]), \
    "iterating changed the auxiliary data of the unit"
