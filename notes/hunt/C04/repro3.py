"""C04: the documented composite forms of TangentVector.get_base_tangent(dimension, shape)
("shape : Shape of the composite TangentVector object to return") and of
Polygon.regular_polygon ("This is actually vectorized") only work for rank 0: every
non-empty composite shape raises, although each unit on its own is fine."""
import numpy as np
from geometry_tools import hyperbolic

unit = hyperbolic.TangentVector.get_base_tangent(2)
print("get_base_tangent(2): shape", unit.shape, "data", unit.proj_data.tolist())

failures = []
for shape in [(1,), (3,), (2, 3), (2, 1, 3)]:
    try:
        tv = hyperbolic.TangentVector.get_base_tangent(2, shape)
        assert tv.shape == shape
        for idx in np.ndindex(*shape):
            assert np.allclose(tv.proj_data[idx], unit.proj_data)
        print("get_base_tangent(2, %r): ok" % (shape,))
    except Exception as e:
        print("get_base_tangent(2, %r): raised %s: %s" % (shape, type(e).__name__, e))
        failures.append(("get_base_tangent", shape))

radii = np.array([0.5, 1.0, 2.0])
units = [hyperbolic.Polygon.regular_polygon(5, radius=r) for r in radii]
print("regular_polygon(5, radius=r) for each r: vertex arrays of shape", units[0].proj_data.shape)
try:
    polys = hyperbolic.Polygon.regular_polygon(5, radius=radii)
    assert polys.shape == (3,)
    for i in range(3):
        assert np.allclose(polys.proj_data[i], units[i].proj_data)
    print("regular_polygon(5, radius=array of 3 radii): ok")
except Exception as e:
    print("regular_polygon(5, radius=array of 3 radii): raised %s: %s" % (type(e).__name__, e))
    failures.append(("regular_polygon", radii.shape))

assert not failures, "composite forms fail: %r" % (failures,)
