"""C04: Transformation.commute(..., broadcast="pairwise") is not the outer product of the
unit results.  Entry [i][j] must be what self[i].commute(other[j]) returns."""
import numpy as np
from geometry_tools import projective

S = projective.Transformation(np.array([np.diag([1., 2., 3.]), np.diag([1., 2., 3.])]))
O = projective.Transformation(np.array([np.diag([2., 1., 1.]), np.diag([1., 1., 5.])]))

# every S[i] commutes with every O[j] (all matrices are diagonal)
expected = np.array([[bool(S[i].commute(O[j])) for j in range(2)] for i in range(2)])
print("unit by unit, S[i].commute(O[j]):\n", expected)
assert expected.all()

pairwise = S.commute(O, broadcast="pairwise")
print('S.commute(O, broadcast="pairwise"):\n', pairwise)

# composite shapes (3,) and (2,): the outer product has 3 x 2 entries
S3 = projective.Transformation(np.array([np.diag([1., 2., 3.])] * 3))
try:
    res32 = S3.commute(O, broadcast="pairwise")
    print("shapes (3,) x (2,):", res32.shape)
except Exception as e:
    res32 = None
    print("shapes (3,) x (2,): raised", type(e).__name__, e)

assert pairwise.shape == (2, 2)
assert (pairwise == expected).all(), "pairwise commute differs from the unit results"
assert res32 is not None and res32.all()
