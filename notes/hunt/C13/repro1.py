"""C13: the angle between tangent vectors at a point must satisfy the hyperbolic
law of cosines.  For p, q, r on one geodesic with q, r on the same side of p the
angle at p between the unit tangents towards q and towards r is 0 (pi when they
are on opposite sides).  TangentVector.angle returns nan for a large fraction of
such inputs, because it feeds an un-clipped inner product such as
1.0000000000000002 to arccos."""
import warnings
import numpy as np
from geometry_tools.hyperbolic import Point

warnings.simplefilter("ignore")

rng = np.random.default_rng(0)
N = 200
bad_self, bad_same, bad_opp = [], [], []
for _ in range(N):
    dim = int(rng.integers(2, 6))
    pc = rng.uniform(-.5, .5, size=dim)
    qc = rng.uniform(-.5, .5, size=dim)
    p = Point(pc, model="klein")
    q = Point(qc, model="klein")
    d = p.distance(q)

    # r beyond q on the ray from p, s on the opposite ray
    r = p.unit_tangent_towards(q).point_along(2 * d)
    s = p.unit_tangent_towards(q).point_along(-d)

    # law of cosines for the degenerate triangle p, q, r
    a, b, c = d, p.distance(r), q.distance(r)
    cos_expected = (np.cosh(a) * np.cosh(b) - np.cosh(c)) / (np.sinh(a) * np.sinh(b))
    assert abs(cos_expected - 1) < 1e-6      # expected angle is 0

    t = p.unit_tangent_towards(q)
    ang_self = t.angle(p.unit_tangent_towards(q))
    ang_same = p.unit_tangent_towards(q).angle(p.unit_tangent_towards(r))
    ang_opp = p.unit_tangent_towards(q).angle(p.unit_tangent_towards(s))
    if not (np.isfinite(ang_self) and abs(ang_self) < 1e-6):
        bad_self.append((pc, qc, ang_self))
    if not (np.isfinite(ang_same) and abs(ang_same) < 1e-6):
        bad_same.append((pc, qc, ang_same))
    if not (np.isfinite(ang_opp) and abs(ang_opp - np.pi) < 1e-6):
        bad_opp.append((pc, qc, ang_opp))

print("out of %d random collinear configurations in H^2..H^5:" % N)
print("  angle(towards q, towards q)         wrong for %d" % len(bad_self))
print("  angle(towards q, towards r beyond q) wrong for %d" % len(bad_same))
print("  angle(towards q, towards s opposite) wrong for %d" % len(bad_opp))
for name, bad in (("self", bad_self), ("same ray", bad_same), ("opposite", bad_opp)):
    if bad:
        pc, qc, ang = bad[0]
        print("  first %s example: p = %s, q = %s (Klein), angle = %s" % (name, pc, qc, ang))

assert not bad_self and not bad_same and not bad_opp, "TangentVector.angle returned nan"
