"""C13: the angle between tangent vectors at a point satisfies the hyperbolic
law of cosines.  A point of H^n is a projective class, so x and -x are the same
point.  The library itself follows the convention (x, v) ~ (-x, -v) for tangent
vectors: unit_tangent_towards and point_along work correctly for a negatively
scaled basepoint.  TangentVector.angle ignores the sign of the basepoint
representative of `other` and returns pi - angle."""
import numpy as np
from geometry_tools.hyperbolic import Point

p = Point(np.array([0.1, 0.2, -0.3]), model="klein")
q = Point(np.array([0.4, -0.2, 0.1]), model="klein")
r = Point(np.array([-0.3, 0.5, 0.2]), model="klein")

# the same point as p, other representative of the projective class
p_neg = Point(-p.hyperboloid_coords())
print("d(p, p_neg) =", p.distance(p_neg))
assert p.distance(p_neg) < 1e-7

t_q = p.unit_tangent_towards(q)
t_r = p.unit_tangent_towards(r)
t_r_neg = p_neg.unit_tangent_towards(r)

# both really are unit tangent vectors at p pointing at r:
print("arrive at r from p    :", t_r.point_along(p.distance(r)).distance(r))
print("arrive at r from p_neg:", t_r_neg.point_along(p.distance(r)).distance(r))
assert t_r_neg.point_along(p.distance(r)).distance(r) < 1e-6

a, b, c = p.distance(q), p.distance(r), q.distance(r)
expected = np.arccos((np.cosh(a) * np.cosh(b) - np.cosh(c)) /
                     (np.sinh(a) * np.sinh(b)))
got = t_q.angle(t_r)
got_neg = t_q.angle(t_r_neg)
print("law of cosines angle at p     :", expected)
print("angle(t_q, t_r)               :", got)
print("angle(t_q, t_r from p_neg)    :", got_neg, " (pi - expected = %s)" % (np.pi - expected))

assert abs(got - expected) < 1e-6
assert abs(got_neg - expected) < 1e-6, "angle depends on the sign of the basepoint representative"
