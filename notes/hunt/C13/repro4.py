"""C13: the point at distance t along a unit tangent vector lies at distance |t|
from the basepoint, for all t (docstring: `distance : float or ndarray`).
For a single tangent vector an ndarray of distances raises; a python list of
distances is silently repeated by `2 * r` in hyp_to_affine_dist, so a one
element list [t] on a composite tangent vector of shape (2,) gives the points at
distance t/2."""
import numpy as np
from geometry_tools.hyperbolic import Point

p = Point(np.array([0.1, 0.2]), model="klein")
q = Point(np.array([-0.3, 0.4]), model="klein")
t = p.unit_tangent_towards(q)

ok = True
ts = np.array([-1.0, 0.5, 2.0])
try:
    pts = t.point_along(ts)
    d = pts.distance(p)
    print("distances:", d)
    ok = ok and np.allclose(d, np.abs(ts), atol=1e-6)
except Exception as e:
    ok = False
    print("single tangent vector, point_along(ndarray of 3 distances) raised %s: %s"
          % (type(e).__name__, e))

# composite tangent vector of shape (2,), distance given as the list [1.0]
P = Point(np.array([[0.1, 0.2], [0.3, -0.1]]), model="klein")
Q = Point(np.array([[-0.3, 0.4], [0.0, 0.5]]), model="klein")
T = P.unit_tangent_towards(Q)
d_list = T.point_along([1.0]).distance(P)
d_arr = T.point_along(np.array([1.0])).distance(P)
print("shape (2,) tangent, point_along(np.array([1.0])):", d_arr)
print("shape (2,) tangent, point_along([1.0])          :", d_list, "(expected 1.0)")
ok = ok and np.allclose(d_list, 1.0, atol=1e-6)

assert ok
