"""C19: a polygon whose consecutive vertices are given by homogeneous vectors
v, w with v - w lightlike (e.g. the integer vectors (3,1,0) and (2,1,1)) gets
NaN ideal endpoints for that edge (Segment._compute_aux_data divides by
a = <v-w, v-w> = 0).  The drawing code reads NaN radius as "straight": in the
Poincare model the edge is drawn as a straight chord although its circle has
radius < 3, and in the half-plane model the path runs off to the top of the
picture along vertical lines."""
import warnings
import numpy as np
import matplotlib
matplotlib.use("Agg")
from matplotlib.patches import PathPatch
from matplotlib.transforms import Affine2D
from geometry_tools import hyperbolic, drawtools
from geometry_tools.hyperbolic import Model
warnings.simplefilter("ignore")

V = np.array([[3, 1, 0], [2, 1, 1], [4, -1, 1]])          # all timelike
klein = V[:, 1:] / V[:, :1]
print("Klein coordinates of the vertices:\n", klein)

# the same polygon from normalised coordinates, for reference
ref = hyperbolic.Polygon(hyperbolic.Point(klein, model="klein"))
print("true edge radii (Poincare):", ref.get_edges().circle_parameters(model=Model.POINCARE)[1])
print("true edge radii (half-plane):", ref.get_edges().circle_parameters(model=Model.HALFSPACE)[1])

def sample(path):
    big = Affine2D().scale(1e4).transform_path(path)
    out = []
    for poly in big.to_polygons(closed_only=False):
        poly = poly / 1e4
        for a, b in zip(poly[:-1], poly[1:]):
            out.append(a + np.linspace(0, 1, 50)[:, None] * (b - a))
    return np.concatenate(out)

def to_klein(pts, model):
    if model == Model.HALFSPACE:
        pts = hyperbolic.halfspace_to_poincare(pts)
    return hyperbolic.poincare_to_kleinian(pts)

def dist_to_edges(q):
    best = np.inf
    for a, b in zip(klein, np.roll(klein, -1, axis=0)):
        t = np.clip(np.dot(q - a, b - a) / np.dot(b - a, b - a), 0, 1)
        best = min(best, np.linalg.norm(q - a - t * (b - a)))
    return best

worst = {}
for model in (Model.POINCARE, Model.HALFSPACE):
    for name, poly in (("normalised", ref), ("integer", hyperbolic.Polygon(V))):
        d = drawtools.HyperbolicDrawing(model=model)
        d.draw_polygon(poly)
        (patch,) = [p for p in d.ax.patches if isinstance(p, PathPatch)]
        pts = sample(patch.get_path())
        # geodesics are straight in the Klein model: every sampled point of the
        # path must lie on one of the three Klein chords
        dev = max(dist_to_edges(q) for q in to_klein(pts, model))
        worst[model.name, name] = dev
        print("%-16s %-10s vertices: max deviation of the drawn path from the polygon's edges "
              "(measured in the Klein model): %.3g" % (model, name, dev))

for key, dev in worst.items():
    assert dev < 2e-3, "path for %s leaves the polygon's edges by %.3g" % (key, dev)
print("OK")
