"""C19: ProjectiveDrawing.draw_polygon(..., assume_affine=False) ignores the
drawing's chart_index: in_standard_chart() and draw_nonaff_polygon() always work
in chart 0.  With chart_index=1 a triangle lying entirely inside chart 1 is cut
in two pieces placed at its chart-0 coordinates, and a polygon which does cross
the line at infinity of chart 1 is drawn as an ordinary (self-crossing) affine
polygon."""
import numpy as np
import matplotlib
matplotlib.use("Agg")
from geometry_tools import projective, drawtools

V = np.array([[-1., 1, 0], [1, 1, 0], [0.5, 1, 1]])     # x1 = 1 for all vertices
poly = projective.Polygon(V)
expected = np.delete(V / V[:, 1:2], 1, axis=-1)          # coordinates in chart 1
print("expected coordinates in chart 1:\n", expected)

def drawn(assume_affine):
    d = drawtools.ProjectiveDrawing(chart_index=1)
    d.draw_polygon(poly, assume_affine=assume_affine)
    polys = [p.vertices for c in d.ax.collections for p in c.get_paths()]
    polys += [p.get_xy() for p in d.ax.patches]
    return polys

a = drawn(True)
print("assume_affine=True :", [p.tolist() for p in a])
b = drawn(False)
print("assume_affine=False:", [np.round(p, 3).tolist() for p in b])

assert len(a) == 1 and np.allclose(a[0][:3], expected)
assert len(b) == 1 and np.allclose(b[0][:3], expected), (
    "a triangle inside chart 1 was not drawn at its chart-1 coordinates "
    "(got %d artists, first vertices %s)" % (len(b), np.round(b[0][:3], 3).tolist()))
print("OK")
