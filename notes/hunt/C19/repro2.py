"""C19: HyperbolicDrawing.draw_point (and ProjectiveDrawing.draw_point) call
plt.plot, i.e. they add the marker artist to pyplot's *current* axes, not to the
drawing's own axes.  As soon as two drawings exist (two figures, or two subplots
for two models) the points of the first drawing are added to the second one, at
the coordinates of the first one's model."""
import numpy as np
import matplotlib
matplotlib.use("Agg")
import matplotlib.pyplot as plt
from geometry_tools import hyperbolic, projective, drawtools
from geometry_tools.hyperbolic import Model

pts = hyperbolic.Point(np.array([[0.3, 0.4], [0.1, -0.2]]), model="klein")

fig, (ax1, ax2) = plt.subplots(1, 2)
poincare = drawtools.HyperbolicDrawing(model=Model.POINCARE, fig=fig, ax=ax1)
halfplane = drawtools.HyperbolicDrawing(model=Model.HALFSPACE, fig=fig, ax=ax2)

poincare.draw_point(pts)          # must end up in ax1, at Poincare coordinates

print("expected Poincare coordinates:\n", pts.coords(Model.POINCARE))
print("line artists in the Poincare drawing's axes :", [l.get_xydata().tolist() for l in ax1.lines])
print("line artists in the half-plane drawing's axes:", [l.get_xydata().tolist() for l in ax2.lines])

# same for the projective drawing class
fig2, (bx1, bx2) = plt.subplots(1, 2)
pd1 = drawtools.ProjectiveDrawing(fig=fig2, ax=bx1)
pd2 = drawtools.ProjectiveDrawing(fig=fig2, ax=bx2, chart_index=2)
pd1.draw_point(projective.Point(np.array([1., 2., 3.])))
print("projective: artists in drawing 1:", len(bx1.lines), " in drawing 2:", len(bx2.lines))

assert len(ax2.lines) == 0, "points of the Poincare drawing were added to the half-plane drawing"
assert len(ax1.lines) == 1 and np.allclose(ax1.lines[0].get_xydata(), pts.coords(Model.POINCARE))
assert len(bx1.lines) == 1 and len(bx2.lines) == 0
print("OK")
