"""C19: in the half-plane model a polygon edge whose circle radius exceeds
RADIUS_THRESHOLD (80) is not replaced by the straight chord between its two
vertices (as in the Poincare model) but by a VERTICAL line: get_vertical_segment
overwrites the x coordinate of the second endpoint with that of the first.
The drawn path then misses a vertex of the polygon and leaves the edge."""
import numpy as np
import matplotlib
matplotlib.use("Agg")
from matplotlib.patches import PathPatch
from geometry_tools import hyperbolic, drawtools
from geometry_tools.hyperbolic import Model

# a triangle given by its half-plane coordinates, well inside the default view
# (xlim (-6, 6), ylim (-0.1, 8)).  The edge C -> A lies on a circle centred on
# the real axis at x = 96.1 with radius about 96 > RADIUS_THRESHOLD.
A, B, C = (0.0, 1.0), (1.0, 1.0), (0.25, 7.0)
hp = np.array([A, B, C])
poly = hyperbolic.Polygon(hyperbolic.Point(hp, model=Model.HALFSPACE))
print("half-plane vertices of the polygon:\n", poly.get_vertices().coords(Model.HALFSPACE))
print("edge radii:", poly.get_edges().circle_parameters(model=Model.HALFSPACE)[1])

d = drawtools.HyperbolicDrawing(model=Model.HALFSPACE)
d.draw_polygon(poly)
(patch,) = [p for p in d.ax.patches if isinstance(p, PathPatch)]
verts = patch.get_path().vertices
print("path vertices:\n", verts)

def seg_dist(q, a, b):
    t = np.clip(np.dot(q - a, b - a) / np.dot(b - a, b - a), 0, 1)
    return np.linalg.norm(q - a - t * (b - a))

def to_klein(p):
    return hyperbolic.poincare_to_kleinian(hyperbolic.halfspace_to_poincare(np.asarray(p, float)))

def sample(path):
    # flatten the Bezier pieces finely and subdivide the straight pieces
    from matplotlib.transforms import Affine2D
    big = Affine2D().scale(1e4).transform_path(path)
    out = []
    for poly in big.to_polygons(closed_only=False):
        poly = poly / 1e4
        for a, b in zip(poly[:-1], poly[1:]):
            out.append(a + np.linspace(0, 1, 20)[:, None] * (b - a))
    return np.concatenate(out)

klein = to_klein(hp)
worst = 0
samples = sample(patch.get_path())
print(len(samples), "sample points on the path")
for q in samples[::7]:
    # distance to the true geodesic edges (straight chords in the Klein model) ...
    d_geod = min(seg_dist(to_klein(q), a, b) for a, b in zip(klein, np.roll(klein, -1, axis=0)))
    # ... or to the straight chord between two consecutive vertices in the half-plane
    # picture, the approximation the drawing code is entitled to use for large radii
    d_chord = min(seg_dist(q, a, b) for a, b in zip(hp, np.roll(hp, -1, axis=0)))
    dev = min(d_geod, d_chord)
    worst = max(worst, dev)
    if dev > 1e-3:
        print("path point", q, "is off every edge and every chord of the polygon by %.3g" % dev)

print("path starts at", verts[0], "and ends at", verts[-1], "(vertex A is", hp[0], ")")
assert np.linalg.norm(verts[0] - verts[-1]) < 1e-3, (
    "the path is not closed: the last edge C -> A ends at %s instead of A = %s" % (verts[-1], hp[0]))
assert worst < 1e-3, "a point of the path is off the polygon by %.3g" % worst
print("OK")
