"""C03: a representation created with parse_simple=False (generator names of
more than one character, words written "g1*g2*...") does not map words to the
product of its generators when it is indexed:

  * rep[word] / rep.element(word) ignore the representation's parse_simple
    setting and split the word into single characters, so the image of a
    generator read back is NOT the transformation that was assigned
    (silently, when the characters happen to be generator names too), or a
    KeyError (names such as "s0", "s1" used by coxeter's "alphanum" style);
  * the empty word, i.e. the identity, has no image in this mode (KeyError '').
"""
import numpy as np
from geometry_tools import projective as P

rng = np.random.default_rng(0)
mats = {name: rng.normal(size=(3, 3)) for name in ("a", "b", "ab")}

rep = P.ProjectiveRepresentation(parse_simple=False)
for name, mat in mats.items():
    rep[name] = P.Transformation(mat, column_vectors=True)
print("generators:", list(rep.generators), "parse_simple =", rep.parse_simple)

v = rng.normal(size=3)
point = P.Point(v)
failures = []

# the generator called "ab" acts by its own matrix ...
got = (rep["ab"] @ point).proj_data
print('rep["ab"] acts as the matrix assigned to "ab":', np.allclose(got, mats["ab"] @ v),
      '| as mats["a"] @ mats["b"]:', np.allclose(got, mats["a"] @ mats["b"] @ v))
if not np.allclose(got, mats["ab"] @ v):
    failures.append('rep["ab"] is not the transformation assigned to the generator "ab"')

# ... and the word a*ab*B by the product of the three matrices
want = mats["a"] @ mats["ab"] @ np.linalg.inv(mats["b"]) @ v
explicit = (rep.element("a*ab*B", parse_simple=False) @ point).proj_data
print('element("a*ab*B", parse_simple=False) correct:', np.allclose(explicit, want))
try:
    got = (rep["a*ab*B"] @ point).proj_data
    if not np.allclose(got, want):
        failures.append('rep["a*ab*B"] is not a.ab.b^-1')
except KeyError as e:
    print('rep["a*ab*B"] raises KeyError', e)
    failures.append('rep["a*ab*B"] raises KeyError %s' % e)

# the identity element
for access in ("rep.element('', parse_simple=False)", "rep.elements([''])"):
    try:
        eval(access)
        print(access, "ok")
    except KeyError as e:
        print(access, "raises KeyError", e)
        failures.append(access + " raises KeyError %s" % e)

assert not failures, "; ".join(failures)
