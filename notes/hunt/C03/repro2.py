"""C03: Transformation.apply(X, broadcast="pairwise") returns the composite
axes in the order (axes of X, axes of the transformations); the documentation
(module docstring of geometry_tools.hyperbolic: "5 isometries being applied to
2 points ... returned as a 5x2x2 numpy array") and the library's own tests
(testing/test_projective.py::test_apply_pairwise, test_apply_pairwise_polygon)
say (axes of the transformations, axes of X).  So result[i, j] is NOT
transformation i applied to object j, for points and for polygons alike.
"""
import numpy as np
from numpy import pi
from geometry_tools import hyperbolic, projective

# --- the example of the hyperbolic module docstring, verbatim -------------
free_rep = hyperbolic.HyperbolicRepresentation()
free_rep["a"] = hyperbolic.sl2_iso([[3., 0], [0., 1. / 3]])
rot = hyperbolic.Isometry.standard_rotation(pi / 2)
free_rep["b"] = rot @ free_rep["a"] @ rot.inv()

pt = hyperbolic.Point([[0., 0.3],
                       [0.1, 0.0]], model="klein")

words = list(free_rep.free_words_less_than(2))      # '', a, A, b, B
isos = free_rep.isometries(words)
result = isos.apply(pt, "pairwise")
coords = result.coords(model="klein")
print("5 isometries applied pairwise to 2 points: composite shape", result.shape,
      "coordinate array", coords.shape, "(documented: 5x2x2)")

# --- same thing in projective space, with the check spelled out ------------
rng = np.random.default_rng(0)
transforms = projective.Transformation(rng.normal(size=(4, 3, 3)))
points = projective.Point(rng.normal(size=(3, 3)))
polys = projective.Polygon(rng.normal(size=(2, 5, 3)))
tp = transforms.apply(points, broadcast="pairwise")
tg = transforms.apply(polys, broadcast="pairwise")
print("4 transformations x 3 points  ->", tp.shape, "(tests expect (4, 3))")
print("4 transformations x 2 polygons ->", tg.shape, "(tests expect (4, 2))")

ok = True
if tp.shape == (4, 3):
    for i in range(4):
        for j in range(3):
            single = projective.Transformation(transforms.proj_data[i]) @ projective.Point(points.proj_data[j])
            ok &= np.allclose(tp.proj_data[i, j], single.proj_data)
else:
    ok = False

# --- a consequence inside the library: Transformation.commute(pairwise) -----
# commute() lines its inverses up as (axes of self, axes of other); with the
# order apply() really produces it pairs the wrong elements.
d1 = np.diag([1., 2, 3]); d2 = np.diag([2., 5, 7])
g = np.array([[1., 1, 0], [0, 1, 0], [0, 0, 1]])
h = np.array([[1., 0, 0], [0, 1, 1], [0, 0, 1]])
S = projective.Transformation(np.array([d1, g, h]))
O = projective.Transformation(np.array([d2, g, h]))
got = S.commute(O, broadcast="pairwise")
want = np.array([[np.allclose(s @ o, o @ s) for o in O.proj_data] for s in S.proj_data])
print("commute(pairwise):\n", got, "\nelement by element:\n", want)
try:
    projective.Transformation(np.array([d1, g])).commute(O, broadcast="pairwise")
    commute_23 = "ok"
except ValueError as e:
    commute_23 = "ValueError"
print("commute(pairwise) of 2 against 3 transformations:", commute_23)

assert coords.shape == (5, 2, 2), \
    "pairwise apply of 5 isometries to 2 points gave coordinates of shape %s, documented 5x2x2" % (coords.shape,)
assert tp.shape == (4, 3) and tg.shape == (4, 2) and ok
assert (got == want).all() and commute_23 == "ok"
