"""C03: the dual data of an object is multiplied by the matrix like a point,
instead of transforming as a dual vector (by the inverse transpose).

ProjectiveObject documents dual_data as "data describing this projective
object which transforms covariantly, i.e. as a dual vector in projective
space", and Transformation._apply_to_data has a `dual=True` branch doing
exactly that -- but Transformation.apply never passes it.  So the derived
data of A @ X is wrong: the pairing <dual, point> is not preserved.  For a
ConvexPolygon the dual vector is the affine chart that contains the polygon;
after a transformation the stored chart cuts through the polygon.
"""
import numpy as np
from geometry_tools import projective as P

square = np.array([[1., 0, 0], [1, 1, 0], [1, 1, 1], [1, 0, 1]])
chart = np.array([1., 0, 0])              # x0 != 0: contains the square
poly = P.ConvexPolygon(square, dual_data=chart)
print("pairing of the chart functional with the vertices:", poly.proj_data @ poly.dual_data)

A = P.Transformation(np.array([[1., 0, 0],
                               [-2., 1, 0],
                               [0., 0, 1]]))          # row matrix, det 1
image = A @ poly
assert type(image) is P.ConvexPolygon
pairing = image.proj_data @ image.dual_data
expected_dual = poly.dual_data @ np.linalg.inv(A.matrix).T
print("after A: vertices\n", image.proj_data)
print("after A: stored dual data", image.dual_data, " (a dual vector would be", expected_dual, ")")
print("pairing of the stored dual data with the image vertices:", pairing)
print("pairing of the correct dual vector with the image vertices:", image.proj_data @ expected_dual)

# the same thing for a bare incidence: a point on a hyperplane stays on it
pt = np.array([1., 2., 3.])
hyp = np.array([1., 1., -1.])             # <hyp, pt> = 0
flag = P.ProjectiveObject(pt, dual_data=hyp, unit_ndims=1, dual_ndims=1)
B = P.Transformation(np.array([[2., 1, 0], [0, 1, 0], [0.5, 0, 1]]))
moved = B @ flag
inc = moved.proj_data @ moved.dual_data
print("incidence <hyperplane, point> before:", pt @ hyp, " after B:", inc)

assert np.all(pairing > 0) or np.all(pairing < 0), \
    "the chart stored with A @ polygon does not contain the polygon: pairings %s" % pairing
assert abs(inc) < 1e-9, "a point on a hyperplane is moved off it: pairing %s" % inc
