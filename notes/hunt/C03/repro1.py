"""C03: an isometry given by a time-reversing matrix (M[0,0] < 0) maps a
BoundaryArc to the COMPLEMENT of its image.

M and -M are the same projective transformation, so Isometry(-I) is the
identity of H^2; it must leave every object unchanged.  BoundaryArc decides
which of the two arcs between its endpoints it is from the sign of
det(proj_data); every row is multiplied by the matrix, so the sign flips with
det(M) even when the projective action preserves orientation (3x3: det(-M) =
-det(M)).  The library itself produces such matrices: Point.origin_to() of a
point stored with a negative representative.
"""
import numpy as np
from geometry_tools import hyperbolic as H

J = np.diag([-1., 1., 1.])


def contains(arc, ideal_point):
    """Is the ideal point on the (closed) boundary arc? (Klein model angles)"""
    _, _, th = arc.circle_parameters(model=H.Model.KLEIN, degrees=False)
    k = ideal_point.coords(model=H.Model.KLEIN)
    a = np.arctan2(k[..., 1], k[..., 0])
    return ((a - th[..., 0]) % (2 * np.pi)) <= ((th[..., 1] - th[..., 0]) % (2 * np.pi))


arc = H.BoundaryArc(H.IdealPoint.from_angle(0.2), H.IdealPoint.from_angle(1.0))
inside = H.IdealPoint.from_angle(0.6)     # on the arc
outside = H.IdealPoint.from_angle(3.0)    # not on the arc
assert contains(arc, inside) and not contains(arc, outside)

failures = []

# 1. the identity of PO(2,1), written with the other sign
minus_id = H.Isometry(-np.eye(3))
image = minus_id @ arc
print("(-I) @ arc contains the point at angle 0.6:", contains(image, inside),
      "| contains the point at angle 3.0:", contains(image, outside))
if not (contains(image, inside) and not contains(image, outside)):
    failures.append("Isometry(-I), the identity of PO(2,1), turns the arc into its complement")

# 2. A and -A are the same projective transformation but act differently
rot = H.Isometry.standard_rotation(0.7)
neg_rot = H.Isometry(-rot.matrix)
im1, im2 = rot @ arc, neg_rot @ arc
p = rot @ inside
print("rot @ arc contains rot @ inside:", contains(im1, p),
      "| (-rot) @ arc contains it:", contains(im2, p))
if contains(im1, p) != contains(im2, p):
    failures.append("A and -A (equal as projective transformations) give different images of the arc")

# 3. an isometry produced by the library: origin_to() of a point whose
#    homogeneous coordinates have a negative time coordinate
T = H.Point(np.array([-1., -0.1, -0.2])).origin_to()
M = T.matrix
assert np.allclose(M @ J @ M.T, J), "origin_to() did not return an isometry"
image = T @ arc
print("origin_to(): M[0,0] = %.3f, det = %.3f" % (M[0, 0], np.linalg.det(M)))
print("T @ arc contains T @ inside:", contains(image, T @ inside),
      "| contains T @ outside:", contains(image, T @ outside))
if not contains(image, T @ inside) or contains(image, T @ outside):
    failures.append("T = Point([-1,-.1,-.2]).origin_to(): T @ arc does not contain T @ (point of arc)")

assert not failures, "; ".join(failures)
