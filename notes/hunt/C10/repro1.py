"""C10: initial_rejected_subword is documented to return None when the word is
accepted, but returns the word itself, so it disagrees with accepts()."""
from geometry_tools.automata import fsa

A = fsa.FSA({0: {"a": 1, "b": 0}, 1: {"a": 0}}, start_vertices=[0])
bad = []
for w in ["", "a", "b", "aa", "ba", "bab", "ab", "aab"]:
    acc = A.accepts(w)
    rej = A.initial_rejected_subword(w)
    print(f"word {w!r}: accepts={acc}  initial_rejected_subword={rej!r}")
    # docstring: "If the word is accepted, return None"; otherwise the shortest
    # rejected prefix (which is never accepted itself)
    if acc and rej is not None:
        bad.append((w, rej))
    if not acc:
        assert rej is not None and not A.accepts(rej) and A.accepts(rej[:-1])

B = fsa.load_builtin("cox334.wa")
print("cox334 'abc':", B.accepts("abc"), repr(B.initial_rejected_subword("abc")))
if B.accepts("abc") and B.initial_rejected_subword("abc") is not None:
    bad.append(("abc", B.initial_rejected_subword("abc")))

assert not bad, ("accepted words for which a 'rejected subword' was returned "
                 f"(the subword is itself accepted): {bad}")
