"""C10: start_vertices is stored by reference (and the constructor default is one
shared mutable list), so the results of the non-in-place operations share their
start list with the original / with every other automaton: setting the start
state of a result changes the language of the original."""
from geometry_tools.automata import fsa

problems = []
g = {0: {"a": 1}, 1: {"b": 1}}

# (a) rename_generators(inplace=False) / automaton_multiple share the list with the original
A = fsa.FSA(g, start_vertices=[0])
before = (A.accepts("ab"), list(A.enumerate_words(2)))
R = A.rename_generators({"a": "x", "b": "y"}, inplace=False)
M = A.even_automaton()
R.start_vertices[0] = 1          # re-root the *copy*
after = (A.accepts("ab"), list(A.enumerate_words(2)))
print("original before:", before, " after re-rooting the renamed copy:", after, " even copy start:", M.start_vertices)
if before != after:
    problems.append("re-rooting the automaton returned by rename_generators(inplace=False) "
                    "changed the language of the original (and of its even automaton)")

# (b) remove_long_paths returns an automaton whose start list is the constructor's default object
B = fsa.FSA(g)                   # no start state given: all queries take explicit roots
print("B.start_vertices initially:", B.start_vertices)
H0 = B.remove_long_paths(root=0)
H0.start_vertices.append(0)      # give the shortest-path version its root
H1 = B.remove_long_paths(root=1)
print("after H0.start_vertices.append(0): B.start_vertices =", B.start_vertices,
      " fresh H1.start_vertices =", H1.start_vertices,
      " FSA({}).start_vertices =", fsa.FSA({}).start_vertices)
if B.start_vertices != []:
    problems.append("remove_long_paths result shares start_vertices with the original "
                    "(and with every FSA built without start_vertices)")

for p in problems:
    print("VIOLATION:", p)
assert not problems, problems
