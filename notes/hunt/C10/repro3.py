"""C10: with the documented alternative input format (graph_dict=False) a
vertex that occurs only as an edge target is not registered as a vertex
(the default format registers such 'hidden' vertices).  accepts() says the
word leading there is accepted, the enumerators crash with KeyError, recurrent()
keeps a dead end and remove_long_paths() crashes."""
from geometry_tools.automata import fsa

G = fsa.FSA({0: {"a": 1}}, start_vertices=[0])                       # label -> target
H = fsa.FSA({0: {1: ["a"]}}, start_vertices=[0], graph_dict=False)   # target -> labels
print("graph format vertices:", sorted(G.vertices()), " alt format vertices:", sorted(H.vertices()))
problems = []
if set(G.vertices()) != set(H.vertices()):
    problems.append("the two documented input formats give different vertex sets")

print("accepts('a'):", G.accepts("a"), H.accepts("a"), " follow_word('a'):", G.follow_word("a"), H.follow_word("a"))
print("graph format enumerate_words(2):", list(G.enumerate_words(2)))
try:
    print("alt format enumerate_words(2):", list(H.enumerate_words(2)))
except KeyError as e:
    problems.append(f"enumerate_words(2) raises KeyError({e}) though accepts('a') is True")
try:
    print("alt enumerate from state 1:", list(H.enumerate_words(1, start_vertex=H.follow_word("a"))))
except KeyError as e:
    problems.append(f"enumerate_words from the state follow_word('a') raises KeyError({e})")

# recurrent: 1 is a forward dead end, so nothing should survive
H2 = fsa.FSA({0: {0: ["b"], 1: ["a"]}}, start_vertices=[0], graph_dict=False)
G2 = fsa.FSA({0: {"b": 0, "a": 1}}, start_vertices=[0])
print("recurrent edges, graph format:", list(G2.recurrent().edges(True)), " alt format:", list(H2.recurrent().edges(True)))
if set(H2.recurrent().edges(True)) != set(G2.recurrent().edges(True)):
    problems.append("recurrent() keeps the edge into the dead end 1 for the alt format")
try:
    H2.remove_long_paths()
except KeyError as e:
    problems.append(f"remove_long_paths() raises KeyError({e})")

for p in problems:
    print("VIOLATION:", p)
assert not problems, problems
