"""C10: recurrent() deletes the start state (it has no incoming edge in every
built-in word acceptor) but keeps it in start_vertices, so on the recurrent
version accepts / follow_word / enumerate_words disagree (and enumeration
crashes with KeyError)."""
from geometry_tools.automata import fsa

A = fsa.FSA({0: {"a": 1}, 1: {"a": 1, "b": 2}, 2: {"a": 1}}, start_vertices=[0])
R = A.recurrent()
print("recurrent vertices:", sorted(R.vertices()), " start_vertices:", R.start_vertices)
problems = []

end = R.follow_word("")
print("follow_word('') ->", end, " accepts('') ->", R.accepts(""))
if end not in R.vertices():
    problems.append(f"follow_word('') ends at state {end}, which is not a vertex of the automaton")

for name, call in [("enumerate_words(2)", lambda: list(R.enumerate_words(2))),
                   ("enumerate_fixed_length_paths(1)", lambda: list(R.enumerate_fixed_length_paths(1))),
                   ("automaton_multiple(2)", lambda: R.automaton_multiple(2)),
                   ("remove_long_paths()", lambda: R.remove_long_paths())]:
    try:
        print(name, "->", call())
    except KeyError as e:
        problems.append(f"{name} raises KeyError({e}) although accepts('') is {R.accepts('')}")

# the same on a built-in automaton
B = fsa.load_builtin("cox334.wa").recurrent()
print("cox334.wa recurrent: start", B.start_vertices, "in vertices:", B.start_vertices[0] in B.vertices())
try:
    ws = list(B.enumerate_words(1))
    print(ws)
except KeyError as e:
    problems.append(f"cox334.wa: recurrent().enumerate_words(1) raises KeyError({e})")

for p in problems:
    print("VIOLATION:", p)
assert not problems, problems
