"""C07: the even-length automaton does not 'accept' (FSA.accepts / follow_word) the very
words it enumerates: its edge labels are two-letter strings, but accepts() walks the word
one character at a time."""
from geometry_tools.coxeter import CoxeterGroup

G = CoxeterGroup(matrix=[[1, 3, 0], [3, 1, 4], [0, 4, 1]])
plain = G.automaton(shortlex=True)
even = G.automaton(shortlex=True, even_length=True)

L = 6
expected = sorted(w for w in plain.enumerate_words(L) if len(w) % 2 == 0)
enumerated = sorted(even.enumerate_words(L // 2))
print("enumerate_words agrees with the even-length accepted words:", enumerated == expected)

wrong = [w for w in expected if not even.accepts(w)]
print("accepted words of even length up to %d: %d; rejected by even.accepts(): %d, e.g. %s"
      % (L, len(expected), len(wrong), wrong[:5]))
assert enumerated == expected
assert not wrong, "even-length automaton rejects accepted even-length words such as %r" % wrong[0]
