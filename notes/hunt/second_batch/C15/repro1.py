"""C15: fixed_point(max_eigval=False) of an elliptic isometry returns a point
that is not fixed and lies outside the closed ball.

`max_eigval` is documented as: "If True, guarantee that the eigenvalue for this
fixed point has maximum modulus"; with False the method still promises
"A point (possibly ideal) fixed by this isometry object".
"""
import numpy as np
from geometry_tools.hyperbolic import Isometry, Model

def col(iso):
    # matrix acting on column vectors
    return iso.proj_data.swapaxes(-1, -2)

bad = 0
total = 0
for angle in (0.3, 1.0, 2.0, np.pi / 2, 2 * np.pi / 7, 4.0):
    for param in (1.5, 2.0, 0.25):
        rot = col(Isometry.standard_rotation(angle))
        conj = col(Isometry.standard_loxodromic(2, param))
        # also turn the conjugator a bit so the axis is not a coordinate axis
        turn = col(Isometry.standard_rotation(0.7))
        c = turn @ conj
        m = c @ rot @ np.linalg.inv(c)
        iso = Isometry(m, column_vectors=True)

        # the true fixed point: image of the origin under the conjugator
        truth = c @ np.array([1.0, 0.0, 0.0])
        truth_klein = truth[1:] / truth[0]

        for kwargs in ({}, {"max_eigval": False}):
            pt = iso.fixed_point(**kwargs)
            v = pt.proj_data
            klein = pt.coords(Model.KLEIN)
            image = m @ v
            # projective equality of v and m v
            cross = np.linalg.norm(np.cross(v, image)) / (
                np.linalg.norm(v) * np.linalg.norm(image))
            radius = np.linalg.norm(klein)
            ok = cross < 1e-8 and radius < 1 and np.allclose(klein, truth_klein)
            print("angle=%.4f param=%.2f %-22s klein=%s |klein|=%.4f "
                  "not-fixed-residual=%.2e %s" % (
                      angle, param, kwargs, np.round(klein, 4), radius, cross,
                      "ok" if ok else "VIOLATION"))
            total += 1
            bad += (not ok)

print("%d of %d reported fixed points are wrong" % (bad, total))
assert bad == 0, ("fixed_point(max_eigval=False) returned points which are not "
                  "fixed by the elliptic isometry / lie outside the closed ball")
