"""C15: for a loxodromic isometry whose (real) matrix is stored with a complex
dtype, fixed_point_pair() / fixed_point() / axis() do not put the attracting
endpoint first: the order of the two ideal endpoints is decided by rounding
noise of size 1e-16 in the imaginary parts of the eigenvalues.
"""
import numpy as np
from geometry_tools.hyperbolic import Isometry

def col(iso):
    return iso.proj_data.swapaxes(-1, -2)

def proj_close(v, w):
    v = v / np.linalg.norm(v)
    w = w / np.linalg.norm(w)
    return min(np.abs(v - w).max(), np.abs(v + w).max()) < 1e-7

total = wrong = 0
for dim in (2, 3):
    for k, (a1, a2, p1, length) in enumerate(
            (a1, a2, p1, length)
            for a1 in (0.37, 1.3, 2.9)
            for a2 in (0.81, 4.1)
            for p1 in (1.7, 0.45)
            for length in (0.5, 1.0, 2.0)):
        c = (col(Isometry.standard_rotation(a1, dimension=dim))
             @ col(Isometry.standard_loxodromic(dim, p1))
             @ col(Isometry.standard_rotation(a2, dimension=dim)))
        lox = col(Isometry.standard_loxodromic(dim, np.exp(length)))
        m = c @ lox @ np.linalg.inv(c)

        # ground truth: the attracting fixed point is the limit of m^k x
        x = np.zeros(dim + 1); x[0] = 1.0
        for _ in range(400):
            x = m @ x
            x /= np.linalg.norm(x)

        real_iso = Isometry(m, column_vectors=True)
        cplx_iso = real_iso.astype(complex)      # same isometry, complex dtype
        assert np.array_equal(np.asarray(cplx_iso.proj_data).real,
                              real_iso.proj_data)

        first_real = np.asarray(real_iso.fixed_point_pair().proj_data)[0]
        first_cplx = np.asarray(cplx_iso.fixed_point_pair().proj_data)[0]
        fp_cplx = np.asarray(cplx_iso.fixed_point().proj_data)
        assert proj_close(first_real, x), "real dtype is right"

        ok = proj_close(np.real(first_cplx), x) and proj_close(np.real(fp_cplx), x)
        total += 1
        wrong += (not ok)
        if not ok and wrong <= 5:
            print("H^%d, translation length %.1f: attracting endpoint %s, but "
                  "complex-dtype fixed_point_pair()[0] = %s (the repelling one)"
                  % (dim, length, np.round(x / x[0], 4),
                     np.round(np.real(first_cplx / first_cplx[0]), 4)))

print("%d of %d complex-dtype loxodromics list the repelling endpoint first"
      % (wrong, total))
assert wrong == 0, "attracting endpoint is not first for complex-dtype isometries"
