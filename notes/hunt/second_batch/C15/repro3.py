"""C15: Subspace.reflection_across() is not a reflection (not an isometry, not an
involution, does not fix the subspace, or crashes with a singular matrix) when
the ideal basis of the hyperplane is given by lightlike vectors of mixed sign
whose sum happens to be lightlike.  v and -v are the same ideal point, so these
are the very same hyperplanes for which the all-positive representatives work.
"""
import numpy as np
from geometry_tools.hyperbolic import Subspace, Hyperplane, minkowski

np.set_printoptions(precision=4, suppress=True, linewidth=120)

def report(basis):
    basis = np.array(basis, dtype=float)
    n = basis.shape[-1]
    J = minkowski(n)
    assert np.allclose(np.einsum("ki,ij,kj->k", basis, J, basis), 0), "ideal"
    try:
        M = Subspace(basis.copy()).reflection_across().proj_data
    except Exception as e:
        return "raised %r" % (e,)
    if not np.isfinite(M).all():
        return "non-finite matrix"
    errs = {
        "isometry": np.abs(M @ J @ M.T - J).max(),
        "involution": np.abs(M @ M - np.eye(n)).max(),
        "fixes basis": np.abs(basis @ M - basis).max(),
    }
    worst = max(errs.values())
    return "ok" if worst < 1e-8 else "NOT a reflection: %s" % (
        {k: float("%.3g" % v) for k, v in errs.items()},)

cases = {
    "plane x3=0 through the origin of H^3":
        [[1, 1, 0, 0], [1, -1, 0, 0], [1, 0, 1, 0]],
    "plane through e1,e2,e3 directions (not through the origin) of H^3":
        [[1, 1, 0, 0], [1, 0, 1, 0], [1, 0, 0, 1]],
    "hyperplane x4=0 of H^4":
        [[1, 1, 0, 0, 0], [1, -1, 0, 0, 0], [1, 0, 1, 0, 0], [1, 0, 0, 1, 0]],
}
signs = {
    "plane x3=0 through the origin of H^3": [-1, -1, 1],
    "plane through e1,e2,e3 directions (not through the origin) of H^3": [2, 2, -1],
    "hyperplane x4=0 of H^4": [1, -1, 1, 2],
}

violations = []
for name, basis in cases.items():
    basis = np.array(basis, dtype=float)
    scaled = basis * np.array(signs[name], dtype=float)[:, None]
    r_plain = report(basis)
    r_scaled = report(scaled)
    print(name)
    print("   positive representatives          :", r_plain)
    print("   rows rescaled by %-17s:" % (signs[name],), r_scaled)
    assert r_plain == "ok"
    if r_scaled != "ok":
        violations.append((name, r_scaled))

assert not violations, (
    "reflection_across() of a hyperplane given by rescaled ideal vectors is "
    "not a reflection: %s" % (violations,))
