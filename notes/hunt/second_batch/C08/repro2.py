"""C08: with generator_style='alphanum' (names s0, s1, ...) the representations
returned by CoxeterGroup cannot evaluate ANY word: the Representation is built
in single-character parsing mode, so rep['s0'] looks up the generator 's'."""
import numpy as np
from geometry_tools import coxeter

M = [[1, 3, 4], [3, 1, 7], [4, 7, 1]]

ref = coxeter.CoxeterGroup(matrix=M, generator_style="alpha")
G = coxeter.CoxeterGroup(matrix=M, generator_style="alphanum")
print("generators:", G.ordered_gens)

ref_rep = ref.geometric_representation()
print("alpha style: a is an involution:",
      np.allclose(ref_rep["a"] @ ref_rep["a"], np.eye(3)),
      "; (ab)^3 = I:", np.allclose(np.linalg.matrix_power(ref_rep["ab"], 3), np.eye(3)))

errors = []
for label, make in [
    ("geometric_representation()['s0']", lambda: G.geometric_representation()["s0"]),
    ("geometric_representation()['s0*s1']", lambda: G.geometric_representation()["s0*s1"]),
    ("geometric_representation(rename_generators=True)['a']",
     lambda: G.geometric_representation(rename_generators=True)["a"]),
    ("canonical_representation()['s0']", lambda: G.canonical_representation()["s0"]),
    ("hyperbolic_rep().isometries(['s0', 's0*s1'])",
     lambda: G.hyperbolic_rep().isometries(["s0", "s0*s1"])),
]:
    try:
        make()
        print(label, "-> ok")
    except Exception as e:
        print(label, "-> raised", repr(e))
        errors.append((label, repr(e)))

assert not errors, (
    "alphanum-named Coxeter group: generator images cannot be looked up: %r" % errors
)
s0 = G.geometric_representation()["s0"]
assert np.allclose(s0 @ s0, np.eye(3))
