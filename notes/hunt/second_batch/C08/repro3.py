"""C08: passing `like=` an integer numpy scalar / integer array (e.g. the Coxeter
matrix itself) makes bilinear_form truncate the cosine matrix to integers; the
'geometric representation' built from it silently violates the Coxeter relations.
(like=1, a Python int, gives the correct float result.)"""
import numpy as np
from geometry_tools import coxeter

G = coxeter.TriangleGroup((3, 4, 7))
B_ref = G.bilinear_form()
print("bilinear_form():\n", B_ref)
print("bilinear_form(like=1):\n", G.bilinear_form(like=1))

bad = []
for name, like in [("np.int64(1)", np.int64(1)),
                   ("G.coxeter_matrix", G.coxeter_matrix),
                   ("np.arange(3)", np.arange(3))]:
    B = G.bilinear_form(like=like)
    print(f"bilinear_form(like={name}):\n", B)
    rep = G.geometric_representation(like=like)
    for w, m in [("ab", 3), ("bc", 4), ("ca", 7)]:
        P = np.linalg.matrix_power(np.asarray(rep[w], dtype=float), m)
        ok = np.allclose(P, np.eye(3))
        print(f"  like={name}: ({w})^{m} == I ? {ok}")
        if not ok:
            bad.append((name, w, m))
    if not np.allclose(np.asarray(B, dtype=float), B_ref):
        bad.append((name, "form"))

assert not bad, "integer `like` gives a truncated form / broken relations: %r" % bad
