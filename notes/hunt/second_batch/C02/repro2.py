"""C02 in dimension 1: Hyperplane(normal).reflection_across() in H^1 is not an
isometry (the 'ideal basis' stored for the hyperplane is not orthogonal to the
normal, so inv(D) @ J @ D is not a reflection)."""
import numpy as np
from geometry_tools import hyperbolic
from geometry_tools.hyperbolic import Hyperplane, Point

J = np.diag([-1., 1.])
p = Point([0.3], model="klein")
q = Point([-0.5], model="klein")
bad = []
for normal in ([0., 1.], [0.3, 1.], [-0.5, 1.]):
    H = Hyperplane(np.array(normal))
    R = H.reflection_across()
    M = R.matrix
    defect = np.abs(M.T @ J @ M - J).max()
    d0 = p.distance(q)
    d1 = (R @ p).distance(R @ q)
    ip = (H.ideal_basis @ J @ H.spacelike_vector)
    print("normal", normal, "-> reflection matrix\n", M,
          "\n  |M^T J M - J| =", defect, " d(p,q) =", d0, " d(Rp,Rq) =", d1,
          "\n  <ideal basis, normal> =", ip,
          " image of p timelike:", bool(hyperbolic.timelike((R @ p).proj_data)))
    if defect > 1e-8 or abs(d0 - d1) > 1e-8:
        bad.append(normal)

# the same call is fine in H^2
R2 = Hyperplane(np.array([0.3, 1., 0.])).reflection_across().matrix
J3 = np.diag([-1., 1., 1.])
print("H^2 control defect:", np.abs(R2.T @ J3 @ R2 - J3).max())

assert not bad, "reflection across a hyperplane of H^1 does not preserve the form: %s" % bad
print("ok")
