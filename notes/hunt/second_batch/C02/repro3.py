"""C02: spacelike_to(v) / Hyperplane(v).reflection_across() are not isometries
for spacelike normals such as (1,1,1,1) in H^3, although NO vector of the SVD
kernel basis of the partial frame is lightlike: the indefinite Gram-Schmidt
step produces a lightlike vector only after projecting away the first kernel
vector."""
import numpy as np
from geometry_tools import hyperbolic, utils
from geometry_tools.hyperbolic import Hyperplane, Point, spacelike_to

J = np.diag([-1., 1., 1., 1.])
p = Point([0.3, 0.1, 0.2], model="klein")
q = Point([-0.2, 0.5, 0.0], model="klein")
bad = []
for normal in ([1., 1., 1., 1.], [1., 2., 1., 2.], [2., 2., 1., 1.], [1., 1., 2., 2.]):
    v = np.array(normal)
    unit = v / np.sqrt(v @ J @ v)
    K = utils.kernel(unit[None, :] @ J).T
    knorms = np.array([k @ J @ k for k in K])
    iso = spacelike_to(v.copy())
    M = iso.matrix
    defect_iso = np.abs(M.T @ J @ M - J).max()
    R = Hyperplane(v.copy()).reflection_across()
    N = R.matrix
    defect_refl = np.abs(N.T @ J @ N - J).max()
    d0 = p.distance(q)
    d1 = (R @ p).distance(R @ q)
    print("normal", normal,
          "\n  Minkowski norms of the SVD kernel basis:", np.round(knorms, 6),
          "(none lightlike)" if (np.abs(knorms) > 1e-3).all() else "(a lightlike one)",
          "\n  spacelike_to: |M^T J M - J| =", defect_iso,
          "\n  reflection_across: |M^T J M - J| =", defect_refl,
          " d(p,q) =", d0, " d(Rp,Rq) =", d1)
    if not defect_iso < 1e-6 or not defect_refl < 1e-6 or not abs(d0 - d1) < 1e-6:
        bad.append(normal)

assert not bad, "not isometries for the normals %s" % bad
print("ok")
