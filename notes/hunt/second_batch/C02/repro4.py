"""C02: timelike_to(v) has an explicit guard ("Cannot find isometry taking a
timelike vector to a non-timelike vector") but the guard lets lightlike
vectors, and spacelike vectors of small scale, through; the returned
'Isometry' then does not preserve the Minkowski form. Point.origin_to() of an
ideal point (a legal hyperbolic.Point) does the same without any guard."""
import numpy as np
from geometry_tools import hyperbolic
from geometry_tools.base import GeometryError
from geometry_tools.hyperbolic import timelike_to, Point, IdealPoint

J = np.diag([-1., 1., 1.])
p = Point([0.3, 0.1], model="klein")
q = Point([-0.2, 0.5], model="klein")
bad = []
cases = {
    "lightlike (1, .6, .8)": np.array([1., 0.6, 0.8]),
    "lightlike (1, 1, 0)": np.array([1., 1., 0.]),
    "spacelike 1e-5 * (0, 1, 0)": 1e-5 * np.array([0., 1., 0.]),
}
for label, v in cases.items():
    try:
        iso = timelike_to(v.copy())
    except GeometryError as e:
        print(label, ": rejected with GeometryError (fine)")
        continue
    M = iso.matrix
    defect = np.abs(M.T @ J @ M - J).max()
    d0 = p.distance(q)
    d1 = (iso @ p).distance(iso @ q)
    print(label, ": accepted; |M^T J M - J| =", defect,
          " d(p,q) =", d0, " d(gp,gq) =", d1)
    if not defect < 1e-6:
        bad.append(label)

iso = IdealPoint.from_angle(0.3).origin_to()
M = iso.matrix
defect = np.abs(M.T @ J @ M - J).max()
print("IdealPoint.from_angle(0.3).origin_to(): |M^T J M - J| =", defect)
if not defect < 1e-6:
    bad.append("IdealPoint.origin_to")

assert not bad, "non-isometries returned instead of an error for: %s" % bad
print("ok")
