"""C02: reflection_across() of a geodesic / segment lying on a diameter of the
disk (a geodesic through the origin of the Klein/Poincare model) is not an
isometry (or dies with LinAlgError) whenever the Klein midpoint of its ideal
endpoints comes out as round-off noise instead of an exact 0."""
import numpy as np
from geometry_tools import hyperbolic
from geometry_tools.hyperbolic import Isometry, Point, Segment

J = np.diag([-1., 1., 1.])

def form_defect(iso):
    M = iso.matrix
    return np.abs(M.T @ J @ M - J).max()

p = Point([0.3, 0.1], model="klein")
q = Point([-0.2, 0.5], model="klein")
failures = []

# (a) axis of a loxodromic whose axis is the diameter y = x
lox = Isometry.standard_loxodromic(2, 2.0)
rot = Isometry.standard_rotation(np.pi / 4)
axis = (rot @ lox @ rot.inv()).axis()
print("axis ideal endpoints (klein):\n", axis.ideal_basis_coords("klein"))
refl = axis.reflection_across()
d0 = p.distance(q)
d1 = (refl @ p).distance(refl @ q)
print("(a) reflection across the axis y=x: |M^T J M - J| =", form_defect(refl),
      " d(p,q) =", d0, " d(Rp,Rq) =", d1)
if form_defect(refl) > 1e-8 or abs(d0 - d1) > 1e-8:
    failures.append("(a)")

# (b) a segment on the same diameter, given by two interior points
seg = Segment(Point(0.7 * np.array([0.1, 0.1]), model="klein"),
              Point(-0.7 * np.array([0.3, 0.3]), model="klein"))
try:
    refl = seg.reflection_across()
    d1 = (refl @ p).distance(refl @ q)
    print("(b) reflection across segment (.07,.07)-(-.21,-.21): |M^T J M - J| =",
          form_defect(refl), " d(p,q) =", d0, " d(Rp,Rq) =", d1)
    if not form_defect(refl) < 1e-8 or not abs(d0 - d1) < 1e-8:
        failures.append("(b)")
except np.linalg.LinAlgError as e:
    print("(b) Segment on y=x: reflection_across() raised", repr(e))
    failures.append("(b)")

# (c) the axis of the standard loxodromic itself (the diameter y = 0)
try:
    refl = lox.axis().reflection_across()
    print("(c) reflection across the axis of standard_loxodromic: defect",
          form_defect(refl))
    if not form_defect(refl) < 1e-8:
        failures.append("(c)")
except np.linalg.LinAlgError as e:
    print("(c) standard_loxodromic(2, 2.).axis().reflection_across() raised",
          repr(e))
    failures.append("(c)")

assert not failures, "reflection across a diameter is not an isometry: %s" % failures
print("ok")
