"""C12 violation: matrices supplied as nested lists are rejected by entry points
that accept the same numbers as an ndarray.

projective.Transformation / hyperbolic.Isometry call proj_data.swapaxes(...)
on the raw argument when column_vectors=True (the row-vector branch goes
through np.array in ProjectiveObject.set and accepts lists).  The same
"attribute of the raw argument" pattern breaks projective.affine_linear_map
(linear_map.shape), Representation.__setitem__ (matrix.shape),
CoxeterGroup.cartan_representation(..., diagonalize=True) (cartan_matrix / 2)
and hyperbolic.timelike_to / spacelike_to.
"""
import numpy as np
from geometry_tools import hyperbolic, projective, representation, coxeter

M3 = [[5.0, 1.0, 0.0],
      [0.0, 1.0, 0.0],
      [0.0, 0.0, 1 / 5.0]]
M2 = [[2.0, 1.0], [1.0, 1.0]]
CARTAN = [[2., -1., 0.], [-1., 2., -2.], [0., -2., 2.]]

cases = {
    "projective.Transformation(M, column_vectors=True)":
        lambda pack: projective.Transformation(pack(M3), column_vectors=True).matrix,
    "hyperbolic.Isometry(M, column_vectors=True)":
        lambda pack: hyperbolic.Isometry(pack(np.identity(3).tolist()),
                                         column_vectors=True).matrix,
    "projective.affine_linear_map(M)":
        lambda pack: projective.affine_linear_map(pack(M2)).matrix,
    "Representation()['a'] = M":
        lambda pack: _rep(pack(M2)),
    "CoxeterGroup.cartan_representation(C, diagonalize=True)":
        lambda pack: coxeter.TriangleGroup((2, 3, 7)).cartan_representation(
            pack(CARTAN), diagonalize=True)["abc"],
    "hyperbolic.timelike_to(v)":
        lambda pack: hyperbolic.timelike_to(pack([2., 1., 0.])).matrix,
}


def _rep(m):
    rep = representation.Representation()
    rep["a"] = m
    return rep["aa"]


# control: the row-vector constructor takes both packagings
assert np.allclose(projective.Transformation(M3).matrix,
                   projective.Transformation(np.array(M3)).matrix)

failed = []
for name, f in cases.items():
    as_array = f(np.array)
    try:
        as_list = f(lambda x: x)          # the very same numbers, nested list
        same = np.allclose(as_list, as_array)
        print(f"{name}: list accepted, same result: {same}")
        if not same:
            failed.append(name)
    except Exception as e:
        print(f"{name}: ndarray works, nested list raises "
              f"{type(e).__name__}: {e}")
        failed.append(name)

assert not failed, f"nested-list packaging rejected by: {failed}"
print("ok")
