"""C12 violation: the ideal endpoints (and circle parameters) of a hyperbolic
Segment / Polygon edge depend on the homogeneous scale of the endpoints.

Segment._compute_aux_data parametrises the null vectors of span(p0, p1) as
mu*p0 + (1-mu)*p1 and divides by a = <p0-p1, p0-p1>.  That quantity is not
scale free: for every pair of points there are two positive factors s for
which p0 - s*p1 is lightlike, so a == 0 and the ideal endpoints become nan
(and are badly wrong for factors close to those).
"""
import warnings
import numpy as np
from geometry_tools import hyperbolic as H

warnings.simplefilter("ignore")

# two points of H^2: Klein coordinates (0, 0) and (0.5, 0)
p0 = np.array([1., 0., 0.])
p1 = np.array([1., .5, 0.])

ref = H.Segment(p0, p1)
ref_ideal = np.sort(ref.ideal_endpoint_coords(), axis=-2)
print("endpoints (klein)          :", ref.endpoint_coords("klein").tolist())
print("ideal endpoints, p1 * 1    :", ref_ideal.tolist())

# the same point, homogeneous coordinates multiplied by 2  (factor in [0.1, 10])
scaled = H.Segment(p0, 2 * p1)
print("endpoints (klein), p1 * 2  :", scaled.endpoint_coords("klein").tolist())
sc_ideal = np.sort(scaled.ideal_endpoint_coords(), axis=-2)
print("ideal endpoints, p1 * 2    :", sc_ideal.tolist())

# same thing through a Polygon given in projective coordinates
poly = H.Polygon(np.array([[1., 0, 0], [2., 1, 0], [2., 0, 1]]))
poly_ref = H.Polygon(np.array([[1., 0, 0], [1., .5, 0], [1., 0, .5]]))
print("polygon vertices agree     :",
      np.allclose(poly.coords("klein"), poly_ref.coords("klein")))
print("polygon edge ideal endpoints (scaled vertices):\n",
      poly.get_edges().ideal_endpoint_coords())

# generic floating point data: a factor near the bad one gives a wrong answer
q0 = np.array([1., 0.2, 0.1])
q1 = np.array([1., .5, -0.3])
m = np.diag([-1., 1, 1])
s_bad = np.roots([q1 @ m @ q1, -2 * q0 @ m @ q1, q0 @ m @ q0]).max()
g_ref = np.sort(H.Segment(q0, q1).ideal_endpoint_coords(), axis=-2)
g_bad = np.sort(H.Segment(q0, s_bad * q1).ideal_endpoint_coords(), axis=-2)
print("generic segment, factor", s_bad)
print("  ideal endpoints, factor 1     :", g_ref.tolist())
print("  ideal endpoints, factor s_bad :", g_bad.tolist())

assert np.allclose(scaled.endpoint_coords("klein"), ref.endpoint_coords("klein"))
assert np.isfinite(sc_ideal).all(), \
    "ideal endpoints of Segment((1,0,0), 2*(1,.5,0)) are nan"
assert np.allclose(sc_ideal, ref_ideal), "ideal endpoints changed under rescaling"
assert np.isfinite(poly.get_edges().ideal_endpoint_coords()).all()
assert np.allclose(g_bad, g_ref, atol=1e-6)
print("ok")
