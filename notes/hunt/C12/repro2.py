"""C12 violation: Point.origin_to / TangentVector.origin_to / isometry_to depend
on the SIGN of the homogeneous representative of the point.

origin_to normalises self.proj_data without choosing the upper sheet of the
hyperboloid, and make_orientation_preserving looks only at det(matrix).  For a
representative -p the first row of the isometry is -p/|p|; in O(2,1) the
matrix -I has determinant -1, so "det > 0" then selects the orientation
REVERSING isometry of H^2.  The constructed isometry is a different projective
map for p and for -p (also with force_oriented=False).
"""
import warnings
import numpy as np
from geometry_tools import hyperbolic as H

warnings.simplefilter("ignore")
np.set_printoptions(precision=5, suppress=True)


def proj_equal(A, B):
    A = A / np.linalg.norm(A)
    B = B / np.linalg.norm(B)
    return np.allclose(A, B, atol=1e-8) or np.allclose(A, -B, atol=1e-8)


def orientation(iso):
    """sign of the area of the image of a small positively oriented triangle"""
    tri = H.Point(np.array([[0., 0.], [.1, 0.], [0., .1]]), model="klein")
    a, b, c = (iso @ tri).coords("klein")
    u, v = b - a, c - a
    return np.sign(u[0] * v[1] - u[1] * v[0])


p = np.array([1., .3, .2])
test_pt = H.Point([0.3, 0.4], model="klein")

ref = H.Point(p.copy()).origin_to()
print("reference image of (0.3, 0.4):", (ref @ test_pt).coords("klein"))
failures = []
for s in [1., 2.5, 0.1, -1., -0.4, -10.]:
    pt = H.Point(s * p)
    assert np.allclose(pt.coords("klein"), p[1:] / p[0])   # same point of H^2
    for oriented in (True, False):
        iso = pt.origin_to(force_oriented=oriented)
        ref_o = H.Point(p.copy()).origin_to(force_oriented=oriented)
        same = proj_equal(iso.matrix, ref_o.matrix)
        print(f"factor {s:6.2f} force_oriented={oriented!s:5}: "
              f"image of (0.3,0.4) = {(iso @ test_pt).coords('klein')}, "
              f"same projective map: {same}, orientation sign: {orientation(iso):+.0f}")
        if not same:
            failures.append((s, oriented))

# consequence: the isometry between two tangent vectors
q = np.array([1., -.4, .5])
base = H.TangentVector.get_base_tangent(2)
t_pos = H.Point(p.copy()).unit_tangent_towards(H.Point(q.copy()))
t_neg = H.Point(-p).unit_tangent_towards(H.Point(q.copy()))
print("same geodesic ray:",
      np.allclose(t_pos.point_along(0.7).coords("klein"),
                  t_neg.point_along(0.7).coords("klein")))
im_pos = (base.isometry_to(t_pos) @ test_pt).coords("klein")
im_neg = (base.isometry_to(t_neg) @ test_pt).coords("klein")
print("base.isometry_to(t) @ (0.3,0.4), representative  p:", im_pos)
print("base.isometry_to(t) @ (0.3,0.4), representative -p:", im_neg)

assert orientation(H.Point(-p).origin_to(force_oriented=True)) > 0, \
    "origin_to(force_oriented=True) reverses the orientation of H^2 for the representative -p"
assert not failures, f"origin_to is a different projective map for factors {failures}"
assert np.allclose(im_pos, im_neg)
print("ok")
