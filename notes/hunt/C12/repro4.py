"""C12 violation: an angle supplied as an unsigned NumPy integer scalar gives an
INTEGER (truncated, singular) rotation instead of a floating-point one.

utils.check_type(..., integer_type=False) promotes integer dtypes with
`np.can_cast(dtype, int)`; uint64 cannot be cast safely to int64, so the
'like' dtype uint64 survives and array_like / zeros / identity build uint64
arrays into which cos / sin are truncated.  (Also: int8 / uint8 angles are
passed unconverted to np.cos / np.sin, which then compute in float16, so the
"float64" matrix is only accurate to 3 digits; float16 / longdouble 'like'
values give matrices that the library's own inverse rejects.)
"""
import numpy as np
from geometry_tools import utils, hyperbolic

np.set_printoptions(precision=5, suppress=True)

ref_rot = utils.rotation_matrix(1)
ref_iso = hyperbolic.Isometry.standard_rotation(1).matrix
ref_pt = hyperbolic.IdealPoint.from_angle(1).coords("klein")
print("rotation_matrix(1) =\n", ref_rot)

bad = []
for pack in [int, float, np.int64, np.int32, np.int8, np.uint8, np.uint16, np.uint32,
             np.uint64, np.uintp, lambda x: np.array(x, dtype=np.uint64)]:
    angle = pack(1)
    label = f"{type(angle).__name__}({getattr(angle, 'dtype', '')})"
    rot = utils.rotation_matrix(angle)
    iso = hyperbolic.Isometry.standard_rotation(angle)
    pt = hyperbolic.IdealPoint.from_angle(angle)
    ok = (np.allclose(rot, ref_rot) and np.allclose(iso.matrix, ref_iso)
          and np.allclose(pt.coords("klein"), ref_pt)
          and rot.dtype.kind == "f" and iso.matrix.dtype.kind == "f")
    try:
        iso.inv()
        inv = "ok"
    except Exception as e:
        inv = f"{type(e).__name__}: {e}"
        ok = False
    err = np.abs(rot.astype(float) - ref_rot).max()
    print(f"{label:18s} rotation dtype={rot.dtype}, max error {err:.1e}, equal to reference: {ok}, "
          f"standard_rotation(angle).inv(): {inv}")
    if not ok:
        bad.append(label)

print("rotation_matrix(np.uint64(1)) =\n", utils.rotation_matrix(np.uint64(1)))
print("IdealPoint.from_angle(np.uint64(1)).proj_data =",
      hyperbolic.IdealPoint.from_angle(np.uint64(1)).proj_data)
print("utils.zeros(2, like=np.uint64(1), integer_type=False).dtype =",
      utils.zeros(2, like=np.uint64(1), integer_type=False).dtype)

# secondary: low / extended precision float scalars
for pack in [np.float16, np.longdouble]:
    iso = hyperbolic.Isometry.standard_rotation(pack(0.7))
    try:
        iso.inv()
        print(pack.__name__, "inverse ok")
    except Exception as e:
        print(f"standard_rotation({pack.__name__}(0.7)).inv() raises "
              f"{type(e).__name__}: {e}")

assert not bad, f"packagings of the angle 1 giving a different / non-float result: {bad}"
print("ok")
