"""C06: reuse of a caller-supplied memo dictionary across calls of
Representation.automaton_accepted gives wrong words / matrices as soon as the
second call differs in an option (end_state instead of start state, maxlen,
with_words), because the memo key is only (length, state)."""
import numpy as np
from geometry_tools import representation
from geometry_tools.automata import fsa

rep = representation.Representation()
rep["a"] = np.array([[2.0, 1.0], [0.0, 1.0]])
rep["b"] = np.array([[1.0, 0.0], [3.0, 1.0]])

# deterministic automaton, 2 states, start state 0:  0 -a-> 1,  1 -b-> 1
aut = fsa.FSA({0: {"a": 1}, 1: {"b": 1}}, start_vertices=[0])

# ---- (i) words FROM state 1, then (same memo) words ENDING at state 1 ------------
memo = {}
_, from1 = rep.automaton_accepted(aut, 2, maxlen=False, with_words=True,
                                  start_state=1, precomputed=memo)
print("length-2 words read from state 1           :", from1)
assert from1 == ["bb"]

mats, to1 = rep.automaton_accepted(aut, 2, maxlen=False, with_words=True,
                                   end_state=1, precomputed=memo)
_, to1_fresh = rep.automaton_accepted(aut, 2, maxlen=False, with_words=True,
                                      end_state=1)
reference = [w for w, s in aut.enumerate_fixed_length_paths(2, with_states=True)
             if s == 1]
print("accepted length-2 words ending at state 1  :", reference, "(FSA), ",
      to1_fresh, "(fresh memo)")
print("same call with the reused memo             :", to1)
ok_direction = sorted(to1) == sorted(reference)

# ---- (ii) maxlen=True, then (same memo) maxlen=False ---------------------------
memo = {}
rep.automaton_accepted(aut, 2, maxlen=True, precomputed=memo)
mats = rep.automaton_accepted(aut, 2, maxlen=False, precomputed=memo)
exact = list(aut.enumerate_fixed_length_paths(2))
print("words of length exactly 2 (FSA)            :", exact)
print("matrices returned for maxlen=False, reused memo:", len(mats),
      "(expected", len(exact), ")")
ok_maxlen = (len(mats) == len(exact)
             and np.allclose(mats, rep.elements(exact)))

# ---- (iii) with_words=False, then (same memo) with_words=True -------------------
memo = {}
rep.automaton_accepted(aut, 2, precomputed=memo)
try:
    res = rep.automaton_accepted(aut, 2, with_words=True, precomputed=memo)
    ok_words = isinstance(res, tuple) and len(res) == 2 and isinstance(res[1], list)
    print("with_words=True after with_words=False on one memo returns a",
          type(res).__name__)
except Exception as e:
    ok_words = False
    print("with_words=True after with_words=False on one memo raises",
          type(e).__name__, ":", e)

assert ok_direction, "memo reuse: end_state call returned the words of the start_state call"
assert ok_maxlen, "memo reuse: maxlen=False call returned the maxlen=True result"
assert ok_words, "memo reuse: with_words=True call returned a bare array"
print("OK")
