"""C06: an automaton given in the documented neighbour -> [labels] form
(graph_dict=False) whose target state has no row of its own (a state without
outgoing edges) cannot be enumerated: automaton_accepted and the automaton's
own enumerate_words raise KeyError, while the same automaton in the
label -> neighbour form works."""
import numpy as np
from geometry_tools import representation
from geometry_tools.automata import fsa

rep = representation.Representation()
rep["a"] = np.array([[2.0, 1.0], [0.0, 1.0]])
rep["b"] = np.array([[1.0, 0.0], [3.0, 1.0]])

# the same deterministic automaton in both documented forms:
#   0 -b-> 0,  0 -a-> 1,  state 1 has no outgoing edge
by_label = fsa.FSA({0: {"a": 1, "b": 0}}, start_vertices=[0])
by_neighbour = fsa.FSA({0: {1: ["a"], 0: ["b"]}}, start_vertices=[0],
                       graph_dict=False)

_, expected = rep.automaton_accepted(by_label, 2, with_words=True)
print("label -> neighbour form, words up to length 2:", expected)
assert sorted(expected) == sorted(by_label.enumerate_words(2))

print("vertices of the neighbour -> labels form:", list(by_neighbour.vertices()),
      "(state 1 is missing)")
try:
    mats, words = rep.automaton_accepted(by_neighbour, 2, with_words=True)
    print("neighbour -> labels form:", words)
    ref = list(by_neighbour.enumerate_words(2))
except KeyError as e:
    raise AssertionError(
        "enumeration of the neighbour -> labels automaton raised KeyError(%s)" % e)
assert sorted(words) == sorted(expected) == sorted(ref)
assert np.allclose(mats, rep.elements(words))
print("OK")
