"""C06: Representation.free_words_less_than(n) is documented to yield all
freely reduced words 'up to length n (inclusive)', but it stops at length n-1,
so it disagrees with freely_reduced_elements(n) / the free automaton."""
import numpy as np
from geometry_tools import representation
from geometry_tools.automata import fsa

rep = representation.Representation()
rep["a"] = np.array([[2.0, 1.0], [0.0, 1.0]])
rep["b"] = np.array([[1.0, 0.0], [3.0, 1.0]])

n = 2
_, by_automaton = rep.freely_reduced_elements(n, with_words=True)
by_fsa = list(fsa.free_automaton(["a", "b"]).enumerate_words(n))
listed = list(rep.free_words_less_than(n))
print(representation.Representation.free_words_less_than.__doc__.split("Yields")[1])
print("freely reduced words of length <= %d (free automaton): %d" % (n, len(by_fsa)))
print("freely_reduced_elements(%d, with_words=True)         : %d" % (n, len(by_automaton)))
print("free_words_less_than(%d)                             : %d %s"
      % (n, len(listed), listed))
assert sorted(by_automaton) == sorted(by_fsa)
assert sorted(listed) == sorted(by_fsa), \
    "free_words_less_than(%d) misses the %d words of length %d" % (
        n, len(by_fsa) - len(listed), n)
print("OK")
