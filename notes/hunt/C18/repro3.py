"""C18: orthogonalising rows w.r.t. a non-degenerate symmetric form returns
orthonormal rows spanning the same flag -- also for integer data.
indefinite_orthogonalize works IN PLACE on views of its argument
(`row = matrices[..., i, :]; row -= projection(...)`), so a 2-d integer array
raises a casting error, a read-only array raises, and a float array passed by
the caller is silently overwritten (also through find_isometry)."""
import numpy as np
from geometry_tools import utils

form = utils.indefinite_form(1, 2)              # diag(-1, 1, 1)

def check(rows_in, rows_out):
    G = rows_out @ form @ rows_out.T
    assert np.allclose(np.abs(G), np.eye(len(rows_out))), "rows not orthonormal (+-1)"
    for j in range(1, len(rows_in) + 1):
        assert np.linalg.matrix_rank(np.vstack([rows_in[:j], rows_out[:j]]), tol=1e-9) == j, \
            "flag not preserved"

# float input: correct result ...
M = np.array([[2., 1., 0.], [1., 0., 3.]])
M_before = M.copy()
R = utils.indefinite_orthogonalize(form, M)
check(M_before, R)
print("float rows: result is correct")
mutated = not np.array_equal(M, M_before)
print("... but the caller's array was overwritten:", mutated)
print(M)

# the same rows as integers
Mi = np.array([[2, 1, 0], [1, 0, 3]])
err = None
try:
    Ri = utils.indefinite_orthogonalize(form, Mi)
    check(M_before, Ri)
    print("integer rows: ok")
except Exception as e:                            # noqa
    err = e
    print("integer rows raised:", repr(e))

# frame completion hits the same path
err2 = None
try:
    iso = utils.find_isometry(form, np.array([[2, 1, 0], [1, 2, 0]]))
    print("find_isometry on integer frame: shape", iso.shape)
except Exception as e:                            # noqa
    err2 = e
    print("find_isometry on integer frame raised:", repr(e))

assert err is None, "indefinite_orthogonalize fails on integer rows"
assert err2 is None, "find_isometry fails on an integer partial frame"
assert not mutated, "indefinite_orthogonalize overwrote its input"
