"""C18 holds for all batch shapes.  With an EMPTY batch axis the other helpers
(indefinite_orthogonalize, diagonalize_form, sphere_through, ...) return empty
results of the right shape, but the SVD kernel -- and with it
orthogonal_complement and find_isometry -- raises IndexError, because the
common kernel dimension is read from kernel_dims.flatten()[0]."""
import numpy as np
from geometry_tools import utils

form = utils.indefinite_form(1, 2)
frames = np.zeros((0, 1, 3))          # an empty collection of 1-row partial frames in R^3

print("indefinite_orthogonalize:", utils.indefinite_orthogonalize(form, frames.copy()).shape)
print("diagonalize_form        :", utils.diagonalize_form(np.zeros((0, 3, 3)))[0].shape)

errors = {}
for name, call, expected in [
    ("kernel", lambda: utils.kernel(frames), (0, 3, 2)),
    ("orthogonal_complement", lambda: utils.orthogonal_complement(frames.copy(), form), (0, 2, 3)),
    ("find_isometry", lambda: utils.find_isometry(form, frames.copy()), (0, 3, 3)),
]:
    try:
        out = call()
        print(f"{name}: shape {out.shape} (expected {expected})")
        if out.shape != expected:
            errors[name] = f"shape {out.shape}"
    except Exception as e:            # noqa
        print(f"{name} raised {e!r} (expected an empty result of shape {expected})")
        errors[name] = e

assert not errors, f"empty batch not handled by: {sorted(errors)}"
