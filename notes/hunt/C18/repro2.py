"""C18: completing a partial frame returns a form-preserving matrix whose
LEADING ROWS span the given flag, for all batch shapes.
find_definite_isometry (the Euclidean-form completion) (a) puts the flag in
the leading COLUMNS of the result, not the rows its docstring promises, and
(b) cannot be called on a batch of partial frames at all."""
import numpy as np
from geometry_tools import utils

def flag_ok(vectors, frame):
    # span(frame[:j]) == span(vectors[:j]) for every j
    return all(np.linalg.matrix_rank(np.vstack([vectors[:j], frame[:j]]), tol=1e-9) == j
               for j in range(1, len(frame) + 1))

partial = np.array([[1., 2., 0., 1.],
                    [0., 1., 1., 3.]])        # k = 2 rows in R^4
iso = utils.find_definite_isometry(partial)
print("orthogonal:", np.allclose(iso @ iso.T, np.eye(4)))
rows_ok = flag_ok(iso, partial)
cols_ok = flag_ok(iso.T, partial)
print("leading rows span the flag   :", rows_ok)
print("leading columns span the flag:", cols_ok)

batch_err = None
try:
    batch = np.stack([partial, partial[:, ::-1]])      # shape (2, 2, 4)
    out = utils.find_definite_isometry(batch)
    print("batched result shape:", out.shape)
    batch_ok = (out.shape == (2, 4, 4)
                and np.allclose(out @ out.swapaxes(-1, -2), np.eye(4)))
except Exception as e:                                 # noqa
    batch_err = e
    batch_ok = False
    print("batched call raised:", repr(e))

# indefinite counterpart for comparison: rows, and batches work
ref = utils.find_isometry(np.identity(4), partial.copy())
print("find_isometry(identity form): leading rows span the flag:", flag_ok(ref, partial))

assert rows_ok, "leading rows of find_definite_isometry do not span the given flag"
assert batch_ok, "find_definite_isometry fails on a batch of partial frames"
