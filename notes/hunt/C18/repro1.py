"""C18: a kernel basis must have the right dimension; completing a frame must
return an n x n form-preserving matrix.  When the kernel is trivial (matrix of
full column rank) svd_kernel slices v[..., -0:, :] == v[..., 0:, :] and returns
ALL right-singular vectors instead of none."""
import numpy as np
from geometry_tools import utils

A = np.array([[2., 1., 0.],
              [0., 1., 0.],
              [1., 0., 3.]])          # invertible: kernel is {0}
K = utils.kernel(A)
print("kernel(invertible 3x3).shape =", K.shape, "(expected (3, 0))")
print("max |A @ K| =", np.abs(A @ K).max() if K.size else 0.0)

T = np.array([[1., 0.], [0., 1.], [1., 1.]])   # tall, full column rank
print("kernel(tall 3x2).shape =", utils.kernel(T).shape, "(expected (2, 0))")

form = utils.indefinite_form(1, 2)             # diag(-1, 1, 1)
frame = np.array([[2., 1., 0.],
                  [1., 2., 0.],
                  [0., 0., 1.]])               # a complete flag (k = n)
iso = utils.find_isometry(form, frame.copy())
print("find_isometry(form, complete frame).shape =", iso.shape, "(expected (3, 3))")

comp = utils.orthogonal_complement(frame.copy(), form)
print("orthogonal_complement(complete frame).shape =", comp.shape, "(expected (0, 3))")

assert K.shape == (3, 0) and np.allclose(A @ K, 0), \
    "kernel of an invertible matrix is not empty / not annihilated"
assert iso.shape == (3, 3), "completing a complete frame does not give an n x n matrix"
assert comp.shape == (0, 3)
