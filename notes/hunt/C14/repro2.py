"""C14: for a short segment in the middle of the disc the reported ideal
endpoints are visibly not lightlike and far from the true ideal endpoints
of the line through the two points (error ~ 1e-16 / |p1 - p2|^2), because
Segment._compute_aux_data forms a = <p1-p2, p1-p2> as a11 - 2*a12 + a22
(three numbers of size 1 that cancel to ~|p1-p2|^2).  Computing a from the
difference vector gives the endpoints to ~1e-16 / |p1 - p2|."""
import numpy as np
from geometry_tools import hyperbolic as H
from geometry_tools.hyperbolic import Model

np.seterr(all="ignore")

def mink(v, w=None):
    w = v if w is None else w
    return -v[..., 0] * w[..., 0] + (v[..., 1:] * w[..., 1:]).sum(-1)

def stable_ideal(k):
    """ideal endpoints (Klein) of the line through the two Klein points k[0], k[1]"""
    p = np.concatenate([np.ones((2, 1)), k], axis=-1)
    d = p[0] - p[1]
    a, b, c = mink(d), 2 * mink(d, p[1]), mink(p[1])
    mus = np.array([(-b + np.sqrt(b * b - 4 * a * c)) / (2 * a),
                    (-b - np.sqrt(b * b - 4 * a * c)) / (2 * a)])
    null = p[1] + mus[:, None] * d
    return null[:, 1:] / null[:, :1]

worst = 0
for eps in (1e-5, 1e-6, 1e-7):
    k = np.array([[0.5, 0.3], [0.5 + 0.6 * eps, 0.3 - 0.8 * eps]])   # Klein distance eps
    seg = H.Segment(H.Point(k, model="klein"))
    ideal = seg.ideal_basis
    light = np.abs(mink(ideal)) / (ideal ** 2).sum(-1)      # 0 for a lightlike vector
    got = seg.ideal_endpoint_coords(Model.KLEIN)
    ref = stable_ideal(k)
    err = min(np.abs(got - ref).max(), np.abs(got - ref[::-1]).max())
    refnorm = np.abs((ref ** 2).sum(-1) - 1).max()
    c, r = seg.sphere_parameters(Model.POINCARE)
    e = seg.endpoint_coords(Model.POINCARE)
    off = np.abs(np.linalg.norm(e - c, axis=-1) - r).max()
    print(f"|p1-p2| = {eps:g}: <i,i>/|i|^2 = {light.max():.2e}, "
          f"distance of the reported ideal endpoints from the line's true ones = {err:.2e} "
          f"(stable formula: | |i|^2 - 1 | = {refnorm:.1e}), endpoints off the Poincare circle by {off:.2e}")
    worst = max(worst, light.max(), err)

assert worst < 1e-6, f"ideal endpoints of a short segment are wrong by {worst:.2e}"
