"""C14: Subspace.boundary_sphere_parameters is documented to return the
(k-1)-sphere in R^(n-1) bounding a k-dimensional subspace of H^n, but it
only works for hyperplanes (k = n-1): for a geodesic in H^3 or H^4, or a
plane in H^4, it raises GeometryError instead of reporting the sphere
through the subspace's ideal points (which sphere_parameters(HALFSPACE)
does find for the same objects)."""
import numpy as np
from geometry_tools import hyperbolic as H
from geometry_tools.hyperbolic import Model
from geometry_tools.base import GeometryError

rng = np.random.default_rng(0)
failures = []
for n in (2, 3, 4):
    for k in range(1, n):            # hyperbolic dimension of the subspace
        v = rng.normal(size=(k + 1, n))
        v /= np.linalg.norm(v, axis=-1, keepdims=True)
        v[:, 0] = -np.abs(v[:, 0])   # stay away from the point at infinity (1, 0, ..)
        v /= np.linalg.norm(v, axis=-1, keepdims=True)
        ideal = np.concatenate([np.ones((k + 1, 1)), v], axis=-1)
        sub = H.Geodesic(ideal) if k == 1 else H.Subspace(ideal)
        pts = sub.ideal_basis_coords(Model.HALFSPACE)[..., :-1]      # ideal points in R^(n-1)
        c_half, r_half = sub.sphere_parameters(Model.HALFSPACE)
        try:
            c, r = sub.boundary_sphere_parameters()
        except GeometryError as e:
            print(f"H^{n}, {type(sub).__name__} of dimension {k}: boundary_sphere_parameters raises: {e}")
            print(f"      (half-space sphere of the same subspace: centre {c_half}, radius {r_half:.6f})")
            failures.append((n, k))
            continue
        d = np.linalg.norm(pts - c, axis=-1)
        print(f"H^{n}, dimension {k}: centre {c}, radius {r:.6f}, distances of ideal points {d}")
        assert np.allclose(d, r)

assert not failures, f"no boundary sphere reported for (n, k) in {failures}"
