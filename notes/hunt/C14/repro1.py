"""C14: the ideal endpoints of a Segment are nan when the two endpoint
representatives differ by a lightlike vector.  Segment._compute_aux_data
parametrises the span as mu*p1 + (1-mu)*p2 and divides by
a = <p1 - p2, p1 - p2>, which is 0 for such representatives, although the
two points are distinct, span a perfectly good geodesic and are nowhere
near a diameter or the half-plane point at infinity."""
import numpy as np
from geometry_tools import hyperbolic as H
from geometry_tools.hyperbolic import Model

np.seterr(all="ignore")

def mink(v):
    return -v[..., 0] ** 2 + (v[..., 1:] ** 2).sum(-1)

# an interior point in hyperboloid coordinates and an ideal point
p = H.Point([1.5, 0.5, 1.0], model="hyperboloid")   # -1.5^2 + .5^2 + 1^2 = -1
q = H.IdealPoint.from_angle(np.pi / 2)              # (1, 0, 1)
print("Klein coordinates of the endpoints:", p.coords("klein"), q.coords("klein"))

seg = H.Segment(p, q)
ideal = seg.ideal_basis
print("ideal endpoints (projective):\n", ideal)
print("Klein coords of ideal endpoints:\n", seg.ideal_endpoint_coords(Model.KLEIN))
for model in (Model.POINCARE, Model.HALFSPACE):
    print(model, "centre, radius, angles:", seg.circle_parameters(model=model))

# the same hyperbolic segment from other representatives is fine
ok = H.Segment(H.Point(p.coords("klein"), model="klein"), q)
print("same segment built from Klein coordinates, ideal endpoints (Klein):\n",
      ok.ideal_endpoint_coords(Model.KLEIN))   # (1, 0) and (0, 1)
print("   its Poincare circle:", ok.circle_parameters(model=Model.POINCARE))

# second instance, two interior points as plain projective data:
# Klein (0, 0.5) and Klein (0.5, 0.25); the difference (-1, -1, 0) is lightlike
seg3 = H.Segment(np.array([[1.0, 0.0, 0.5], [2.0, 1.0, 0.5]]))
print("Segment([[1,0,.5],[2,1,.5]]) ideal endpoints:\n", seg3.ideal_basis)

assert np.isfinite(ideal).all(), "ideal endpoints of the segment are not finite"
assert np.allclose(mink(ideal), 0, atol=1e-9), "ideal endpoints are not lightlike"
c, r, th = seg.circle_parameters(model=Model.POINCARE)
assert np.isfinite(r) and np.isfinite(th).all()
