"""C05: the empty word maps to the identity; images of concatenations are products.

For a representation with multi-character generator names (parse_simple=False) words
are written with the reserved characters '*', '(' and ')'.  The empty word and words
written with parentheses, '(a1)(b1)', cannot be evaluated at all: parse_word produces
empty tokens and _word_value looks up the generator ''.
"""
import numpy as np
from geometry_tools import representation

A = np.array([[2.0, 1.0], [1.0, 1.0]])
B = np.array([[1.0, 0.0], [3.0, 1.0]])

rep = representation.Representation(parse_simple=False)
rep["a1"] = A
rep["b1"] = B
assert np.allclose(rep.element("a1*b1", parse_simple=False), A @ B)
print("'a1*b1' -> A @ B: ok")

problems = []
for word, expected in [("", np.eye(2)),
                       ("(a1)(b1)", A @ B),
                       ("(a1)*(B1)", A @ np.linalg.inv(B)),
                       ("a1*b1*", A @ B)]:
    try:
        value = rep.element(word, parse_simple=False)
        ok = np.allclose(value, expected)
        print(repr(word), "->", "ok" if ok else "WRONG VALUE")
        if not ok:
            problems.append(word)
    except Exception as e:
        print(repr(word), "-> raises", type(e).__name__, e,
              "  (tokens:", rep.parse_word(word, simple=False), ")")
        problems.append(word)

# consequences: words of a list containing the empty word, subgroup on the trivial word
try:
    rep.subgroup({"x": ""})
    print("subgroup on the empty word: ok")
except Exception as e:
    print("subgroup({'x': ''}) raises", type(e).__name__, e)
    problems.append("subgroup")

assert not problems, "words not evaluated for multi-character generator names: %r" % problems
