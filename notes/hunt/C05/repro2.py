"""C05: Fox-calculus fundamental formula  rho(w) - I = sum_g D_g(w) (rho(g) - I).

Representation.differential(w) is the block row [D_g(w)]_g and
Representation.coboundary_matrix() the block column [I - rho(g)]_g, so
differential(w) @ coboundary_matrix() must equal I - rho(w).

With single-character generator names this holds.  With multi-character generator
names (parse_simple=False, words written 'a1*b1') the differential is silently the
zero matrix, and the cocycle matrix of a relation that does NOT hold still
annihilates the coboundary matrix.
"""
import numpy as np
from geometry_tools import representation

A = np.array([[2.0, 1.0], [1.0, 1.0]])
B = np.array([[1.0, 0.0], [3.0, 1.0]])
I = np.eye(2)

# reference: single-character names
rep1 = representation.Representation()
rep1["a"] = A
rep1["b"] = B
lhs1 = rep1.differential("ab") @ rep1.coboundary_matrix()
print("single-character names: D('ab') @ coboundary == I - rho('ab'):",
      np.allclose(lhs1, I - A @ B))
assert np.allclose(lhs1, I - A @ B)

# the same representation with multi-character generator names
rep2 = representation.Representation(parse_simple=False)
rep2["a1"] = A
rep2["b1"] = B
word = "a1*b1"
image = rep2.element(word, parse_simple=False)
assert np.allclose(image, A @ B)

D = rep2.differential(word)
print("multi-character names: differential('a1*b1') =\n", D)
lhs2 = D @ rep2.coboundary_matrix()
print("D @ coboundary =\n", lhs2)
print("I - rho(w)     =\n", I - image)
assert np.allclose(lhs2, I - image), \
    "fundamental formula of Fox calculus fails for multi-character generator names (differential is identically zero)"
