"""C05: change of dtype (Representation.astype) of an exact integer representation.

The generators are exact integer matrices of determinant 1 (elements of SL(n, Z)).
After rep.astype('int64') the representation must still be a word homomorphism:
the inverse letter maps to the inverse matrix and rep['aA'] is the identity.
"""
import numpy as np
from geometry_tools import representation

cases = [
    np.array([[3, 2], [1, 1]]),
    np.array([[3, 1], [2, 1]]),
    np.array([[7, 3], [2, 1]]),
    np.array([[3, -2, 2], [0, 1, 0], [1, 0, 1]]),
]

failures = 0
for M in cases:
    assert round(np.linalg.det(M)) == 1
    exact_inverse = np.rint(np.linalg.inv(M)).astype('int64')
    assert np.array_equal(M @ exact_inverse, np.eye(len(M), dtype=int))

    rep = representation.Representation()
    rep["a"] = M
    # the float representation is fine
    assert np.allclose(rep["aA"], np.eye(len(M)))

    irep = rep.astype('int64')
    print("generator a =", M.tolist())
    print("  astype('int64') image of 'A' :", irep["A"].tolist(),
          " exact inverse:", exact_inverse.tolist())
    print("  astype('int64') image of 'aA':", irep["aA"].tolist())
    if not (np.array_equal(irep["A"], exact_inverse)
            and np.array_equal(irep["aA"], np.eye(len(M), dtype=int))):
        failures += 1

print("integer representations broken by astype('int64'):", failures, "of", len(cases))
assert failures == 0, "astype('int64') representation is not a homomorphism: image of 'A' is not the inverse of the image of 'a'"
