"""C05: the tensor product / symmetric square send each word to the corresponding
function (Kronecker product, Sym^2) of the original image.

tensor_product reads the generator images with self[gen] (wrapped, and parsed character
by character) instead of self.generators[gen].  So
 (1) with multi-character generator names the image is either wrong (name 'ab' next to
     'a' and 'b': the product a@b is used instead of the matrix of 'ab') or a KeyError,
 (2) for a projective / hyperbolic wrapped representation it raises a TypeError.
"""
import numpy as np
from geometry_tools import representation, projective

A = np.array([[2.0, 1.0], [1.0, 1.0]])
B = np.array([[1.0, 0.0], [3.0, 1.0]])
C = np.array([[1.0, 2.0], [0.0, 1.0]])

problems = []

# (1) generators named 'a', 'b' and 'ab' (a legal multi-character name)
rep = representation.Representation(parse_simple=False)
rep["a"] = A
rep["b"] = B
rep["ab"] = C
assert np.allclose(rep.element("ab", parse_simple=False), C)
tens = rep.tensor_product(rep)
got = tens.generators["ab"]
print("tensor square, generator 'ab': equals kron(C, C):", np.allclose(got, np.kron(C, C)),
      "| equals kron(A@B, A@B):", np.allclose(got, np.kron(A @ B, A @ B)))
if not np.allclose(got, np.kron(C, C)):
    problems.append("tensor_product uses a@b for the generator named 'ab'")

sq = rep.symmetric_square()
incl = representation.symmetric_inclusion(2)
proj = representation.symmetric_projection(2)
if not np.allclose(sq.generators["ab"], proj @ np.kron(C, C) @ incl):
    print("symmetric square, generator 'ab': not Sym^2(C)")
    problems.append("symmetric_square wrong for the generator named 'ab'")

# (1b) ordinary multi-character names
rep2 = representation.Representation(parse_simple=False)
rep2["a1"] = A
rep2["b1"] = B
try:
    t2 = rep2.tensor_product(rep2)
    assert np.allclose(t2.generators["a1"], np.kron(A, A))
    print("tensor product with names 'a1', 'b1': ok")
except Exception as e:
    print("tensor product with names 'a1', 'b1' raises", type(e).__name__, e)
    problems.append("tensor_product KeyError for names a1, b1")

# (2) projective wrapping
prep = projective.ProjectiveRepresentation()
prep["a"] = projective.Transformation(A, column_vectors=True)
prep["b"] = projective.Transformation(B, column_vectors=True)
assert np.allclose(prep["ab"].matrix.T, A @ B)
for name in ["tensor_product", "symmetric_square"]:
    try:
        d = prep.tensor_product(prep) if name == "tensor_product" else prep.symmetric_square()
        print(name, "of a ProjectiveRepresentation: ok")
    except Exception as e:
        print(name, "of a ProjectiveRepresentation raises", type(e).__name__, e)
        problems.append(name + " of ProjectiveRepresentation")

assert not problems, problems
