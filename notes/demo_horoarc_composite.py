import numpy as np
from geometry_tools import hyperbolic as H
from geometry_tools.hyperbolic import Model
arcs=[]
for th, r in [(0.3, 0.2), (2.0, 0.5), (4.0, -0.3)]:
    c = H.IdealPoint.from_angle(th)
    p1 = H.Point([r*np.cos(th+1), r*np.sin(th+1)], model=Model.POINCARE)
    g = H.Geodesic(c, H.IdealPoint.from_angle(th+np.pi))
    p2 = g.reflection_across() @ p1
    arcs.append(H.HorosphereArc(c, p1, p2))
bad=0
for model in (Model.POINCARE, Model.HALFSPACE):
    single = [a.circle_parameters(model=model, degrees=False) for a in arcs]
    comp = H.HorosphereArc(np.stack([a.proj_data for a in arcs]))
    cc, rr, tt = comp.circle_parameters(model=model, degrees=False)
    for i,(c,r,t) in enumerate(single):
        ok = np.allclose(c,cc[i]) and np.allclose(r,rr[i]) and np.allclose(t, tt[i])
        bad += not ok
        print(model, i, ok)
    comp2 = H.HorosphereArc(np.stack([np.stack([a.proj_data for a in arcs]), np.stack([a.proj_data for a in arcs[::-1]])]))
    t2 = comp2.circle_parameters(model=model, degrees=False)[2]
    ok = t2.shape == (2,3,2) and np.allclose(t2[0], tt) and np.allclose(t2[1], tt[::-1])
    bad += not ok
    print("rank 2", ok)
raise SystemExit(bad)
