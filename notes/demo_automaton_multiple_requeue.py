"""C07: the even-length Coxeter automaton cannot be built for larger finite groups.

FSA.automaton_multiple (behind CoxeterGroup.automaton(even_length=True)) re-processes a
state once for every PATH that reaches it instead of once per state, so the work is
proportional to the number of reduced words rather than to the number of states.
For the geodesic automaton of F4 (1152 states) this is already ~10^6 expansions; for H4
(rank 4, entries {2,3,5}: inside what the property quantifies over, 14400 states, built
in a few seconds) the call does not return (memory grows by GBs), so the even-length
variant does not exist at all for that Coxeter matrix.
"""
import signal, time
import numpy as np
from geometry_tools.coxeter import CoxeterGroup
from geometry_tools.automata import fsa

def diag(n, edges):
    M = np.full((n, n), 2, dtype=int); np.fill_diagonal(M, 1)
    for i, j, m in edges: M[i, j] = M[j, i] = m
    return M

# --- deterministic part: count state expansions while building the even automaton of F4
calls = {"n": 0}
orig = fsa.FSA.enumerate_fixed_length_paths
def counting(self, length, start_vertex=None, with_states=False):
    if length == 2 and with_states:          # the top-level call made by automaton_multiple(2)
        calls["n"] += 1
    return orig(self, length, start_vertex=start_vertex, with_states=with_states)

F4 = diag(4, [(0, 1, 3), (1, 2, 4), (2, 3, 3)])
G = CoxeterGroup(matrix=F4)
plain = G.automaton(shortlex=False)
nstates = len(plain.graph_dict)
fsa.FSA.enumerate_fixed_length_paths = counting
t = time.time()
even = G.automaton(shortlex=False, even_length=True)
dt = time.time() - t
fsa.FSA.enumerate_fixed_length_paths = orig
print("F4 geodesic automaton: %d states; even_length=True expanded states %d times (%.1fs)"
      % (nstates, calls["n"], dt))

# --- H4: the construction does not finish
class TO(Exception): pass
def handler(*a): raise TO()
signal.signal(signal.SIGALRM, handler)
H4 = diag(4, [(0, 1, 3), (1, 2, 3), (2, 3, 5)])
GH = CoxeterGroup(matrix=H4)
t = time.time(); GH.automaton(shortlex=False); t_plain = time.time() - t
finished = True
signal.alarm(int(5 * t_plain) + 30)
try:
    GH.automaton(shortlex=False, even_length=True)
    signal.alarm(0)
except TO:
    finished = False
print("H4 geodesic automaton built in %.1fs; even_length=True finished within %ds: %s"
      % (t_plain, int(5 * t_plain) + 30, finished))

assert calls["n"] <= nstates, (
    "automaton_multiple expanded %d states for an automaton with %d states" % (calls["n"], nstates))
assert finished, "CoxeterGroup(H4).automaton(shortlex=False, even_length=True) does not return"
