"""diagonalize_form(reverse=True, order_eigenvalues="minkowski") on a batch of
forms with different signatures: before fix 17cd58d the eigenvalue ORDER of
batch element i was taken from element N-1-i (np.flip without axis)."""
import numpy as np
from geometry_tools import utils
rng = np.random.default_rng(3)


def form(p, q):
    A = rng.normal(size=(p + q, p + q))
    Q, _ = np.linalg.qr(A)
    d = np.concatenate([-rng.uniform(1, 2, size=p), rng.uniform(1, 2, size=q)])
    return Q @ np.diag(d) @ Q.T


B = np.stack([form(1, 2), form(1, 2), form(2, 1)])
bad = 0
for kw in ({"reverse": True}, {"order_eigenvalues": "minkowski", "reverse": True}):
    W, Winv = utils.diagonalize_form(B, **kw)
    for i in range(3):
        Wi, _ = utils.diagonalize_form(B[i], **kw)
        di = np.round(np.diag(Wi.T @ B[i] @ Wi), 6)
        dc = np.round(np.diag(W[i].T @ B[i] @ W[i]), 6)
        if not np.allclose(di, dc):
            bad += 1
            print("MISMATCH", kw, i, di, dc)
raise SystemExit(1 if bad else 0)
