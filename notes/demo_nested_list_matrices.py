"""C12: a matrix given as a nested list must be accepted wherever the same
numbers as an ndarray are (defects 58, 59)."""
import numpy as np
from geometry_tools import projective, hyperbolic

M3 = [[5.0, 1.0, 0.0], [0.0, 1.0, 0.0], [0.0, 0.0, 0.2]]
M2 = [[2.0, 1.0], [1.0, 1.0]]
a = projective.Transformation(M3, column_vectors=True).matrix
b = projective.Transformation(np.array(M3), column_vectors=True).matrix
assert np.allclose(a, b)
a = hyperbolic.Isometry(np.identity(3).tolist(), column_vectors=True).matrix
assert np.allclose(a, np.identity(3))
a = projective.affine_linear_map(M2).matrix
b = projective.affine_linear_map(np.array(M2)).matrix
assert np.allclose(a, b)
print("OK")
