import numpy as np
from geometry_tools import projective, utils
rng = np.random.default_rng(0)
A = rng.normal(size=(2,4)) + 1j*rng.normal(size=(2,4))
k = utils.kernel(A)
print("kernel residual", np.abs(A @ k).max())
# two complex planes in CP^3 through a common line
common = rng.normal(size=(4,)) + 1j*rng.normal(size=(4,))
def rnd(): return rng.normal(size=(4,)) + 1j*rng.normal(size=(4,))
S1 = projective.Subspace(np.array([common, rnd(), rnd()]))
S2 = projective.Subspace(np.array([common + 0, rnd(), rnd()]))
I = S1.intersect(S2)
print(I.proj_data.shape)
# is each basis vector of I in span of S1 and S2?
def in_span(v, S):
    M = np.vstack([S.proj_data, v[None]])
    return np.linalg.svd(M, compute_uv=False)[-1]
for v in I.proj_data:
    print(in_span(v, S1), in_span(v, S2))
