"""C12: an angle packaged as np.uint64 must give the same rotation as the
same number packaged as int / float (defect 55: check_type used
np.can_cast(dtype, int), False for uint64)."""
import numpy as np
from geometry_tools import utils, hyperbolic

ref = utils.rotation_matrix(1.0)
for a in (1, np.int64(1), np.uint32(1), np.uint64(1), np.array(1, dtype=np.uint64)):
    m = utils.rotation_matrix(a)
    print(type(a).__name__, getattr(a, "dtype", ""), m.dtype, np.abs(m - ref).max())
    assert m.dtype == np.float64 and np.allclose(m, ref), a
p = hyperbolic.IdealPoint.from_angle(np.uint64(1)).proj_data
assert np.allclose(p, [1, np.cos(1), np.sin(1)]), p
print("OK")
