"""A representation whose generators have different dtypes (one complex, the
last assigned one real): the derived adjoint representations must still be the
adjoint of every word image (property C05)."""
import warnings
import numpy as np
from geometry_tools import representation, lie
warnings.simplefilter("ignore")
rep = representation.Representation()
rep["a"] = np.array([[1 + 1j, 2.], [0.5j, 1.5]])
rep["b"] = np.array([[2., 1.], [1., 1.]])          # real, assigned last
bad = []
for name, f in (("gln_adjoint", lie.gln_adjoint), ("sln_adjoint", lie.sln_adjoint)):
    ad = getattr(rep, name)()
    for w in ("a", "b", "ab", "aB", "ba"):
        want = f(rep[w])
        got = ad[w]
        if not np.allclose(got, want):
            bad.append((name, w, float(np.abs(got - want).max())))
print("wrong images:", bad)
assert not bad
