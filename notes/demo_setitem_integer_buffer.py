"""C01: a composite Point built from integer-typed coordinates (e.g. two
origins written as [[0, 0], [0, 0]] in the Klein model) keeps an integer
buffer.  Building one of its points back from another point's coordinates
by item assignment silently truncates the coordinates, so the stored point
is a different point (here: still the origin, at distance 0.60 from the
point that was assigned)."""
import numpy as np
from geometry_tools import hyperbolic
from geometry_tools.hyperbolic import Point

src = Point([0.5, 0.2], model="klein")            # an interior point of H^2

for model in ["klein", "poincare", "halfspace", "projective", "hyperboloid"]:
    pts = Point([[0, 0], [0, 0]], model="klein")  # two origins, integer literals
    # read src's coordinates in `model`, build a point back from them, store it
    pts[0] = Point(src.coords(model), model=model)
    got = pts[0]
    d = float(src.distance(got))
    print(model, ": stored klein coords", got.coords("klein"),
          " expected", src.coords("klein"), " distance to the assigned point", d)
    assert np.allclose(got.coords("klein"), src.coords("klein")), \
        "point read back after item assignment is not the point assigned (model %s)" % model
    assert d < 1e-6
print("ok")
