"""C09: add_edges re-targeting a label leaves the old edge in the outgoing / incoming views."""
from geometry_tools.automata.fsa import FSA

from collections import Counter
def views(a):
    """the three views as multisets of (tail, label, head)"""
    g = Counter((v, l, w) for v, row in a.graph_dict.items() for l, w in row.items())
    o = Counter((v, l, w) for v, row in a.out_dict.items() for w, ls in row.items() for l in ls)
    i = Counter((v, l, w) for w, row in a.in_dict.items() for v, ls in row.items() for l in ls)
    return g, o, i

a = FSA({0: {'a': 1}, 1: {}, 2: {}})
a.add_edges([(0, 2, 'a')])          # vertex 0 already has an 'a'-edge (to 1)
g, o, i = views(a)
print("label view   :", sorted(g))
print("outgoing view:", sorted(o))
print("incoming view:", sorted(i))
print("edges(with_labels)      :", sorted(a.edges(with_labels=True)))
print("edges_out(0)            :", sorted(a.edges_out(0)))
print("edges_in(1)             :", sorted(a.edges_in(1)))
print("has_edge(0, 1)          :", a.has_edge(0, 1), " but follow_word('a', 0) =", a.follow_word('a', 0))
assert set(g) == set(o) == set(i), "the three views describe different edge sets"
