"""A label->target dictionary whose rows are ONE object (dict.fromkeys, a row
reused for several states) must give an automaton whose three views agree
after edits (property C09)."""
from geometry_tools.automata import fsa


def edge_sets(A):
    g = {(v, l, w) for v, nb in A.graph_dict.items() for l, w in nb.items()}
    o = {(v, l, w) for v, nb in A.out_dict.items() for w, ls in nb.items() for l in ls}
    i = {(v, l, w) for w, nb in A.in_dict.items() for v, ls in nb.items() for l in ls}
    return g, o, i


bad = []
row = {'a': 0}
for build in (lambda: fsa.FSA(dict.fromkeys([0, 1], {'a': 0})),
              lambda: fsa.FSA({0: row, 1: row, 2: {'b': 0}})):
    A = build()
    A.add_edges([(0, 1, 'b')])
    g, o, i = edge_sets(A)
    if not (g == o == i):
        bad.append(("add_edges", sorted(g ^ o), sorted(o ^ i)))
    A = build()
    A.delete_vertex(0)
    g, o, i = edge_sets(A)
    if not (g == o == i):
        bad.append(("delete_vertex", sorted(g ^ o), sorted(o ^ i)))
print("disagreements:", bad)
assert not bad
assert row == {'a': 0}, "the caller's row was modified"
