"""C13: a regular n-gon requested with circumradius r (or interior angle a) has
n vertices at distance r from the origin.  Polygon.regular_polygon documents
"(This is actually vectorized.)" and builds TangentVector.get_base_tangent(
dimension, hyp_radius.shape); get_base_tangent fails for every non-empty shape
(the vector part is always built with shape (dimension+1,)), so any array of
radii / angles -- even of size 1 -- raises instead of giving polygons."""
import numpy as np
from geometry_tools.hyperbolic import Point, Polygon, TangentVector

n = 5
ok = True

try:
    bt = TangentVector.get_base_tangent(2, (3,))
    print("get_base_tangent(2, (3,)) shape:", bt.shape)
except Exception as e:
    ok = False
    print("get_base_tangent(2, (3,)) raised %s: %s" % (type(e).__name__, e))

for kw in ({"radius": np.array([1.0, 2.0])},
           {"radius": np.array([1.0])},
           {"angle": np.array([1.0, 1.5])}):
    try:
        poly = Polygon.regular_polygon(n, **kw)
        print("regular_polygon(%d, %s): shape %s" % (n, kw, poly.shape))
    except Exception as e:
        ok = False
        print("regular_polygon(%d, %s) raised %s: %s" % (n, kw, type(e).__name__, e))

# the scalar case works
poly = Polygon.regular_polygon(n, radius=1.0)
print("scalar radius 1.0: vertex distances",
      poly.get_vertices().distance(Point.get_origin(2, (n,))))

assert ok, "regular_polygon / get_base_tangent do not accept a composite shape"
