"""Reflection across a geodesic / plane through the origin of the ball (a
diameter): must be a finite, involutive isometry fixing the subspace
(properties C15 / C02)."""
import warnings
import numpy as np
from geometry_tools import hyperbolic as H
warnings.simplefilter("ignore")
bad = []


def check(name, sub):
    R = np.asarray(sub.reflection_across().matrix)
    n = R.shape[-1]
    J = np.diag([-1.] + [1.] * (n - 1))
    ib = np.asarray(sub.ideal_basis)
    ok = (np.isfinite(R).all()
          and np.allclose(R @ R, np.eye(n), atol=1e-9)
          and np.allclose(np.swapaxes(R, -1, -2) @ J @ R, J, atol=1e-9)
          and np.allclose(np.cross(ib @ R, ib) if n == 3 else 0, 0, atol=1e-8))
    if not ok:
        bad.append(name)


rng = np.random.default_rng(1)
for t in rng.uniform(0, np.pi, 6):
    p = np.array([np.cos(t), np.sin(t)])
    check("diameter %.3f" % t, H.Geodesic(H.Point(p, model="klein"), H.Point(-p, model="klein")))
for _ in range(6):
    a, b = rng.uniform(0, 2 * np.pi, 2)
    check("generic", H.Geodesic(H.Point([np.cos(a), np.sin(a)], model="klein"),
                                H.Point([np.cos(b), np.sin(b)], model="klein")))
# a composite mixing a diameter and a generic geodesic
pts = np.array([[[1., 0.], [-1., 0.]], [[0., 1.], [0.6, -0.8]]])
check("composite", H.Geodesic(H.Point(pts, model="klein")))
print("failing:", bad)
assert not bad
