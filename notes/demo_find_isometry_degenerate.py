import numpy as np
from geometry_tools import hyperbolic
for n in ([0., 1, 1, 0], [3., 1, -4, 2, 2], [0.3, 1, 0.2, 0.1]):
    try:
        R = hyperbolic.Hyperplane(np.array(n)).reflection_across().proj_data
        J = np.diag([-1.] + [1.] * (len(n) - 1))
        print(n, "det", round(float(np.linalg.det(R)), 4), "|RJR^T-J|", float(np.abs(R @ J @ R.T - J).max()))
    except Exception as e:
        print(n, type(e).__name__, e)
