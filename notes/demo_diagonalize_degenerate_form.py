"""C08: geometric_representation(diagonalize=True) of a Coxeter group whose
cosine form is degenerate (affine groups, e.g. the infinite dihedral group,
(2,2,inf), C~4) returns SINGULAR matrices for the generators: they are not
involutions and the finite-label relations fail."""
import warnings
import numpy as np
from geometry_tools import coxeter

warnings.simplefilter("ignore")

def path(labels):
    n = len(labels) + 1
    M = np.full((n, n), 2)
    np.fill_diagonal(M, 1)
    for i, l in enumerate(labels):
        M[i, i + 1] = M[i + 1, i] = l
    return M

cases = {
    "infinite dihedral, matrix [[1,0],[0,1]]": coxeter.CoxeterGroup(matrix=[[1, 0], [0, 1]]),
    "infinite dihedral, diagram (a,b,-1)": coxeter.CoxeterGroup(diagram=[("a", "b", -1)]),
    "triangle group (2,2,inf)": coxeter.TriangleGroup((2, 2, 0)),
    "affine C~4 (path 4,3,3,4)": coxeter.CoxeterGroup(matrix=path([4, 3, 3, 4])),
}

failures = []
for name, G in cases.items():
    n = len(G.coxeter_matrix)
    plain = G.geometric_representation()
    diag = G.geometric_representation(diagonalize=True)
    for g in G.ordered_gens:
        e_plain = np.abs(plain[g] @ plain[g] - np.eye(n)).max()
        e_diag = np.abs(diag[g] @ diag[g] - np.eye(n)).max()
        det = np.linalg.det(diag[g])
        print(f"{name}: generator {g}: |s^2-I| plain={e_plain:.1e} "
              f"diagonalised={e_diag:.1e}  det(diagonalised)={det:.3g}")
        if e_diag > 1e-6:
            failures.append((name, g, e_diag))
    M = np.asarray(G.coxeter_matrix)
    for i in range(n):
        for j in range(i + 1, n):
            if M[i, j] > 0:
                w = G.ordered_gens[i] + G.ordered_gens[j]
                e = np.abs(np.linalg.matrix_power(diag[w], int(M[i, j])) - np.eye(n)).max()
                if e > 1e-6:
                    print(f"{name}: ({w})^{M[i,j]} != I, error {e:.1e}")
                    failures.append((name, w, e))

assert not failures, (
    "diagonalised geometric representation does not satisfy the Coxeter "
    "relations: %r" % failures[:4]
)
