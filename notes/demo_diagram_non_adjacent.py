"""C08: a Coxeter diagram that lists only its edges (the usual convention: pairs
not joined by an edge commute, label 2) cannot be constructed - from_diagram
raises KeyError - so e.g. the rank-4 compact hyperbolic group with diagram
a-5-b-3-c-4-d has no representation via the diagram route."""
import numpy as np
from geometry_tools import coxeter

diagram = [("a", "b", 5), ("b", "c", 3), ("c", "d", 4)]
full = diagram + [("a", "c", 2), ("a", "d", 2), ("b", "d", 2)]

G_full = coxeter.CoxeterGroup(diagram=full)
print("with every commuting pair spelled out:\n", G_full.coxeter_matrix)

try:
    G = coxeter.CoxeterGroup(diagram=diagram)
except Exception as e:
    print("CoxeterGroup(diagram=%r) raised %r" % (diagram, e))
    raise AssertionError("diagram route fails for a diagram with non-adjacent nodes: %r" % e)

assert (G.coxeter_matrix == G_full.coxeter_matrix).all()
rep = G.geometric_representation()
assert np.allclose(np.linalg.matrix_power(rep["ac"], 2), np.eye(4))
