"""C17 defects found by SH8 / T4 on the tree before fixes a88f222, 60bb4f0,
9e750a9 (exit 0 on the fixed tree):
 - gln_adjoint / sln_adjoint of a float matrix returned dtype('O') arrays
   (check_type(like=<lambda>)); hom.so21_adjoint()(X) raised UFuncTypeError;
 - gln_adjoint, sln_adjoint, sl2c_herm_action, sl2c_to_so31, o_to_pgl raised
   for arrays of matrices."""
import numpy as np
from geometry_tools import utils
from geometry_tools.lie import core, hom
rng = np.random.default_rng(7)
bad = 0
A = rng.normal(size=(2, 2)) + 2 * np.eye(2)
for f in (core.gln_adjoint, core.sln_adjoint):
    if f(A).dtype != np.float64:
        bad += 1
        print("object dtype:", f.__name__, f(A).dtype)
P = np.eye(3)[[2, 1, 0]]
X = P @ core.sl2_to_so21(np.array([[2., 1.], [1., 1.]])) @ P
try:
    ad = hom.so21_adjoint()
    assert np.allclose(ad(X) @ ad(X), ad(X @ X))
except Exception as e:
    bad += 1
    print("so21_adjoint:", type(e).__name__, str(e)[:80])
B = rng.normal(size=(2, 3, 2, 2)) + 2 * np.eye(2)
CB = rng.normal(size=(3, 2, 2)) + 1j * rng.normal(size=(3, 2, 2))
OB = np.array([core.sl2_to_so21(M) for M in B[0]])
for name, f, arg in (("gln_adjoint", core.gln_adjoint, B),
                     ("sln_adjoint", core.sln_adjoint, B),
                     ("sl2c_herm_action", core.sl2c_herm_action, CB),
                     ("sl2c_to_so31", core.sl2c_to_so31, CB),
                     ("o_to_pgl", core.o_to_pgl, OB)):
    try:
        R = f(arg)
        flat = arg.reshape((-1,) + arg.shape[-2:])
        Rf = R.reshape((-1,) + R.shape[-2:])
        for i in range(len(flat)):
            assert np.allclose(Rf[i], f(flat[i])), (name, i)
    except Exception as e:
        bad += 1
        print("batch:", name, type(e).__name__, str(e)[:80])
raise SystemExit(1 if bad else 0)
