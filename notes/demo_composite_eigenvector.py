import numpy as np, warnings
from geometry_tools import projective
th = 0.7
R = np.array([[np.cos(th), -np.sin(th), 0], [np.sin(th), np.cos(th), 0], [0, 0, 2.0]])
S = np.array([[0, -2.0, 0], [1.5, 0, 0], [0, 0, 1.0]])
def check(T, v):
    M = T.proj_data if hasattr(T, "proj_data") else T
    w = v @ M      # row convention
    # projectively parallel?
    return np.linalg.matrix_rank(np.stack([v, w]), tol=1e-9)
single = [projective.Transformation(M).eigenvector().proj_data for M in (R, S)]
print("single:", [check(M, v) for M, v in zip((R, S), single)], [v.dtype for v in single])
with warnings.catch_warnings(record=True) as w:
    warnings.simplefilter("always")
    comp = projective.Transformation(np.stack([R, S])).eigenvector().proj_data
    print("warnings:", [str(x.category.__name__) for x in w])
print("composite dtype", comp.dtype, "ranks", [check(M, v) for M, v in zip((R, S), comp)])
