"""affine_translation with a complex translation vector: the map must act in
the chart as that translation (property C16, complex coordinates)."""
import warnings
import numpy as np
from geometry_tools import projective as P
warnings.simplefilter("ignore")
bad = []
rng = np.random.default_rng(0)
for n in (1, 2, 3, 4):
    for ci in range(n + 1):
        for kind in ("float", "int", "complex", "list"):
            if kind == "float":
                v = rng.normal(size=n)
            elif kind == "int":
                v = rng.integers(-3, 4, size=n)
            elif kind == "complex":
                v = rng.normal(size=n) + 1j * rng.normal(size=n)
            else:
                v = list(rng.normal(size=n))
            x = rng.normal(size=n) + (1j * rng.normal(size=n) if kind == "complex" else 0)
            t = P.affine_translation(v, chart_index=ci)
            p = P.Point(x, chart_index=ci)
            got = (t @ p).affine_coords(chart_index=ci)
            if not np.allclose(got, x + np.asarray(v)):
                bad.append((n, ci, kind))
print("cases failing:", bad)
assert not bad
