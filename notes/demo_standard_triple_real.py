"""C20 violation 3: to_standard_triple (the Moebius map taking a triple of
points of CP^1 to (0, infinity, 1)) raises for real-typed (integer or float)
triples whenever the third point does not lie between the first two, because
a complex eigenvalue is multiplied in place into a real array.  The same
triple with a complex dtype works."""
import numpy as np
from geometry_tools import complex_projective as cp

std = np.array([[1, 0], [0, 1], [1, 1]])   # 0, infinity, 1

def maps_to_standard(triple):
    T = cp.CP1Point(triple).to_standard_triple()
    image = (T @ cp.CP1Point(triple)).proj_data
    # projective equality with (0, inf, 1): 2x2 determinants vanish
    dets = image[:, 0] * std[:, 1] - image[:, 1] * std[:, 0]
    return np.allclose(dets, 0)

# the points 0, 1, 2 and the triple (1, infinity, 0)
triples = {
    "(0, 1, 2) int":     np.array([[1, 0], [1, 1], [1, 2]]),
    "(0, 1, 2) float":   np.array([[1., 0.], [1., 1.], [1., 2.]]),
    "(1, inf, 0) int":   np.array([[1, 1], [0, 1], [1, 0]]),
}

failures = []
for name, tr in triples.items():
    ok_cx = maps_to_standard(tr.astype(complex))
    print(f"{name}: as complex dtype -> maps to (0, inf, 1): {ok_cx}")
    assert ok_cx
    try:
        ok = maps_to_standard(tr)
        print(f"{name}: as given -> maps to (0, inf, 1): {ok}")
        if not ok:
            failures.append(name)
    except Exception as e:
        print(f"{name}: as given -> raised {type(e).__name__}: {e}")
        failures.append(name)

assert not failures, f"to_standard_triple failed for real-typed triples: {failures}"
