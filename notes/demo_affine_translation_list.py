"""C16: affine_translation over the complex numbers, translation given as a list / tuple.
The translation must act in the chart as x -> x + t.  For a list / tuple of complex
numbers the matrix buffer is float64: a sequence of numpy complex scalars (e.g.
list(arr), or a row taken from a list of translations) silently loses its imaginary
part (ComplexWarning only), a sequence of Python complex raises TypeError.  Real
lists / tuples and complex ndarrays work."""
import warnings
import numpy as np
from geometry_tools import projective as P

warnings.simplefilter("ignore")
x = np.array([[0.5 + 1j, -2.0], [1.0, 3 - 1j]])
t_arr = np.array([1j, 2 - 1j])
forms = {
    "real list (control)": [1.0, 2.0],
    "complex ndarray (control)": t_arr,
    "list of numpy complex": list(t_arr),
    "tuple of numpy complex": tuple(t_arr),
    "list of python complex": [1j, 2 - 1j],
}
failures = 0
for chart in range(3):
    pts = P.Point(x, chart_index=chart)
    for name, t in forms.items():
        try:
            T = P.affine_translation(t, chart_index=chart)
            y = (T @ pts).affine_coords(chart_index=chart)
            ok = np.allclose(y, x + np.array(t))
            print(f"chart {chart}, {name}: matrix dtype {T.matrix.dtype}, acts as x + t: {ok}")
            if not ok:
                print("   got     ", y.tolist())
                print("   expected", (x + np.array(t)).tolist())
        except Exception as e:
            ok = False
            print(f"chart {chart}, {name}: raised {type(e).__name__}: {e}")
        if not ok:
            failures += 1
assert failures == 0, f"{failures} complex translations given as sequences were not applied as x + t"
