"""C15: Hyperplane.from_reflection / Geodesic.from_reflection document
`reflection : Isometry or ndarray`, and from_reflection even has an
`except AttributeError: matrix = reflection` branch for the ndarray form, but
the ndarray form always dies with AttributeError, so the wall of a reflection
given as a matrix cannot be recovered.
"""
import numpy as np
from geometry_tools.hyperbolic import Hyperplane, Geodesic, Isometry

failures = []
for normal in ([0.2, 1.0, 0.3], [0.0, 1.0, 0.0], [0.1, 0.2, 1.0, 0.5]):
    normal = np.array(normal)
    wall = Hyperplane(normal.copy())
    refl = wall.reflection_across()

    # the Isometry form works and returns the same hyperplane
    back = Hyperplane.from_reflection(refl)
    v = back.spacelike_vector
    assert np.allclose(np.abs(v / np.linalg.norm(v)),
                       np.abs(normal / np.linalg.norm(normal)))
    print("normal", normal, ": Isometry form recovers the hyperplane")

    # the documented ndarray form (try both the row- and the column-vector
    # matrix, whichever convention the author had in mind)
    for name, mat in (("row-vector matrix", refl.proj_data),
                      ("column-vector matrix", refl.proj_data.T)):
        assert isinstance(mat, np.ndarray)
        for cls in (Hyperplane, Geodesic):
            if cls is Geodesic and len(normal) != 3:
                continue
            try:
                cls.from_reflection(mat)
                print("   %s.from_reflection(%s): ok" % (cls.__name__, name))
            except Exception as e:
                print("   %s.from_reflection(%s): %r" % (cls.__name__, name, e))
                failures.append((cls.__name__, name, repr(e)))

assert not failures, (
    "from_reflection fails for the documented ndarray argument form: %s"
    % failures[0][2])
