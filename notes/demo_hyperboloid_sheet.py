import numpy as np
from geometry_tools import hyperbolic
from geometry_tools.hyperbolic import Model
p = hyperbolic.Point([0.3, 0.2], model=Model.KLEIN)
v = p.proj_data
for s in (1.0, 2.5, -1.0, -0.4):
    q = hyperbolic.Point(s * v)
    print(s, q.coords(Model.KLEIN), q.coords(Model.HYPERBOLOID))
