import numpy as np
from geometry_tools import hyperbolic as H
from geometry_tools.hyperbolic import Model
hs=[]; gs=[]
for th, r, a, b in [(0.3, 0.2, 0.1, 3.0), (2.0, 0.5, 1.0, 4.5), (4.0, -0.3, 2.2, 5.0)]:
    c = H.IdealPoint.from_angle(th)
    p = H.Point([r*np.cos(th+1), r*np.sin(th+1)], model=Model.POINCARE)
    hs.append(H.Horosphere(c, p))
    # geodesic through the ideal centre: certainly meets the horosphere
    gs.append(H.Geodesic(c, H.IdealPoint.from_angle(th + b)))
single = [h.intersect_geodesic(g).proj_data for h, g in zip(hs, gs)]
H_all = H.Horosphere(np.stack([h.proj_data for h in hs]))
G_all = H.Geodesic(np.stack([g.proj_data for g in gs]))
bad = 0
try:
    comp = H_all.intersect_geodesic(G_all).proj_data
    for i, s in enumerate(single):
        k1 = H.Point(s).coords(Model.KLEIN); k2 = H.Point(comp[i]).coords(Model.KLEIN)
        ok = np.allclose(k1, k2, equal_nan=True)
        print(i, ok); bad += not ok
except Exception as e:
    print("composite:", type(e).__name__, e); bad += 1
# two horospheres (k == dimension of the coordinates): silently wrong?
H2 = H.Horosphere(np.stack([h.proj_data for h in hs[:2]]))
G2 = H.Geodesic(np.stack([g.proj_data for g in gs[:2]]))
try:
    comp = H2.intersect_geodesic(G2).proj_data
    for i in range(2):
        k1 = H.Point(single[i]).coords(Model.KLEIN); k2 = H.Point(comp[i]).coords(Model.KLEIN)
        ok = np.allclose(k1, k2, equal_nan=True)
        print("pair", i, ok, k1.round(3).tolist(), k2.round(3).tolist()); bad += not ok
except Exception as e:
    print("pair composite:", type(e).__name__, e); bad += 1
raise SystemExit(1 if bad else 0)
