"""Homogeneity types for the shape interpreter.

Every abstract array / scalar may carry a tag saying how its value changes
when the homogeneous coordinates of an input object are multiplied by a
non-zero scalar s:  value -> |s|^m * phase(s)^n * value, one (n, m) pair
per scale variable (one variable per input object / arbitrary
representative).  For a real s phase(s) is its sign and n counts mod 2;
for a complex s it is s/|s| and n is an integer (conjugation negates it).

  INV    no dependence on any scale: a geometric quantity
  WILD   the constant 0 (homogeneous of every degree)
  None   unknown -- nothing is concluded from it

Tags are only ever *derived* by transfer functions that are exact for the
operation concerned; anything else yields None.  The checks (events) fire
only when every operand involved has a known tag."""
from fractions import Fraction as Fr


class Hom:
    __slots__ = ("deg", "indep", "mask", "steady", "why", "parts")

    def __init__(self, deg=(), indep=False, mask=None, steady=True,
                 why=None, parts=None):
        # for a mixed tag: the set of tags of the parts it was assembled
        # from (frozenset of deg tuples), None when not known
        self.parts = parts
        # deg: tuple of (var, n, m) sorted by var, zero entries dropped
        self.deg = deg
        self.indep = indep
        # for a boolean array: (tag of q, sense) when it is `q < 0`
        # (sense -1) or `q > 0` / `q >= 0` (sense +1)
        self.mask = mask
        # for a boolean array: False when the truth values may change with
        # the scale (a sign test of a quantity that flips sign, a
        # comparison of quantities that scale differently, or unknown)
        self.steady = steady
        # for an unsteady mask whose operands' tags are both known: text
        self.why = why

    def __repr__(self):
        if self.deg == "*":
            return "Hom(0)"
        if self.deg == "mixed":
            return "Hom(parts that scale differently)"
        if not self.deg:
            return "Hom(inv)"
        return "Hom(" + " ".join(
            f"{v}:|s|^{m}" + (f"*ph^{n}" if n else "")
            for v, n, m in self.deg) + (", rows" if self.indep else "") + ")"

    @property
    def wild(self):
        return self.deg == "*"

    @property
    def mixed(self):
        return self.deg == "mixed"

    @property
    def invariant(self):
        return self.deg == ()

    def same(self, other):
        return self.deg == other.deg


WILD = Hom("*")
INV = Hom(())
# an assembled array (stack / concatenate / buffer filled piecewise) whose
# parts are known to scale differently: certainly not invariant as a whole,
# nothing is known about any further computation on it
MIXED = Hom("mixed")
# the same, and the parts lie along the last (coordinate) axis: a vector
# whose entries scale differently is not a homogeneous coordinate vector
MIXED_COORD = Hom("mixed", True)
COMPLEX_VARS = set()        # names of complex scale variables


def var(name, n=1, m=1, indep=False):
    return Hom(((name, n, Fr(m)),), indep)


def _canon(d):
    out = []
    for v, (n, m) in sorted(d.items()):
        if v.split("#")[0] not in COMPLEX_VARS:
            n = n % 2
        if n or m:
            out.append((v, n, m))
    return tuple(out)


def _as_dict(h):
    return {v: (n, m) for v, n, m in h.deg}


def combine(h1, h2, sign):
    """product (sign=+1) / quotient (sign=-1)"""
    if (h1 is not None and h1.mixed) or (h2 is not None and h2.mixed):
        return None
    if h1 is None or h2 is None:
        return None
    if h1.wild:
        return WILD if sign > 0 or not h2.wild else None
    if h2.wild:
        return WILD if sign > 0 else None
    d = _as_dict(h1)
    for v, n, m in h2.deg:
        n0, m0 = d.get(v, (0, Fr(0)))
        d[v] = (n0 + sign * n, m0 + sign * m)
    if h1.invariant:
        indep = h2.indep
    elif h2.invariant:
        indep = h1.indep
    else:
        indep = h1.indep and h2.indep
    return Hom(_canon(d), indep)


def power(h, p):
    if (h is not None and h.mixed):
        return None
    if h is None:
        return None
    if h.wild:
        return WILD if isinstance(p, (int, float)) and p > 0 else None
    if isinstance(p, bool) or not isinstance(p, (int, float, Fr)):
        return INV if h.invariant else None
    if isinstance(p, float):
        if p != int(p) and p * 2 != int(p * 2):
            return INV if h.invariant else None
        p = Fr(p)
    d = {}
    for v, n, m in h.deg:
        if p.denominator != 1:
            if n:
                return None
            d[v] = (0, m * p)
        else:
            d[v] = (n * int(p), m * p)
    return Hom(_canon(d), h.indep)


def absolute(h):
    if (h is not None and h.mixed):
        return None
    if h is None or h.wild:
        return h
    return Hom(_canon({v: (0, m) for v, n, m in h.deg}), h.indep)


def sign_of(h):
    if (h is not None and h.mixed):
        return None
    if h is None or h.wild:
        return h
    if any(v.split("#")[0] in COMPLEX_VARS for v, n, m in h.deg):
        return None
    return Hom(_canon({v: (n, Fr(0)) for v, n, m in h.deg}), h.indep)


def conj(h):
    if (h is not None and h.mixed):
        return None
    if h is None or h.wild:
        return h
    return Hom(_canon({v: (-n, m) for v, n, m in h.deg}), h.indep)


def join(h1, h2, coord=False):
    """The tag of a value that is h1 in one place and h2 in another (an
    assembled buffer, np.where, np.stack): known only when they agree.
    coord: the places differ along the last (coordinate) axis."""
    if h1 is None or h2 is None:
        return None
    if h1.wild:
        return h2
    if h2.wild:
        return h1
    def parts_of(h):
        if h.mixed:
            return h.parts
        return frozenset([h.deg])
    p1, p2 = parts_of(h1), parts_of(h2)
    parts = (p1 | p2) if p1 is not None and p2 is not None else None
    if h1.mixed or h2.mixed:
        return Hom("mixed", bool(coord or (h1.mixed and h1.indep)
                                 or (h2.mixed and h2.indep)), parts=parts)
    if h1.same(h2):
        return Hom(h1.deg, h1.indep and h2.indep)
    return Hom("mixed", bool(coord), parts=parts)


def drop_rows(h):
    if h is not None and h.mixed:
        return h
    if h is None or h.wild or not h.indep:
        return h
    return Hom(h.deg, False)


def rename(h, suffix):
    if h is not None and h.mixed:
        return h
    """Rows selected from an array whose rows carry independent scales."""
    if h is None or h.wild or not h.indep:
        return h
    return Hom(tuple(sorted((f"{v}#{suffix}", n, m) for v, n, m in h.deg)),
               True)


# ---------------------------------------------------------------------------
# transfer functions, called by sa/shape.py after it has computed the shape

TRANSCENDENTAL = {
    "np.cos", "np.sin", "np.tan", "np.arccos", "np.arcsin", "np.arctan",
    "np.cosh", "np.sinh", "np.tanh", "np.arccosh", "np.arcsinh",
    "np.arctanh", "np.exp", "np.log", "np.log2", "np.log10", "np.expm1",
    "np.log1p"}
SAME_TAG = {               # value rearranged / copied: same scaling
    "np.copy", "np.array", "np.asarray", "np.atleast_1d", "np.negative",
    "np.delete", "np.flip", "np.ascontiguousarray",
    "np.nan_to_num"}
SAME_TAG_SHUFFLED = {      # same scaling, axes no longer "rows then coords"
    "np.roll", "np.squeeze", "np.reshape", "np.moveaxis", "np.swapaxes",
    "np.transpose", "np.tile", "np.repeat", "np.broadcast_to",
    "np.diag", "np.trace", "np.cumsum", "np.diagonal",
    "np.ravel", "np.atleast_2d"}
INVARIANT_RESULT = {       # indices, masks, counts, constants
    "np.ones", "np.ones_like", "np.identity", "np.eye", "np.full",
    "np.arange", "np.linspace", "np.isnan", "np.isclose",
    "np.logical_and", "np.logical_or", "np.logical_not", "np.all", "np.any",
    "np.isfinite", "np.isinf", "np.nonzero", "np.allclose",
    "utils.ones", "utils.identity", "utils.number", "utils.pi",
    "utils.unit_imag", "scipy.special.binom"}
ZERO_RESULT = {"np.zeros", "np.zeros_like", "utils.zeros", "np.empty",
               "np.empty_like"}
REDUCTIONS = {"np.sum", "np.mean", "np.average", "np.nansum", "np.nanmean"}


class Tracker:
    def __init__(self):
        self.events = []
        self._seen = set()
        self.fresh = 0
        self.lost = {}              # op -> count (diagnostics only)
        self.dropped = []           # (function, line) where a tag was lost
        self.tainted = None         # why no invariance proof is possible
        self.last_store_unsteady = False
        self.test_why = None        # why the test being evaluated is unsteady
        self.it = None
        import os
        self.trace = bool(os.environ.get("SA_HOM_TRACE"))

    # -- basics --------------------------------------------------------
    @staticmethod
    def of(v):
        from .shape import AArr, AScal
        if isinstance(v, (AArr, AScal)):
            return v.hom
        if isinstance(v, bool):
            return INV
        if isinstance(v, (int, float, complex)):
            return WILD if v == 0 else INV
        if isinstance(v, str):
            return INV               # a symbolic size used as a number
        if isinstance(v, (list, tuple)) and v:
            h = WILD
            for x in v:
                h = join(h, Tracker.of(x))
                if h is None:
                    return None
            return h
        return None

    def tagged(self, res, h, *operands):
        """res carrying tag h; a result aliasing an operand is copied."""
        from .shape import AArr, AScal, ANpScal, ANpBool, AIdx
        if not isinstance(res, (AArr, AScal)):
            return res
        if h is None and self.it is not None and any(
                getattr(o, "hom", None) is not None for o in operands):
            it = self.it
            self.dropped.append((it.fn_stack[-1].name if it.fn_stack
                                 else "?", getattr(it.cur_stmt, "lineno", 0)))
            import os
            if os.environ.get("SA_HOM_TRACE"):
                import ast as _a
                print("   DROP", self.dropped[-1],
                      [getattr(o, "hom", None) for o in operands],
                      _a.unparse(it.cur_stmt)[:90] if it.cur_stmt else "")
        if any(res is o for o in operands):
            if isinstance(res, AIdx):
                new = AIdx(res.shape)
            elif isinstance(res, AArr):
                new = AArr(res.shape)
            else:
                new = type(res)()
            new.hom = h
            return new
        res.hom = h
        return res

    def event(self, it, kind, msg):
        fn = it.fn_stack[-1] if it.fn_stack else None
        st = it.cur_stmt
        key = (kind, id(st))
        if key in self._seen:
            return
        self._seen.add(key)
        self.events.append({"kind": kind, "fn": fn, "stmt": st,
                            "prefix": it.stack[-1], "msg": msg,
                            "stack": [f.name for f in it.fn_stack]})

    @staticmethod
    def plain(h):
        """a tag usable in arithmetic: MIXED counts as unknown"""
        return None if h is not None and h.mixed else h

    def new_var(self, stem, m=1):
        self.fresh += 1
        return var(f"{stem}{self.fresh}", 1, m)

    @staticmethod
    def shuffled(v):
        return drop_rows(Tracker.of(v))

    # -- operators -----------------------------------------------------
    def binop(self, it, op, a, b, res):
        import ast
        from .shape import AArr, AScal
        if not isinstance(res, (AArr, AScal)):
            return res
        ha, hb = self.plain(self.of(a)), self.plain(self.of(b))
        h = None
        if isinstance(op, (ast.Add, ast.Sub)):
            if ha is not None and hb is not None:
                if ha.wild:
                    h = hb
                elif hb.wild:
                    h = ha
                elif ha.same(hb):
                    h = Hom(ha.deg, ha.indep and hb.indep)
                else:
                    one, other = (ha, hb) if ha.invariant else (hb, ha)
                    kind = "E1"
                    if one.invariant and any(m for v, n, m in other.deg):
                        # a scale-free quantity plus one that grows with
                        # the scale: no later step can undo that
                        kind = "E1c"
                    elif {v for v, n, m in ha.deg} == {v for v, n, m
                                                      in hb.deg}:
                        # both terms depend on the same representatives
                        # only, but differently (t + sqrt(t*t - ..): the
                        # first flips sign with the representative, the
                        # second does not): the sum is not homogeneous in
                        # them.  Sums over DIFFERENT representatives
                        # (q - p, a11 - 2 a12 + a22) are left alone: a later
                        # projection can make them meaningful
                        kind = "E1c"
                    self.event(it, kind,
                               f"sum of terms that scale differently "
                               f"({ha!r} {'+' if isinstance(op, ast.Add) else '-'} {hb!r})")
        elif isinstance(op, ast.Mult):
            h = combine(ha, hb, +1)
        elif isinstance(op, ast.Div):
            h = combine(ha, hb, -1)
        elif isinstance(op, ast.Pow):
            if isinstance(b, (int, float)) and not isinstance(b, bool):
                h = power(ha, b)
            elif ha is not None and hb is not None and ha.invariant \
                    and (hb.invariant or hb.wild):
                h = INV
        elif isinstance(op, ast.MatMult):
            h = combine(ha, hb, +1)
            if h is not None and not h.wild:
                keep = ha is not None and not ha.wild and ha.indep \
                    and hb is not None and hb.invariant \
                    and isinstance(b, AArr) and len(b.shape) == 2
                h = Hom(h.deg, keep)
        elif isinstance(op, (ast.BitAnd, ast.BitOr, ast.BitXor)):
            ok = not (self.unsteady(a) or self.unsteady(b))
            why = next((getattr(x, "hom", None).why for x in (a, b)
                        if getattr(getattr(x, "hom", None), "why", None)),
                       None)
            h = Hom((), False, None, ok, None if ok else why)
        elif isinstance(op, (ast.FloorDiv, ast.Mod)):
            if ha is not None and hb is not None and ha.invariant \
                    and hb.invariant:
                h = INV
        return self.tagged(res, h, a, b)

    def compare(self, it, op, a, b, res):
        """A mask is a geometric quantity (INV) when its truth values do not
        change with the scale (`steady`); `q < 0` / `q > 0` additionally
        remembers q's tag, so that np.where(q < 0, -1, 1) is known to be
        the sign of q."""
        import ast
        from .shape import AArr, AScal
        if not isinstance(res, (AArr, AScal)):
            return res
        ha, hb = self.plain(self.of(a)), self.plain(self.of(b))
        m = None
        steady = False
        order = isinstance(op, (ast.Lt, ast.Gt, ast.LtE, ast.GtE))
        if ha is not None and hb is not None:
            if ha.wild or hb.wild:
                q = hb if ha.wild else ha
                if q.wild:
                    steady = True
                else:
                    phase = any(n for v, n, mm in q.deg)
                    steady = not (order and phase)
                    if order:
                        neg = isinstance(op, (ast.Lt, ast.LtE)) == hb.wild
                        m = (q, -1 if neg else +1)
            elif ha.same(hb):
                steady = not (order and any(n for v, n, mm in ha.deg))
        why = None
        if not steady and ha is not None and hb is not None:
            why = (f"a comparison of {ha!r} with {hb!r}: which entries "
                   "pass depends on the representative")
        return self.tagged(res, Hom((), False, m, steady, why), a, b)

    def selects(self, it, mask, what):
        """A mask decides which entries are computed / kept.  If it is
        known to change with the scale, so does the result."""
        from .shape import AArr, AScal
        h = getattr(mask, "hom", None) if isinstance(
            mask, (AArr, AScal)) else None
        if h is not None and not h.wild and not h.mixed \
                and not h.steady and h.why and h.mask is None:
            self.event(it, "E6", f"{what} is selected by {h.why}")

    def unsteady(self, v):
        """v is a mask whose truth values may depend on the scale."""
        from .shape import AArr, AScal, ABool
        if isinstance(v, bool) or v is None:
            return False
        if isinstance(v, (AArr, AScal)):
            h = v.hom
            return h is None or h.mixed or (not h.wild and not h.steady)
        return False

    def taint(self, it, why, mask=None):
        h = getattr(mask, "hom", None)
        if h is not None and not h.wild and not h.mixed and h.why \
                and h.mask is None:
            self.test_why = h.why
            self.event(it, "E7", f"a test deciding a branch or a validity "
                                 f"guard is {h.why}")
        if self.tainted is None:
            fn = it.fn_stack[-1].name if it.fn_stack else "?"
            self.tainted = (f"{why} in {fn}, line "
                            f"{getattr(it.cur_stmt, 'lineno', 0)}")

    def index(self, it, v, idx, res):
        from .shape import AArr, AIdx, ANpBool
        h = self.of(v)
        if not isinstance(idx, tuple):
            idx = (idx,)
        if h is not None and any(
                isinstance(i, (AArr, ANpBool)) and self.unsteady(i)
                for i in idx):
            return self.tagged(res, None, v)     # selection may change
        if h is not None and h.mixed:
            return self.tagged(res, None, v)     # which part is selected?
        if h is None or h.wild or not h.deg:
            return self.tagged(res, h, v)
        nd = len(v.shape)
        if any(isinstance(i, (AArr, ANpBool)) and not isinstance(i, AIdx)
               and self.unsteady(i) for i in idx):
            return self.tagged(res, None, v)     # selection may change
        if any(isinstance(i, (AArr, ANpBool)) for i in idx):
            return self.tagged(res, drop_rows(h), v)
        real = [i for i in idx if i is not None and i is not Ellipsis]
        if Ellipsis in idx:
            k = idx.index(Ellipsis)
            before = [i for i in idx[:k] if i is not None]
            after = [i for i in idx[k + 1:] if i is not None]
            pos = {j: i for j, i in enumerate(before)}
            for j, i in enumerate(reversed(after)):
                pos[nd - 1 - j] = i
        else:
            pos = {j: i for j, i in enumerate(real)}
        last_taken = isinstance(pos.get(nd - 1), int) \
            and not isinstance(pos.get(nd - 1), bool)
        for ax in sorted(pos):
            i = pos[ax]
            if isinstance(i, int) and not isinstance(i, bool) \
                    and ax != nd - 1 and h.indep:
                h = rename(h, i)
        if last_taken or None in idx and idx[-1] is None:
            h = drop_rows(h)
        return self.tagged(res, h, v)

    def setitem(self, it, base, idx, v):
        from .shape import AArr, ANpBool, AIdx
        hv = self.of(v)
        if not isinstance(idx, tuple):
            idx = (idx,)
        self.last_store_unsteady = any(
            isinstance(i, (AArr, ANpBool)) and self.unsteady(i) for i in idx)
        if self.last_store_unsteady:
            for i in idx:
                self.selects(it, i, "which entries are overwritten")
            base.hom = None
            return
        nd = len(base.shape)
        last = None
        if Ellipsis in idx:
            tail = [i for i in idx[idx.index(Ellipsis) + 1:]
                    if i is not None]
            last = tail[-1] if tail else None
        else:
            real = [i for i in idx if i is not None]
            last = real[nd - 1] if len(real) >= nd else None
        coord = isinstance(last, int) or (
            isinstance(last, slice) and not (
                last.start is None and last.stop is None))
        base.hom = join(base.hom, hv, coord)

    def _reduce(self, it, a, axis, what):
        from .shape import _norm_axes
        h = self.plain(self.of(a))
        if h is None or h.wild or not h.deg:
            return h
        nd = len(a.shape)
        if axis is None:
            axes = tuple(range(nd))
        else:
            try:
                axes = tuple(_norm_axes(axis, nd))
            except Exception:
                return None
        if h.indep and any(ax != nd - 1 for ax in axes):
            self.event(it, "E3",
                       f"{what} over an axis whose entries are separate "
                       f"homogeneous vectors, each with its own arbitrary "
                       f"scale ({h!r})")
            return None
        return drop_rows(h) if (nd - 1) in axes else h

    def method(self, it, recv, name, args, kw, res):
        from .shape import AArr, AScal
        if name in ("any", "all"):
            if self.unsteady(recv):
                self.taint(it, "a branch is decided by a test whose outcome "
                               "may change with the scale", recv)
            if isinstance(res, (AArr, AScal)):
                return self.tagged(res, Hom((), False, None,
                                            not self.unsteady(recv)), recv)
            return res
        if not isinstance(res, (AArr, AScal)):
            return res
        h = self.of(recv)
        if name in ("astype", "copy"):
            return self.tagged(res, h, recv)
        if name in ("max", "min", "argmax", "argmin", "argsort"):
            ok = h is not None and (h.invariant or h.wild)
            return self.tagged(res, INV if ok else None, recv)
        if name == "conjugate" or name == "conj":
            return self.tagged(res, conj(h), recv)
        if name in ("squeeze", "reshape", "swapaxes", "flatten", "ravel",
                    "transpose"):
            if res is recv:
                return res
            return self.tagged(res, drop_rows(h), recv)
        if h is not None and h.mixed and name not in (
                "astype", "copy", "squeeze", "reshape", "swapaxes",
                "flatten", "ravel", "transpose"):
            return self.tagged(res, None, recv)
        if name == "view":
            # complex -> (re, im): fine unless the value turns with a
            # complex phase
            if h is not None and not h.wild and any(
                    n for v, n, m in h.deg
                    if v.split("#")[0] in COMPLEX_VARS):
                self.event(it, "E5", "real and imaginary parts of a "
                           f"quantity that turns with the phase of a "
                           f"complex scale ({h!r})")
                return self.tagged(res, None, recv)
            return self.tagged(res, drop_rows(h), recv)
        if name in ("sum", "mean"):
            axis = kw.get("axis", args[0] if args else None)
            return self.tagged(res, self._reduce(it, recv, axis,
                                                 f".{name}()"), recv)
        return self.tagged(res, None, recv)

    # -- calls -----------------------------------------------------------
    def call(self, it, e, name, args, kw, res):
        from .shape import AArr, AScal, AObj
        if isinstance(res, tuple) and name in (
                "np.linalg.eig", "np.linalg.eigh", "utils.eig", "utils.eigh",
                "eig", "eigh") and len(res) == 2 and args:
            h = drop_rows(self.of(args[0]))
            vals = self.tagged(res[0], h)
            # LAPACK returns eigenvectors of Euclidean length 1: only their
            # sign (phase) is arbitrary
            vecs = self.tagged(res[1], self.new_var("eigvec", 0))
            return (vals, vecs)
        if name in ("np.any", "np.all") and args:
            if self.unsteady(args[0]):
                self.taint(it, "a branch is decided by a test whose outcome "
                               "may change with the scale", args[0])
            if isinstance(res, (AArr, AScal)):
                return self.tagged(res, Hom((), False, None,
                                            not self.unsteady(args[0])))
            return res
        if name in ("np.putmask", "np.copyto", "np.place") and len(args) >= 3:
            tgt = args[0]
            if isinstance(tgt, AArr):
                mask, vals = (args[1], args[2]) if name != "np.copyto" \
                    else (kw.get("where"), args[1])
                tgt.hom = None if self.unsteady(mask) else \
                    join(tgt.hom, self.of(vals))
            return res
        if name == "np.put_along_axis" and len(args) >= 3 \
                and isinstance(args[0], AArr):
            args[0].hom = join(args[0].hom, self.of(args[2]))
            return res
        if not isinstance(res, (AArr, AScal)):
            return res
        fn = it.lookup(name)
        kind = None
        if fn is not None:
            kind = it.factory.get(id(fn))
            mf = fn.name if any(
                getattr(d, "id", None) == "matrix_func"
                for d in fn.decorator_list) else None
            if kind is None and mf is None:
                return res           # interpreted: tags came from its body
            if mf == "kernel":
                name = "utils.kernel"
            elif mf == "invert":
                name = "utils.invert"
            elif kind is not None:
                name = "utils." + kind
        a0 = args[0] if args else None
        h0 = self.of(a0)
        moving = name in SAME_TAG or name in SAME_TAG_SHUFFLED or name in (
            "utils.array_like", "np.expand_dims", "np.stack",
            "np.concatenate", "np.vstack", "np.hstack", "np.column_stack",
            "np.where")
        if not moving:
            h0 = self.plain(h0)
        ops = [x for x in args if isinstance(x, (AArr, AScal))] + \
            [x for x in kw.values() if isinstance(x, (AArr, AScal))]

        def out(h):
            return self.tagged(res, h, *ops)

        if name in ZERO_RESULT:
            return out(WILD)
        if name in ("np.isnan", "np.isfinite", "np.isinf"):
            return out(INV if h0 is not None else Hom((), False, None, False))
        if name in ("np.isclose", "np.allclose"):
            ok = h0 is not None and (h0.invariant or h0.wild) and all(
                (lambda z: z is not None and (z.invariant or z.wild))(
                    self.of(x)) for x in args[1:2])
            why = None
            h1 = self.plain(self.of(args[1])) if len(args) > 1 else INV
            if not ok and h0 is not None and h1 is not None \
                    and not h0.wild and not (h0.invariant and (
                        h1.invariant or h1.wild)):
                why = (f"np.isclose applies a fixed tolerance to {h0!r}: "
                       "which entries pass depends on the representative")
            return out(Hom((), False, None, ok, why))
        if name in ("np.logical_and", "np.logical_or", "np.logical_not"):
            ok = not any(self.unsteady(x) for x in args)
            why = next((x.hom.why for x in args
                        if getattr(getattr(x, "hom", None), "why", None)),
                       None)
            return out(Hom((), False, None, ok, None if ok else why))
        if name in INVARIANT_RESULT:
            return out(INV)
        if name in SAME_TAG or name == "utils.array_like":
            return out(h0)
        if name == "np.expand_dims":
            axis = kw.get("axis", args[1] if len(args) > 1 else None)
            keep = isinstance(axis, int) and axis not in (
                -1, len(a0.shape) if isinstance(a0, AArr) else -1)
            return out(h0 if keep else drop_rows(h0))
        if name in SAME_TAG_SHUFFLED:
            return out(drop_rows(h0))
        if name in ("np.conjugate", "np.conj"):
            return out(conj(h0))
        if name in ("np.real", "np.imag"):
            if h0 is not None and not h0.wild and any(
                    n for v, n, m in h0.deg
                    if v.split("#")[0] in COMPLEX_VARS):
                self.event(it, "E5", f"{name} of a quantity that turns with "
                                     f"the phase of a complex scale ({h0!r})")
                return out(None)
            return out(h0)
        if name in ("np.sqrt", "np.emath.sqrt"):
            return out(power(h0, Fr(1, 2)))
        if name == "np.square":
            return out(power(h0, 2))
        if name == "np.power" and len(args) > 1:
            return out(power(h0, args[1]) if isinstance(
                args[1], (int, float)) else None)
        if name in ("np.abs", "np.absolute", "abs"):
            return out(absolute(h0))
        if name == "np.linalg.norm":
            axis = kw.get("axis", args[1] if len(args) > 1 else None)
            return out(absolute(self._reduce(it, a0, axis, "norm"))
                       if isinstance(a0, AArr) else absolute(h0))
        if name == "np.sign":
            return out(sign_of(h0))
        if name in TRANSCENDENTAL:
            if h0 is None:
                return out(None)
            if h0.wild or h0.invariant:
                return out(INV)
            self.event(it, "E2",
                       f"{name} of a quantity that changes with the scale "
                       f"of the homogeneous coordinates ({h0!r})")
            return out(None)
        if name == "np.arctan2" and len(args) == 2:
            h1 = self.plain(self.of(args[1]))
            if h0 is None or h1 is None:
                return out(None)
            j = join(h0, h1)
            if j is not None and (j.wild or not any(n for v, n, m in j.deg)):
                return out(INV)
            self.event(it, "E2",
                       f"np.arctan2 of components that do not share a "
                       f"positive common factor under rescaling "
                       f"({h0!r}, {h1!r}): the angle changes")
            return out(None)
        if name == "np.angle":
            if h0 is None:
                return out(None)
            if h0.wild or not any(n for v, n, m in h0.deg):
                return out(INV)
            self.event(it, "E2", f"np.angle of a quantity that turns with "
                                 f"the scale ({h0!r})")
            return out(None)
        if name == "np.hypot" and len(args) == 2:
            j = self.plain(join(h0, self.plain(self.of(args[1]))))
            return out(absolute(j))
        if name in ("np.maximum", "np.minimum") and len(args) == 2:
            j = self.plain(join(h0, self.plain(self.of(args[1]))))
            if j is not None and not j.wild and any(n for v, n, m in j.deg):
                j = None             # a negative factor swaps max and min
            return out(j)
        if name == "np.real_if_close":
            if h0 is None or h0.wild or h0.invariant:
                return out(h0)
            self.event(it, "E2", "np.real_if_close drops imaginary parts "
                                 "below an ABSOLUTE tolerance (tol machine "
                                 f"epsilons) of a quantity that scales with "
                                 f"the representative ({h0!r})")
            return out(None)
        if name == "np.clip" and len(args) == 3:
            # clamping to fixed bounds is meaningful for scale-free values
            j = h0
            for x in args[1:]:
                j = self.plain(join(j, self.plain(self.of(x)))) \
                    if j is not None else None
            if j is not None and not j.wild and any(n for v, n, m in j.deg):
                j = None
            return out(j)
        if name in ("np.argsort", "np.argmax", "np.argmin", "np.lexsort",
                    "np.sort", "np.max", "np.min", "np.amax", "np.amin",
                    "np.count_nonzero", "np.unique"):
            # an ordering / count is a geometric quantity only when it is
            # taken of scale-free values
            hs = [self.of(x) for x in args[:1]]
            if name == "np.count_nonzero":
                ok = not self.unsteady(a0)
            else:
                ok = all(h is not None and (h.invariant or h.wild)
                         for h in hs)
            return out(INV if ok else None)
        if name == "np.take_along_axis" and len(args) >= 2:
            hi = self.of(args[1])
            if hi is None:
                return out(None)
            return out(drop_rows(h0))
        if name == "np.where" and len(args) == 3:
            c = self.of(args[0])
            x, y = args[1], args[2]
            if c is not None and not c.wild and c.mask is not None \
                    and all(isinstance(z, (int, float))
                            and not isinstance(z, bool) for z in (x, y)) \
                    and x == -y and x != 0:
                # +-1 according to the sign of q: scales like sign(q)
                return out(sign_of(c.mask[0]))
            if self.unsteady(args[0]):
                self.selects(it, args[0], "which of the two values is taken")
                return out(None)
            return out(join(self.of(x), self.of(y)))
        if name == "np.divide" and len(args) >= 2:
            h = combine(h0, self.plain(self.of(args[1])), -1)
            w = kw.get("where")
            if w is not None:
                self.selects(it, w, "where the quotient is formed")
                if self.unsteady(w):
                    h = None
            o = kw.get("out")
            if isinstance(o, AArr):
                # valid-input assumption: the entries `where=` leaves alone
                # are the degenerate ones the mask exists for
                o.hom = h
                return o
            return out(h)
        if name in ("np.stack", "np.concatenate", "np.vstack", "np.hstack",
                    "np.column_stack"):
            axis = kw.get("axis", args[1] if len(args) > 1 else 0)
            coord = False
            if name in ("np.stack", "np.concatenate") \
                    and isinstance(res, AArr) and isinstance(axis, int):
                coord = axis in (-1, len(res.shape) - 1)
            h = WILD
            for x in (a0 if isinstance(a0, (list, tuple)) else [a0]):
                h = join(h, self.of(x), coord)
                if h is None:
                    break
            return out(drop_rows(h))
        if name in REDUCTIONS:
            axis = kw.get("axis", args[1] if len(args) > 1 else None)
            if isinstance(a0, AArr):
                return out(self._reduce(it, a0, axis, name))
            return out(h0)
        if name in ("np.linalg.inv", "utils.invert"):
            return out(drop_rows(power(h0, -1)))
        if name in ("np.linalg.det", "utils.det", "det"):
            if isinstance(a0, AArr) and a0.shape \
                    and isinstance(a0.shape[-1], int):
                return out(drop_rows(power(h0, a0.shape[-1])))
            return out(INV if h0 is not None and h0.invariant else None)
        if name in ("np.matmul", "np.dot", "np.cross", "np.outer",
                    "np.multiply") and len(args) == 2:
            return out(drop_rows(combine(h0, self.plain(self.of(args[1])),
                                         +1)))
        if name == "utils.kernel":
            return out(self.new_var("kernel", 0))   # orthonormal, sign free
        if name in ("float", "int", "np.float64"):
            return out(h0)
        self.lost[name] = self.lost.get(name, 0) + 1
        return out(None)
