"""Rules for automata/fsa.py: V1 (no shared cells), V2 (write completeness),
B1 (container belief), B2 (vivifying read), P1 (purity of non-in-place ops)."""
import ast

from ..project import AnalysisError, loc, norm_stmt
from ..flow import Interp, dotted, eval_test, MUTATING_METHODS

FSA_REL = "geometry_tools/automata/fsa.py"
LIST_VIEWS = {"_out_dict": "out", "_in_dict": "in", "out_dict": "out",
              "in_dict": "in"}
ALL_VIEWS = dict(LIST_VIEWS, _graph_dict="graph", graph_dict="graph")

COPY_CALLS = {"list", "copy.copy", "copy.deepcopy", "deepcopy", "copy",
              "sorted", "tuple", "set", "dict", "frozenset"}


def fsa_class(ctx):
    return ctx.p.get_class(FSA_REL, "FSA")


def view_of(expr):
    """'out'/'in'/'graph' if expr is self.<view attr>, else None."""
    if isinstance(expr, ast.Attribute) and isinstance(expr.value, ast.Name) \
            and expr.value.id == "self":
        return ALL_VIEWS.get(expr.attr)
    return None


def sub_chain(expr):
    """Subscript chain -> (base expr, [index exprs])."""
    idx = []
    while isinstance(expr, ast.Subscript):
        idx.append(expr.slice)
        expr = expr.value
    return expr, list(reversed(idx))


# ---------------------------------------------------------------------------
# value kinds for B1


def value_kind(expr, fnode, depth=0):
    """'plain' | 'vivifying' | 'unknown' for a would-be second-level dict."""
    if isinstance(expr, (ast.Dict, ast.DictComp)):
        return "plain"
    if isinstance(expr, ast.Call):
        name = dotted(expr.func)
        if name in ("dict", "OrderedDict", "collections.OrderedDict"):
            return "plain"
        if name in ("defaultdict", "collections.defaultdict", "Counter",
                    "collections.Counter"):
            return "vivifying"
        if name in ("copy.copy", "copy.deepcopy", "copy", "deepcopy") \
                and expr.args:
            return value_kind(expr.args[0], fnode, depth)
    if isinstance(expr, ast.Name) and depth < 3:
        defs = [n for n in ast.walk(fnode)
                if isinstance(n, ast.Assign) and len(n.targets) == 1
                and isinstance(n.targets[0], ast.Name)
                and n.targets[0].id == expr.id]
        if len(defs) == 1:
            return value_kind(defs[0].value, fnode, depth + 1)
        if not defs:
            # a row of the caller's dictionary: the loop / comprehension
            # variable over <param>.items() / .values()
            params = {p.arg for p in fnode.args.args}
            for n in ast.walk(fnode):
                gens = n.generators if isinstance(
                    n, (ast.DictComp, ast.ListComp, ast.SetComp,
                        ast.GeneratorExp)) else (
                    [n] if isinstance(n, ast.For) else [])
                for g in gens:
                    it = g.iter
                    if isinstance(it, ast.Call) and isinstance(
                            it.func, ast.Attribute) and it.func.attr in (
                            "items", "values") and isinstance(
                            it.func.value, ast.Name) \
                            and it.func.value.id in params and any(
                                isinstance(x, ast.Name) and x.id == expr.id
                                for x in ast.walk(g.target)):
                        return "caller"
    return "unknown"


def values_kind(expr, fnode, depth=0):
    """Kind of the *values* of a whole first-level dict expression."""
    if isinstance(expr, ast.DictComp):
        return value_kind(expr.value, fnode)
    if isinstance(expr, ast.Dict):
        ks = {value_kind(v, fnode) for v in expr.values}
        if "vivifying" in ks:
            return "vivifying"
        return "plain" if ks <= {"plain"} else "unknown"
    if isinstance(expr, ast.Call):
        name = dotted(expr.func)
        if name in ("defaultdict", "collections.defaultdict"):
            if not expr.args:
                return "plain"
            fac = expr.args[0]
            if isinstance(fac, ast.Name) and fac.id == "dict":
                return "plain"
            if isinstance(fac, ast.Lambda):
                return value_kind(fac.body, fnode)
            if isinstance(fac, ast.Name) and fac.id == "defaultdict":
                return "vivifying"
            return "unknown"
        if name in ("copy.deepcopy", "copy.copy", "deepcopy", "copy", "dict") \
                and expr.args:
            a = expr.args[0]
            if isinstance(a, ast.Name) and depth < 3:
                params = {p.arg for p in fnode.args.args}
                if a.id in params:
                    return "caller"
            return values_kind(a, fnode, depth + 1)
    if isinstance(expr, ast.Name) and depth < 3:
        defs = [n for n in ast.walk(fnode)
                if isinstance(n, ast.Assign) and len(n.targets) == 1
                and isinstance(n.targets[0], ast.Name)
                and n.targets[0].id == expr.id]
        if len(defs) == 1:
            return values_kind(defs[0].value, fnode, depth + 1)
    return "unknown"


def rule_b1(ctx, min_beliefs=3, min_stores=3):
    r = ctx.r
    r.rule("B1", "code that relies on KeyError from graph_dict[v][label] "
                 "(try/except KeyError around the lookup) contradicts any "
                 "store that puts an auto-vivifying container into "
                 "_graph_dict[.]")
    cls = fsa_class(ctx)
    gd = cls.methods.get("graph_dict")
    if gd is None or not gd.is_property:
        raise AnalysisError("FSA.graph_dict property has vanished")
    rets = [n for n in ast.walk(gd.node) if isinstance(n, ast.Return)]
    if len(rets) != 1 or dotted(rets[0].value) != "self._graph_dict":
        raise AnalysisError("FSA.graph_dict no longer returns self._graph_dict")
    beliefs = []
    for f in cls.methods.values():
        for n in ast.walk(f.node):
            if not isinstance(n, ast.Try):
                continue
            catches = any(
                h.type is not None and "KeyError" in dotted(h.type)
                for h in n.handlers)
            if not catches:
                continue
            for s in n.body:
                for e in ast.walk(s):
                    if isinstance(e, ast.Subscript) \
                            and isinstance(e.ctx, ast.Load):
                        base, idx = sub_chain(e)
                        if view_of(base) == "graph" and len(idx) == 2:
                            beliefs.append((f, e))
    r.require_count("B1", "KeyError beliefs on the label view",
                    len(beliefs), min_beliefs)
    for f, e in beliefs:
        r.analysed(f)
    # stores into the label view anywhere in the project
    stores = []
    for f in ctx.p.all_functions:
        if f.parent is not None:
            continue
        for n in ast.walk(f.node):
            if isinstance(n, ast.Assign):
                for t in n.targets:
                    if isinstance(t, ast.Subscript):
                        base, idx = sub_chain(t)
                        if isinstance(base, ast.Attribute) \
                                and base.attr in ("_graph_dict", "graph_dict") \
                                and len(idx) == 1:
                            stores.append((f, n, "cell",
                                           value_kind(n.value, f.node)))
                    elif isinstance(t, ast.Attribute) \
                            and t.attr == "_graph_dict":
                        stores.append((f, n, "whole",
                                       values_kind(n.value, f.node)))
    r.require_count("B1", "stores into the label view", len(stores),
                    min_stores)
    for f, n, how, kind in stores:
        r.analysed(f)
        where = loc(f, n)
        con = norm_stmt(n)
        if kind == "vivifying":
            r.violation(
                "B1", f"{f.fq}|{con}", where, con,
                f"{len(beliefs)} lookups ({', '.join(sorted({b[0].qualname for b in beliefs}))}) "
                "rely on KeyError for a missing label, but this store puts an "
                "auto-vivifying container into the label view: a rejected "
                "word is then 'followed' to a bogus state and accepts() "
                "returns True", instance=f"{f.qualname}:{how}")
        elif kind == "unknown":
            r.note("B1", where, con,
                   "cannot classify the stored container; assumed plain dict")
            r.ok("B1", f"{f.qualname}:{how}", where, con,
                 "unclassified container (assumed plain)")
        else:
            r.ok("B1", f"{f.qualname}:{how}", where, con,
                 f"stores a {kind} dict; KeyError belief of "
                 f"{len(beliefs)} lookups holds")


# ---------------------------------------------------------------------------
# B2


READ_ONLY = ["has_edge", "edge_label", "edge_labels", "edges_out", "edges_in",
             "neighbors_out", "neighbors_in", "vertices", "edges",
             "follow_word", "accepts", "initial_accepted_subword",
             "initial_rejected_subword", "enumerate_fixed_length_paths",
             "enumerate_words", "__str__", "__repr__"]


def _cells_vivify(ctx, cls):
    """Does any store put defaultdict(...) into a first-level cell of the
    out/in views?"""
    hits = []
    for f in cls.methods.values():
        for n in ast.walk(f.node):
            if isinstance(n, ast.Call) and dotted(n.func) in (
                    "defaultdict", "collections.defaultdict") and n.args \
                    and dotted(n.args[0]) == "list":
                hits.append((f, n))
    return hits


def _guarded(f, node, base_txt, key_txt):
    """Is `key in base` established on the path to node?"""
    parents = f.module.parents
    cur = node
    while cur is not f.node:
        par = parents[cur]
        test = None
        if isinstance(par, ast.If) and cur in par.body:
            test = par.test
        elif isinstance(par, ast.IfExp) and cur is par.body:
            test = par.test
        elif isinstance(par, ast.BoolOp) and isinstance(par.op, ast.And):
            i = par.values.index(cur) if cur in par.values else -1
            for v in par.values[:max(i, 0)]:
                if _is_membership(v, base_txt, key_txt):
                    return True
        if test is not None:
            for v in ast.walk(test):
                if _is_membership(v, base_txt, key_txt):
                    return True
        cur = par
    return False


def _is_membership(v, base_txt, key_txt):
    return (isinstance(v, ast.Compare) and len(v.ops) == 1
            and isinstance(v.ops[0], ast.In)
            and dotted(v.left) == key_txt
            and dotted(v.comparators[0]) == base_txt)


def rule_b2(ctx, min_queries=10):
    r = ctx.r
    r.rule("B2", "a read-only query must not subscript a second-level "
                 "defaultdict(list) cell view[v][w] with a key not "
                 "established present (the read would insert a phantom "
                 "neighbour)")
    cls = fsa_class(ctx)
    viv = _cells_vivify(ctx, cls)
    present = [q for q in READ_ONLY if q in cls.methods]
    r.require_count("B2", "read-only queries", len(present), min_queries)
    for q in present:
        f = cls.methods[q]
        r.analysed(f)
        sites = []
        for n in ast.walk(f.node):
            if isinstance(n, ast.Subscript) and isinstance(n.ctx, ast.Load):
                base, idx = sub_chain(n)
                if view_of(base) in ("out", "in") and len(idx) == 2:
                    # only the outermost two-level node
                    sites.append((n, base, idx))
        if not sites:
            r.ok("B2", f.qualname, loc(f, f.node), "",
                 "no two-level subscript read of the out/in views")
            continue
        for n, base, idx in sites:
            con = dotted(n)
            first = ast.Subscript(value=base, slice=idx[0], ctx=ast.Load())
            if _guarded(f, n, dotted(first), dotted(idx[1])):
                r.ok("B2", f"{f.qualname}:{con}", loc(f, n), con,
                     "membership of the key is tested first")
            elif not viv:
                r.ok("B2", f"{f.qualname}:{con}", loc(f, n), con,
                     "cells are plain dicts (KeyError, no insertion)")
            else:
                r.violation(
                    "B2", f"{f.fq}|{con}", loc(f, n), con,
                    f"{f.qualname} is a read-only query but {con} indexes a "
                    "defaultdict(list) cell (stored by "
                    f"{', '.join(sorted({h[0].qualname for h in viv}))}) with "
                    "a key that need not be present: the read inserts a "
                    "phantom neighbour that neighbors_out/recurrent() later "
                    "treat as an edge", instance=f"{f.qualname}:{con}")


# ---------------------------------------------------------------------------
# V1


def _is_copy(expr):
    if isinstance(expr, ast.Call):
        name = dotted(expr.func)
        if name in COPY_CALLS:
            return True
        if isinstance(expr.func, ast.Attribute) and expr.func.attr == "copy":
            return True
    if isinstance(expr, ast.Subscript) and isinstance(expr.slice, ast.Slice):
        return True          # list slice copies
    if isinstance(expr, (ast.List, ast.ListComp, ast.Dict, ast.DictComp,
                         ast.BinOp, ast.Constant, ast.Set, ast.SetComp)):
        return True
    return False


class _V1:
    """Tiny taint pass: which names hold a cell (element) of a list view."""

    def __init__(self, f, summaries):
        self.f = f
        self.summaries = summaries
        self.env = {}          # name -> (view, depth)
        self.viewlocals = {}   # local name -> view it is assigned to
        self.findings = []
        self.sinks = []        # (stmt, target text, value expr)
        for n in ast.walk(f.node):
            if isinstance(n, ast.Assign) and isinstance(n.value, ast.Name):
                for t in n.targets:
                    v = view_of(t)
                    if v in ("out", "in"):
                        self.viewlocals[n.value.id] = v
            if isinstance(n, ast.Return) and isinstance(n.value, ast.Name):
                pass

    def root(self, e):
        if isinstance(e, ast.Name):
            if e.id in self.env:
                return self.env[e.id]
            if e.id in self.viewlocals:
                return (self.viewlocals[e.id], 0)
            return None
        v = view_of(e)
        if v in ("out", "in"):
            return (v, 0)
        if isinstance(e, ast.Subscript):
            if isinstance(e.slice, ast.Slice):
                return None
            b = self.root(e.value)
            return None if b is None else (b[0], b[1] + 1)
        if isinstance(e, ast.Call):
            if _is_copy(e):
                return None
            if isinstance(e.func, ast.Attribute):
                if e.func.attr in ("get", "setdefault", "pop"):
                    b = self.root(e.func.value)
                    return None if b is None else (b[0], b[1] + 1)
                if isinstance(e.func.value, ast.Name) \
                        and e.func.value.id == "self":
                    s = self.summaries.get(e.func.attr)
                    if s is not None:
                        return s
        return None

    def bind_iter(self, target, it):
        """for target in it"""
        if isinstance(it, ast.Call) and isinstance(it.func, ast.Name) \
                and it.func.id in ("list", "sorted", "tuple", "reversed",
                                   "enumerate", "iter") and it.args:
            if it.func.id == "enumerate" and isinstance(target, ast.Tuple) \
                    and len(target.elts) == 2:
                return self.bind_iter(target.elts[1], it.args[0])
            return self.bind_iter(target, it.args[0])
        if isinstance(it, ast.Call) and isinstance(it.func, ast.Attribute):
            b = self.root(it.func.value)
            if it.func.attr == "items" and b is not None:
                if isinstance(target, ast.Tuple) and len(target.elts) == 2 \
                        and isinstance(target.elts[1], ast.Name):
                    self.env[target.elts[1].id] = (b[0], b[1] + 1)
                    if isinstance(target.elts[0], ast.Name):
                        self.env.pop(target.elts[0].id, None)
                return
            if it.func.attr == "values" and b is not None:
                if isinstance(target, ast.Name):
                    self.env[target.id] = (b[0], b[1] + 1)
                return
        for n in ast.walk(target):
            if isinstance(n, ast.Name):
                self.env.pop(n.id, None)

    def run(self):
        self.block(self.f.node.body)
        # same object stored in two view cells
        byname = {}
        seen_st = set()
        uniq = []
        for st, tgt, val in self.sinks:
            if (id(st), tgt) in seen_st:
                continue
            seen_st.add((id(st), tgt))
            uniq.append((st, tgt, val))
        self.sinks = uniq
        for st, tgt, val in self.sinks:
            if isinstance(val, ast.Name):
                byname.setdefault(val.id, []).append((st, tgt))
        for name, lst in byname.items():
            if len(lst) >= 2 and name not in self.env:
                defs = [n for n in ast.walk(self.f.node)
                        if isinstance(n, ast.Assign)
                        and any(isinstance(t, ast.Name) and t.id == name
                                for t in n.targets)]
                if all(_is_immutable_def(d.value) for d in defs) and defs:
                    continue
                st, tgt = lst[1]
                self.findings.append(
                    (st, f"the object bound to '{name}' is stored into "
                         f"{lst[0][1]} and {tgt}: two view cells are the "
                         "same list"))
        return self

    def block(self, body):
        for st in body:
            self.stmt(st)

    def stmt(self, st):
        if isinstance(st, ast.Assign):
            for c in ast.walk(st.value):
                if isinstance(c, (ast.DictComp, ast.ListComp, ast.SetComp,
                                  ast.GeneratorExp)):
                    for g in c.generators:
                        self.bind_iter(g.target, g.iter)
            vr = self.root(st.value)
            cell_targets = []
            for t in st.targets:
                if isinstance(t, ast.Name):
                    if vr is not None:
                        self.env[t.id] = vr
                    else:
                        self.env.pop(t.id, None)
                elif isinstance(t, ast.Subscript):
                    b = self.root(t.value)
                    if b is not None:
                        cell_targets.append(t)
                        self.sinks.append((st, dotted(t), st.value))
                        if vr is not None and vr[1] >= 1:
                            self.findings.append(
                                (st, f"a cell of the {vr[0]} view "
                                     f"({dotted(st.value)}) is stored "
                                     f"uncopied into {dotted(t)}: both views "
                                     "then hold the same list object"))
            if len(cell_targets) >= 2 and not _is_immutable_def(st.value):
                self.findings.append(
                    (st, "one object is assigned to "
                         f"{' and '.join(dotted(t) for t in cell_targets)}"))
            return
        if isinstance(st, ast.For):
            self.bind_iter(st.target, st.iter)
            self.block(st.body)
            self.block(st.body)
            self.block(st.orelse)
            return
        if isinstance(st, ast.While):
            self.block(st.body)
            self.block(st.body)
            return
        if isinstance(st, ast.If):
            self.block(st.body)
            self.block(st.orelse)
            return
        if isinstance(st, ast.With):
            self.block(st.body)
            return
        if isinstance(st, ast.Try):
            self.block(st.body)
            for h in st.handlers:
                self.block(h.body)
            self.block(st.orelse)
            self.block(st.finalbody)
            return
        if isinstance(st, ast.Expr) and isinstance(st.value, ast.Call):
            c = st.value
            if isinstance(c.func, ast.Attribute) \
                    and c.func.attr in ("setdefault",) and len(c.args) == 2:
                b = self.root(c.func.value)
                vr = self.root(c.args[1])
                if b is not None:
                    self.sinks.append((st, dotted(c.func.value), c.args[1]))
                    if vr is not None and vr[1] >= 1:
                        self.findings.append(
                            (st, f"a cell of the {vr[0]} view is stored "
                                 f"uncopied via setdefault into "
                                 f"{dotted(c.func.value)}"))


def _is_immutable_def(v):
    return isinstance(v, ast.Constant) or (
        isinstance(v, ast.Tuple) and all(isinstance(e, ast.Constant)
                                         for e in v.elts))


def _method_return_roots(cls):
    """One-level summaries: self.m(...) returns a cell of a view."""
    out = {}
    for name, f in cls.methods.items():
        rets = [n for n in ast.walk(f.node) if isinstance(n, ast.Return)
                and n.value is not None]
        if len(rets) != 1:
            continue
        v = _V1(f, {})
        rt = v.root(rets[0].value)
        if rt is not None:
            out[name] = rt
    return out


def rule_v1(ctx, min_cell_stores=5):
    r = ctx.r
    r.rule("V1", "no list/dict cell of the out view is stored uncopied into "
                 "the in view (or vice versa), and no single object is "
                 "stored into two view cells")
    cls = fsa_class(ctx)
    summ = _method_return_roots(cls)
    nstores = 0
    funcs = list(cls.methods.values()) + [
        f for f in ctx.p.module_by_rel(FSA_REL).functions.values()]
    for f in funcs:
        v = _V1(f, summ).run()
        if not v.sinks and not v.findings:
            continue
        r.analysed(f)
        nstores += len(v.sinks)
        bad = {id(st) for st, _ in v.findings}
        for st, tgt, val in v.sinks:
            if id(st) not in bad:
                r.ok("V1", f"{f.qualname}:{norm_stmt(st)}", loc(f, st),
                     norm_stmt(st), "value is fresh / copied")
        seen = set()
        for st, why in v.findings:
            con = norm_stmt(st)
            if (con, why) in seen:
                continue
            seen.add((con, why))
            r.violation(
                "V1", f"{f.fq}|{con}", loc(f, st), con,
                why + "; a later in-place edit of one view (add_edges "
                      "appends to both cells) then lists the edge twice",
                instance=f"{f.qualname}:{con}")
    r.require_count("V1", "stores into cells of the out/in views", nstores,
                    min_cell_stores)


# ---------------------------------------------------------------------------
# V2


def _view_aliases(scope_nodes):
    """local name -> (view base expr, [index exprs]) for plain aliases such
    as `cells = self._out_dict[tail]` (single assignment, no call)."""
    cand, count = {}, {}
    for st in scope_nodes:
        for n in ast.walk(st):
            if isinstance(n, ast.Assign):
                for t in n.targets:
                    for x in ast.walk(t):
                        if isinstance(x, ast.Name) \
                                and isinstance(x.ctx, ast.Store):
                            count[x.id] = count.get(x.id, 0) + 1
                if len(n.targets) == 1 and isinstance(n.targets[0], ast.Name) \
                        and isinstance(n.value, (ast.Subscript,
                                                 ast.Attribute)):
                    cand[n.targets[0].id] = n.value
            elif isinstance(n, (ast.For, ast.comprehension)):
                for x in ast.walk(n.target):
                    if isinstance(x, ast.Name):
                        count[x.id] = count.get(x.id, 0) + 2
    out = {}
    for name, val in cand.items():
        if count.get(name) != 1:
            continue
        base, idx = sub_chain(val)
        if view_of(base):
            out[name] = (base, idx)
    # aliases of aliases
    for name, val in cand.items():
        if count.get(name) == 1 and name not in out:
            base, idx = sub_chain(val)
            if isinstance(base, ast.Name) and base.id in out:
                b0, i0 = out[base.id]
                out[name] = (b0, i0 + idx)
    return out


def _chain(expr, aliases):
    base, idx = sub_chain(expr)
    if isinstance(base, ast.Name) and base.id in aliases:
        b0, i0 = aliases[base.id]
        return b0, i0 + idx
    return base, idx


def _writes_in(nodes, scope=None, cls=None, _depth=0):
    """(view, [index texts], kind, stored text) for writes in a stmt list;
    local aliases of a view cell (defined anywhere in `scope`, default the
    statements themselves) are seen through, and (with `cls`) so are calls
    of the class's own helper methods (parameters replaced by the argument
    texts, one level)."""
    out = []
    aliases = _view_aliases(scope if scope is not None else nodes)
    if cls is not None and _depth < 2:
        for st in nodes:
            for n in ast.walk(st):
                if isinstance(n, ast.Call) and isinstance(n.func, ast.Attribute) \
                        and isinstance(n.func.value, ast.Name) \
                        and n.func.value.id == "self" \
                        and n.func.attr in cls.methods \
                        and n.func.attr.startswith("_"):
                    g = cls.methods[n.func.attr]
                    params = g.params[1:]
                    sub = {p: dotted(a) for p, a in zip(params, n.args)}
                    sub.update({k.arg: dotted(k.value) for k in n.keywords
                                if k.arg})
                    for x in _writes_in(g.node.body, g.node.body, cls,
                                        _depth + 1):
                        idx = [sub.get(i, i) for i in x[1]]
                        out.append((x[0], idx, x[2], sub.get(x[3], x[3]),
                                    x[4]))

    def sub_chain(e):
        return _chain(e, aliases)
    for st in nodes:
        for n in ast.walk(st):
            if isinstance(n, ast.Assign):
                for t in n.targets:
                    base, idx = sub_chain(t)
                    v = view_of(base)
                    if v and idx:
                        out.append((v, [dotted(i) for i in idx], "assign",
                                    dotted(n.value), n))
            elif isinstance(n, ast.AugAssign):
                base, idx = sub_chain(n.target)
                v = view_of(base)
                if v and idx:
                    out.append((v, [dotted(i) for i in idx], "aug",
                                dotted(n.value), n))
            elif isinstance(n, ast.Call) and isinstance(n.func, ast.Attribute) \
                    and n.func.attr in ("append", "extend", "pop",
                                        "setdefault", "update"):
                base, idx = sub_chain(n.func.value)
                v = view_of(base)
                if v:
                    out.append((v, [dotted(i) for i in idx], n.func.attr,
                                ", ".join(dotted(a) for a in n.args), n))
    return out


def _views_set_transitively(cls, f, seen=None):
    seen = seen or set()
    if f.name in seen:
        return set()
    seen.add(f.name)
    got = set()
    for n in ast.walk(f.node):
        if isinstance(n, ast.Assign):
            for t in n.targets:
                v = view_of(t)
                if v:
                    got.add(v)
        if isinstance(n, ast.Call) and isinstance(n.func, ast.Attribute) \
                and isinstance(n.func.value, ast.Name) \
                and n.func.value.id == "self" and n.func.attr in cls.methods:
            if n.func.attr.startswith("_build") or \
                    n.func.attr.startswith("_from"):
                got |= _views_set_transitively(cls, cls.methods[n.func.attr],
                                               seen)
    return got


def _arm_views(cls, stmts):
    got = set()
    for st in stmts:
        for n in ast.walk(st):
            if isinstance(n, ast.Assign):
                for t in n.targets:
                    v = view_of(t)
                    if v:
                        got.add(v)
            if isinstance(n, ast.Call) and isinstance(n.func, ast.Attribute) \
                    and isinstance(n.func.value, ast.Name) \
                    and n.func.value.id == "self" \
                    and n.func.attr in cls.methods \
                    and (n.func.attr.startswith("_build")
                         or n.func.attr.startswith("_from")):
                got |= _views_set_transitively(cls, cls.methods[n.func.attr])
    return got


def rule_v2(ctx):
    r = ctx.r
    r.rule("V2", "every additive edit writes all three views in the same "
                 "arm with agreeing indices; removals and rebuilds cover all "
                 "three views")
    cls = fsa_class(ctx)
    ALL = {"out", "in", "graph"}

    def need(name):
        f = cls.methods.get(name)
        if f is None:
            raise AnalysisError(f"anchor method FSA.{name} has vanished")
        r.analysed(f)
        return f

    # --- add_vertices
    f = need("add_vertices")
    w = _writes_in(f.node.body)
    firstlevel = {x[0] for x in w if len(x[1]) == 1 and x[2] == "assign"}
    if firstlevel == ALL:
        r.ok("V2", "add_vertices", loc(f, f.node), "",
             "creates the vertex key in out, in and label views")
    else:
        r.violation("V2", f"{f.fq}|missing:{sorted(ALL - firstlevel)}",
                    loc(f, f.node), "add_vertices",
                    f"new vertices are not created in the "
                    f"{sorted(ALL - firstlevel)} view(s): the vertex sets of "
                    "the views diverge", instance="add_vertices")

    # --- add_edges
    f = need("add_edges")
    arms = []
    elist_ifs = 0
    for n in ast.walk(f.node):
        if not isinstance(n, ast.If):
            continue
        t1 = eval_test(n.test, {"elist": True})
        t0 = eval_test(n.test, {"elist": False})
        if not (_writes_in(n.body, scope=f.node.body)
                or _writes_in(n.orelse, scope=f.node.body)):
            # an `if elist:` that prepares values (filters the labels)
            # without touching a view is not the update dispatch
            continue
        if t1 is True and t0 is False:
            arms.append(("elist=True", n.body))
            arms.append(("elist=False", n.orelse))
            elist_ifs += 1
        elif t1 is False and t0 is True:
            arms.append(("elist=True", n.orelse))
            arms.append(("elist=False", n.body))
            elist_ifs += 1
    if len(arms) != 2 and elist_ifs:
        raise AnalysisError("FSA.add_edges: the dispatch on `elist` has an "
                            "unrecognised form")
    if len(arms) != 2:
        # one merged update path (`labels = label if elist else [label]`):
        # the edge loop's body is the single arm
        loops = [n for n in f.node.body if isinstance(n, ast.For)]
        if not loops:
            raise AnalysisError("FSA.add_edges: neither the `if elist:` "
                                "dispatch nor the edge loop was found")
        arms = [("merged", loops[0].body)]
    loopvars = None
    for n in ast.walk(f.node):
        if isinstance(n, ast.Assign) and isinstance(n.targets[0], ast.Tuple) \
                and len(n.targets[0].elts) == 3:
            loopvars = [dotted(e) for e in n.targets[0].elts]
    if loopvars is None:
        raise AnalysisError("FSA.add_edges: `tail, head, label = e` not found")
    tail, head, label = loopvars
    for armname, body in arms:
        w = _writes_in(body, scope=f.node.body)
        if armname == "merged":
            # cell creation (`= []`) is checked separately below
            w = [x for x in w if not (x[2] == "assign" and x[3] in (
                "[]", "list()", "{}"))]
        byview = {}
        for x in w:
            byview.setdefault(x[0], []).append(x)
        missing = ALL - set(byview)
        inst = f"add_edges[{armname}]"
        where = loc(f, body[0]) if body else loc(f, f.node)
        if missing:
            r.violation("V2", f"{f.fq}|{armname}|missing:{sorted(missing)}",
                        where, inst,
                        f"the {armname} arm does not write the "
                        f"{sorted(missing)} view(s): the edge exists in some "
                        "views only", instance=inst)
            continue
        okidx = True
        why = []
        for x in byview["out"]:
            if x[1][:2] != [tail, head]:
                okidx = False
                why.append(f"out view indexed {x[1]} (expected [{tail}][{head}])")
        for x in byview["in"]:
            if x[1][:2] != [head, tail]:
                okidx = False
                why.append(f"in view indexed {x[1]} (expected [{head}][{tail}])")
        for x in byview["graph"]:
            if x[1][:1] != [tail] or x[3] != head:
                okidx = False
                why.append(f"label view write {x[1]} = {x[3]} "
                           f"(expected [{tail}][<label>] = {head})")
        # the same payload reaches out and in
        pay_out = {(x[2], x[3]) for x in byview["out"]}
        pay_in = {(x[2], x[3]) for x in byview["in"]}
        if pay_out != pay_in:
            okidx = False
            why.append(f"out view receives {sorted(pay_out)} but in view "
                       f"receives {sorted(pay_in)}")
        if okidx:
            r.ok("V2", inst, where, "", "writes out[tail][head], "
                 "in[head][tail], label[tail][l]=head with the same payload")
        else:
            r.violation("V2", f"{f.fq}|{armname}|indices", where, inst,
                        "; ".join(why), instance=inst)
    # initialising arm
    init_ok = False
    for n in ast.walk(f.node):
        if isinstance(n, ast.If):
            w = _writes_in(n.body, scope=f.node.body)
            cells = {(x[0], tuple(x[1])) for x in w
                     if x[2] == "assign" and len(x[1]) == 2}
            if cells and {c[0] for c in cells} == {"out", "in"}:
                if ("out", (tail, head)) in cells and ("in", (head, tail)) in cells:
                    init_ok = True
                    r.ok("V2", "add_edges[init]", loc(f, n), "",
                         "creates out[tail][head] and in[head][tail] together")
                else:
                    r.violation("V2", f"{f.fq}|init|indices", loc(f, n),
                                "add_edges[init]",
                                f"cell creation writes {sorted(cells)}",
                                instance="add_edges[init]")
                    init_ok = True
    if not init_ok:
        r.note("V2", loc(f, f.node), "add_edges",
               "no explicit cell-creation arm (cells may be vivified)")

    # --- delete_vertex
    f = need("delete_vertex")
    w = _writes_in(f.node.body)
    top = {x[0] for x in w if x[2] == "pop" and len(x[1]) == 0}
    if top == ALL:
        r.ok("V2", "delete_vertex[top]", loc(f, f.node), "",
             "pops the vertex from out, in and label views")
    else:
        r.violation("V2", f"{f.fq}|top|missing:{sorted(ALL - top)}",
                    loc(f, f.node), "delete_vertex",
                    f"the vertex is not removed from the {sorted(ALL - top)} "
                    "view(s)", instance="delete_vertex[top]")
    loops = [n for n in f.node.body if isinstance(n, ast.For)]
    pairing = {}
    for lp in loops:
        src = dotted(lp.iter)
        kind = "out" if "neighbors_out" in src or "_out_dict" in src else (
            "in" if "neighbors_in" in src or "_in_dict" in src else None)
        for x in _writes_in(lp.body, scope=f.node.body, cls=cls):
            if x[2] == "pop" and len(x[1]) == 1:
                pairing.setdefault(kind, set()).add(x[0])
    want = {"out": {"in"}, "in": {"out", "graph"}}
    if pairing == want:
        r.ok("V2", "delete_vertex[neighbours]", loc(f, f.node), "",
             "out-neighbours lose their in-cell; in-neighbours lose their "
             "out-cell and their labels")
    else:
        r.violation("V2", f"{f.fq}|neighbours", loc(f, f.node),
                    "delete_vertex",
                    f"neighbour clean-up pairs {pairing} (expected {want}): "
                    "dangling cells remain in some view",
                    instance="delete_vertex[neighbours]")

    # --- rebuilds
    f = need("_from_graph_dict")
    got = _views_set_transitively(cls, f)
    if got >= ALL:
        r.ok("V2", "_from_graph_dict", loc(f, f.node), "",
             "rebuilds all three views")
    else:
        r.violation("V2", f"{f.fq}|rebuild", loc(f, f.node),
                    "_from_graph_dict",
                    f"does not rebuild {sorted(ALL - got)}",
                    instance="_from_graph_dict")
    f = need("__init__")
    found = False
    for n in ast.walk(f.node):
        if isinstance(n, ast.If) and eval_test(n.test, {"graph_dict": True}) \
                is True:
            found = True
            for armname, body in (("graph_dict=True", n.body),
                                  ("graph_dict=False", n.orelse)):
                got = _arm_views(cls, body)
                inst = f"__init__[{armname}]"
                if got >= ALL:
                    r.ok("V2", inst, loc(f, body[0]), "",
                         "builds all three views")
                else:
                    r.violation("V2", f"{f.fq}|{armname}", loc(f, body[0]),
                                inst, f"does not build {sorted(ALL - got)}",
                                instance=inst)
    if not found:
        raise AnalysisError("FSA.__init__: `if graph_dict:` dispatch not found")


# ---------------------------------------------------------------------------
# P1 for the automaton


def mutating_methods(cls):
    """Fixed point: methods of FSA that mutate self."""
    direct = {}
    for name, f in cls.methods.items():
        it = Interp(f.node).run()
        direct[name] = it
    mut = set()
    changed = True
    while changed:
        changed = False
        for name, it in direct.items():
            if name in mut:
                continue
            hit = any("self" in m.roots for m in it.mutations)
            if not hit:
                for call, recv, args, st in it.calls:
                    if isinstance(call.func, ast.Attribute) \
                            and call.func.attr in mut and recv \
                            and "self" in recv:
                        hit = True
            if hit:
                mut.add(name)
                changed = True
    return mut


NON_INPLACE = [
    ("accepts", {}), ("follow_word", {}),
    ("initial_accepted_subword", {}), ("initial_rejected_subword", {}),
    ("enumerate_fixed_length_paths", {}), ("enumerate_words", {}),
    ("automaton_multiple", {}), ("even_automaton", {}),
    ("remove_long_paths", {}), ("edges", {}), ("edges_out", {}),
    ("edges_in", {}), ("neighbors_out", {}), ("neighbors_in", {}),
    ("vertices", {}), ("has_edge", {}), ("edge_label", {}),
    ("edge_labels", {}),
    ("rename_generators", {"inplace": False}),
    ("recurrent", {"inplace": False}),
]


def rule_p1_fsa(ctx, min_ops=18):
    r = ctx.r
    r.rule("P1", "a non-in-place automaton operation (flags specialised, "
                 "e.g. inplace=False) never stores into self's views nor "
                 "calls a mutating method on a value rooted at self")
    cls = fsa_class(ctx)
    mut = mutating_methods(cls)
    present = [(n, fl) for n, fl in NON_INPLACE if n in cls.methods]
    r.require_count("P1", "non-in-place operations", len(present), min_ops)
    for want in ("add_edges", "add_vertices", "delete_vertex"):
        if want not in mut:
            raise AnalysisError(f"P1: FSA.{want} is no longer recognised as "
                                f"mutating; summary table out of date")

    def summ(call, name):
        if isinstance(call.func, ast.Attribute) and call.func.attr in mut:
            return {"mutates_receiver": True}
        if name in ("FSA",):
            return {"returns": "fresh"}
        return None

    for name, flags in present:
        f = cls.methods[name]
        r.analysed(f)
        it = Interp(f.node, flags=flags, summaries=summ,
                    ctor_names={"FSA"}).run()
        bad = [m for m in it.mutations
               if "self" in m.roots or any(x.startswith("param:") and
                                           x != "param:self" for x in m.roots)
               and m.kind != "augstore"]
        bad = [m for m in bad if "self" in m.roots]
        inst = name + ("" if not flags else
                       "(" + ",".join(f"{k}={v}" for k, v in flags.items()) + ")")
        if not bad:
            r.ok("P1", inst, loc(f, f.node), "",
                 f"{len(it.mutations)} mutation site(s), none rooted at self")
        for m in bad:
            con = norm_stmt(m.stmt)
            r.violation(
                "P1", f"{f.fq}|{con}", loc(f, m.stmt), con,
                f"{inst} is documented non-mutating but `{m.target}` is "
                f"rooted at self here ({m.kind}): the original automaton "
                "changes", instance=inst)


# ---------------------------------------------------------------------------
# V1p: views built from a caller's container are copied deep enough


INF = 99


def fresh_levels(e, env, fdefs=None):
    """How many top nesting levels of the value of e are freshly created
    (not shared with a parameter)?  INF for immutable / fully copied."""
    if isinstance(e, ast.Constant):
        return INF
    if isinstance(e, ast.Name):
        return env.get(e.id, 0)
    if isinstance(e, ast.Call):
        n = dotted(e.func)
        if n in ("copy.deepcopy", "deepcopy"):
            return INF
        if n in ("dict", "list", "set", "tuple", "sorted", "copy.copy",
                 "OrderedDict") and e.args:
            inner = fresh_levels(e.args[0], env, fdefs)
            return INF if inner >= INF else 1 + _elem(inner)
        if n in ("defaultdict", "collections.defaultdict"):
            if len(e.args) >= 2:
                inner = fresh_levels(e.args[1], env, fdefs)
                return INF if inner >= INF else 1 + _elem(inner)
            return INF
        if isinstance(e.func, ast.Attribute) and e.func.attr == "copy":
            inner = fresh_levels(e.func.value, env, fdefs)
            return INF if inner >= INF else 1 + _elem(inner)
        if fdefs is not None and n in fdefs:
            callee = fdefs[n]
            cenv = {}
            for p, a in zip(callee.params, e.args):
                cenv[p] = fresh_levels(a, env, fdefs)
            vals = _function_fresh(callee.node, cenv, fdefs)
            if vals:
                return min(vals)
        return 0
    if isinstance(e, (ast.DictComp, ast.ListComp, ast.SetComp)):
        cenv = dict(env)
        for g in e.generators:
            it = g.iter
            base = it
            if isinstance(it, ast.Call) and isinstance(it.func, ast.Attribute) \
                    and it.func.attr in ("items", "values", "keys"):
                base = it.func.value
            fl = fresh_levels(base, cenv, fdefs)
            el = INF if fl >= INF else _elem(fl)
            if isinstance(g.target, ast.Tuple) and len(g.target.elts) == 2:
                if isinstance(g.target.elts[0], ast.Name):
                    cenv[g.target.elts[0].id] = INF      # keys are immutable
                if isinstance(g.target.elts[1], ast.Name):
                    cenv[g.target.elts[1].id] = el
            elif isinstance(g.target, ast.Name):
                cenv[g.target.id] = el if not (
                    isinstance(it, ast.Call) and isinstance(it.func, ast.Attribute)
                    and it.func.attr == "keys") else INF
        val = e.value if isinstance(e, ast.DictComp) else e.elt
        inner = fresh_levels(val, cenv, fdefs)
        return INF if inner >= INF else 1 + inner
    if isinstance(e, (ast.Dict, ast.List, ast.Set, ast.Tuple)):
        vals = e.values if isinstance(e, ast.Dict) else e.elts
        if not vals:
            return INF
        inner = min(fresh_levels(v, env, fdefs) for v in vals)
        return INF if inner >= INF else 1 + inner
    return 0


def _bind_loop(target, it, env, fdefs):
    base = it
    if isinstance(it, ast.Call) and isinstance(it.func, ast.Attribute) \
            and it.func.attr in ("items", "values", "keys"):
        base = it.func.value
    fl = fresh_levels(base, env, fdefs)
    el = INF if fl >= INF else _elem(fl)
    if isinstance(target, ast.Tuple) and len(target.elts) == 2 \
            and isinstance(it, ast.Call) and isinstance(it.func, ast.Attribute) \
            and it.func.attr == "items":
        if isinstance(target.elts[0], ast.Name):
            env[target.elts[0].id] = INF          # keys are immutable
        if isinstance(target.elts[1], ast.Name):
            env[target.elts[1].id] = el
    elif isinstance(target, ast.Name):
        env[target.id] = el if not (
            isinstance(it, ast.Call) and isinstance(it.func, ast.Attribute)
            and it.func.attr == "keys") else INF
    else:
        for x in ast.walk(target):
            if isinstance(x, ast.Name):
                env[x.id] = 0


def _function_fresh(fnode, env, fdefs):
    """fresh levels of every returned value of a helper: locals are tracked
    in statement order; a container local filled by element stores / append
    has 1 + (the least fresh stored value) fresh levels."""
    env = dict(env)
    rets = []

    def lower(name, v):
        inner = fresh_levels(v, env, fdefs)
        new = INF if inner >= INF else 1 + inner
        env[name] = min(env.get(name, 0), new)

    def block(body):
        for st in body:
            if isinstance(st, ast.Return):
                if st.value is not None:
                    rets.append(fresh_levels(st.value, env, fdefs))
            elif isinstance(st, ast.Assign):
                for t in st.targets:
                    if isinstance(t, ast.Name):
                        env[t.id] = fresh_levels(st.value, env, fdefs)
                    elif isinstance(t, ast.Subscript) \
                            and isinstance(t.value, ast.Name):
                        lower(t.value.id, st.value)
                    elif isinstance(t, ast.Subscript) \
                            and isinstance(t.value, ast.Subscript) \
                            and isinstance(t.value.value, ast.Name):
                        # x[a][b] = v : v sits two levels down
                        inner = fresh_levels(st.value, env, fdefs)
                        nm = t.value.value.id
                        env[nm] = min(env.get(nm, 0),
                                      INF if inner >= INF else 2 + inner)
            elif isinstance(st, ast.Expr) and isinstance(st.value, ast.Call) \
                    and isinstance(st.value.func, ast.Attribute) \
                    and st.value.func.attr in ("append", "add", "extend",
                                               "update", "setdefault") \
                    and st.value.args:
                recv = st.value.func.value
                depth = 1
                while isinstance(recv, ast.Subscript):
                    recv = recv.value
                    depth += 1
                if isinstance(recv, ast.Name):
                    inner = fresh_levels(st.value.args[-1], env, fdefs)
                    if st.value.func.attr in ("extend", "update"):
                        inner = INF if inner >= INF else _elem(inner)
                    env[recv.id] = min(env.get(recv.id, 0),
                                       INF if inner >= INF else depth + inner)
            elif isinstance(st, ast.For):
                _bind_loop(st.target, st.iter, env, fdefs)
                block(st.body)
                block(st.orelse)
            elif isinstance(st, ast.If):
                block(st.body)
                block(st.orelse)
            elif isinstance(st, (ast.With, ast.Try)):
                block(st.body)
                for h in getattr(st, "handlers", []):
                    block(h.body)
                block(getattr(st, "orelse", []))
                block(getattr(st, "finalbody", []))
            elif isinstance(st, ast.While):
                block(st.body)
    block(fnode.body)
    return rets


def _elem(fl):
    """fresh levels of an element of a container with `fl` fresh levels"""
    return max(fl - 1, 0)


NEED = {"out": 3, "in": 3, "graph": 2}


def rule_v1p(ctx):
    r = ctx.r
    r.rule("V1p", "a view built from a caller-supplied container is copied "
                  "to the depth of its mutable nesting (dict -> dict -> "
                  "list needs three fresh levels, the label view two): "
                  "otherwise later in-place edits leak between the "
                  "automaton, the caller's dictionary and other automata "
                  "built from it, and the views stop agreeing")
    cls = fsa_class(ctx)
    fdefs = {}
    for name, f in cls.methods.items():
        fdefs[f"FSA.{name}"] = f
        fdefs[f"self.{name}"] = f
    n = 0
    for f in cls.methods.values():
        params = [p for p in f.params if p not in ("self", "cls")]
        if not params:
            continue
        for st in ast.walk(f.node):
            if not isinstance(st, ast.Assign):
                continue
            for t in st.targets:
                v = view_of(t)
                if v is None or not isinstance(t, ast.Attribute):
                    continue
                # does the value depend on a parameter at all?
                names = {x.id for x in ast.walk(st.value)
                         if isinstance(x, ast.Name)}
                dep = names & set(params)
                if not dep:
                    # via a helper call whose args are parameters -> handled
                    continue
                n += 1
                r.analysed(f)
                env = {p: 0 for p in params}
                fl = fresh_levels(st.value, env, fdefs)
                inst = f"{f.qualname}:{norm_stmt(st)[:70]}"
                if fl >= NEED[v]:
                    r.ok("V1p", inst, loc(f, st), norm_stmt(st)[:120],
                         f"{'fully' if fl >= INF else fl} fresh level(s); "
                         f"{NEED[v]} needed for the {v} view")
                else:
                    r.violation(
                        "V1p", f"{f.fq}|{norm_stmt(st)[:100]}", loc(f, st),
                        norm_stmt(st)[:160],
                        f"the {v} view is built from parameter(s) "
                        f"{sorted(dep)} with only {fl} freshly created "
                        f"nesting level(s) where {NEED[v]} are mutable: the "
                        "inner label lists stay shared with the caller's "
                        "dictionary (and with every other automaton built "
                        "from it), so add_edges on one changes the outgoing "
                        "view of the other while its incoming and label "
                        "views stay put", instance=inst)
    if n == 0:
        r.note("V1p", FSA_REL, "FSA", "no view is built directly from a "
               "parameter; nothing to check")


# ---------------------------------------------------------------------------
# RF1: the pruning in recurrent() is a fixpoint


def _expanded_text(e, scope, depth=0):
    """text of e with local names replaced by the single expression assigned
    to them inside `scope` (so `t = d.keys(); list(t)` reads `list(d.keys())`)"""
    import copy as _copy
    assigns = {}
    for n in ast.walk(scope):
        if isinstance(n, ast.Assign) and len(n.targets) == 1 \
                and isinstance(n.targets[0], ast.Name):
            assigns.setdefault(n.targets[0].id, []).append(n.value)

    class Sub(ast.NodeTransformer):
        def __init__(self):
            self.d = 0

        def visit_Name(self, x):
            if isinstance(x.ctx, ast.Load) and len(assigns.get(x.id, [])) == 1 \
                    and self.d < 4:
                self.d += 1
                v = self.visit(_copy.deepcopy(assigns[x.id][0]))
                self.d -= 1
                return v
            return x
    return dotted(Sub().visit(_copy.deepcopy(e)))


def rule_rf1(ctx):
    r = ctx.r
    r.rule("RF1", "recurrent() prunes to a fixpoint: either it rescans a "
                  "fresh snapshot of all vertices until a full pass deletes "
                  "nothing, or a worklist re-queues BOTH the in- and the "
                  "out-neighbours of every deleted vertex; the dead-end test "
                  "looks at both the outgoing and the incoming view")
    f = ctx.p.get_function(FSA_REL, "FSA.recurrent")
    r.analysed(f)
    parents = f.module.parents
    dels = [n for n in ast.walk(f.node) if isinstance(n, ast.Call)
            and isinstance(n.func, ast.Attribute)
            and n.func.attr in ("delete_vertex", "delete_vertices")]
    if not dels:
        raise AnalysisError("FSA.recurrent: no delete_vertex call")
    d = dels[0]
    # guarding condition
    cond = None
    loops = []
    cur = d
    while cur is not f.node:
        par = parents[cur]
        if isinstance(par, ast.If) and cond is None and cur in par.body:
            cond = par
        if isinstance(par, (ast.While, ast.For)):
            loops.append(par)
        cur = par
    inst = "FSA.recurrent"
    if cond is None:
        # the test may live elsewhere (a worklist of vertices already known
        # to be dead ends, degree counters): an idiom this rule does not read
        r.note("RF1", loc(f, d), inst,
               "the deletion is not directly under a dead-end test "
               "(worklist / counter form): not judged")
        return
    ctext = dotted(cond.test)
    if isinstance(cond.test, ast.Name):
        for n in ast.walk(f.node):
            if isinstance(n, ast.Assign) and len(n.targets) == 1 \
                    and dotted(n.targets[0]) == cond.test.id:
                ctext = dotted(n.value)
    both = ("_out_dict" in ctext or "neighbors_out" in ctext) and (
        "_in_dict" in ctext or "neighbors_in" in ctext)
    import re as _re
    member = _re.search(r"not in \w+\._(in|out)_dict\b(?!\[)", ctext) or \
        _re.search(r"\bin \w+\._(in|out)_dict\b(?!\[)", ctext)
    if both and member:
        r.violation(
            "RF1", f"{f.fq}|membership", loc(f, cond), ctext[:140],
            "the dead-end test checks whether the vertex is a KEY of a view "
            "instead of whether its cell is empty: after a deletion the "
            "neighbour's cell exists but is empty, so a vertex that just "
            "lost its last incoming (outgoing) edge is kept",
            instance=inst + ":condition")
    elif not any(k in ctext for k in ("_out_dict", "neighbors_out",
                                      "_in_dict", "neighbors_in",
                                      "edges_out", "edges_in")):
        r.note("RF1", loc(f, cond), inst,
               "the dead-end test does not read the views directly "
               f"(`{ctext[:60]}`: counters / a helper): not judged")
    elif not both:
        r.violation(
            "RF1", f"{f.fq}|condition", loc(f, cond), ctext[:140],
            "the dead-end test does not look at both views: vertices "
            "lacking an incoming (or an outgoing) edge survive the pruning",
            instance=inst + ":condition")
    else:
        # a pure emptiness test: nothing is discounted from the cells
        # (helpers defined inside the function and called by the test are
        # read as part of it)
        scope_nodes = [cond.test]
        called = {dotted(c.func) for c in ast.walk(cond.test)
                  if isinstance(c, ast.Call)}
        for n in ast.walk(f.node):
            if isinstance(n, ast.FunctionDef) and n is not f.node \
                    and n.name in called:
                scope_nodes.append(n)
        discount = None
        for sn in scope_nodes:
            for x in ast.walk(sn):
                if isinstance(x, ast.BinOp) and isinstance(x.op, ast.Sub):
                    discount = discount or x
                if isinstance(x, ast.comprehension) and x.ifs:
                    discount = discount or x.ifs[0]
        if discount is not None:
            r.violation(
                "RF1", f"{f.fq}|discounted", loc(f, cond),
                dotted(discount)[:120],
                f"the dead-end test discounts neighbours "
                f"(`{dotted(discount)[:60]}`): a vertex whose only incoming "
                "(outgoing) edges are its own loops has an incoming and an "
                "outgoing edge and lies on a bi-infinite path, but is "
                "pruned ({0: {'a': 0}} becomes empty)",
                instance=inst + ":condition")
        else:
            r.ok("RF1", inst + ":condition", loc(f, cond), ctext[:120],
                 "tests both the outgoing and the incoming view")
    whiles = [l for l in loops if isinstance(l, ast.While)]
    if not whiles:
        r.violation(
            "RF1", f"{f.fq}|single-pass", loc(f, d), dotted(d),
            "deletion happens in a single pass: deleting a vertex can "
            "create new dead ends that are never re-examined",
            instance=inst + ":fixpoint")
        return
    w = whiles[-1]
    fors = [l for l in loops if isinstance(l, ast.For)]
    # shape A: flag-controlled rescan over a snapshot of all vertices
    flag = w.test.id if isinstance(w.test, ast.Name) else None
    if fors and not flag:
        # `while True:` ... `if <progress variable test>: break`
        progress = set()
        for s_ in cond.body:
            for n in ast.walk(s_):
                if isinstance(n, (ast.Assign, ast.AugAssign)):
                    t = n.targets[0] if isinstance(n, ast.Assign) else n.target
                    if isinstance(t, ast.Name):
                        progress.add(t.id)
        breaks_ok = False
        for n in ast.walk(w):
            if isinstance(n, ast.If) and any(isinstance(x, ast.Break)
                                             for x in n.body):
                names = {x.id for x in ast.walk(n.test)
                         if isinstance(x, ast.Name)}
                if names & progress:
                    breaks_ok = True
        it = fors[0].iter
        st = _expanded_text(it, w)
        snap_ok = ("_out_dict" in st or "vertices()" in st) and \
            st.startswith(("list(", "tuple(", "sorted("))
        if breaks_ok and snap_ok:
            r.ok("RF1", inst + ":fixpoint", loc(f, w), "",
                 "rescans a snapshot of all vertices; the loop is left only "
                 "when a variable updated at each deletion says a pass "
                 "deleted nothing")
            return
    if flag and fors:
        snap_ok = False
        it = fors[0].iter
        src = it
        if isinstance(it, ast.Name):
            for n in ast.walk(w):
                if isinstance(n, ast.Assign) and dotted(n.targets[0]) == it.id:
                    src = n.value
        st = _expanded_text(src, w)
        snap_ok = ("_out_dict" in st or "vertices()" in st) and \
            st.startswith(("list(", "tuple(", "sorted("))
        set_true = any(isinstance(n, ast.Assign)
                       and dotted(n.targets[0]) == flag
                       and isinstance(n.value, ast.Constant)
                       and n.value.value is True
                       for s in cond.body for n in ast.walk(s))
        set_false = any(isinstance(n, ast.Assign)
                        and dotted(n.targets[0]) == flag
                        and isinstance(n.value, ast.Constant)
                        and n.value.value is False for n in w.body)
        if snap_ok and set_true and set_false:
            r.ok("RF1", inst + ":fixpoint", loc(f, w), "",
                 "rescans a snapshot of all vertices until a pass deletes "
                 "nothing")
        else:
            why = []
            if not snap_ok:
                why.append("the pass does not iterate over a fresh snapshot "
                           f"of all vertices (`{st[:60]}`)")
            if not set_true:
                why.append(f"`{flag}` is not set when a vertex is deleted")
            if not set_false:
                why.append(f"`{flag}` is not reset at the start of a pass")
            r.violation("RF1", f"{f.fq}|rescan", loc(f, w), "while " + flag,
                        "; ".join(why) + ": pruning can stop before the "
                        "fixpoint", instance=inst + ":fixpoint")
        return
    # shape B: worklist
    pushes = [n for n in ast.walk(w) if isinstance(n, ast.Call)
              and isinstance(n.func, ast.Attribute)
              and n.func.attr in ("extend", "append", "appendleft",
                                  "extendleft", "update", "add")]
    block_txt = " ".join(dotted(s) for s in cond.body)
    # names pushed, with their definitions in the deletion block
    pushed_src = ""
    for pcall in pushes:
        for a in pcall.args:
            pushed_src += " " + dotted(a)
            for nm in ast.walk(a):
                if isinstance(nm, ast.Name):
                    for s in cond.body:
                        for n in ast.walk(s):
                            if isinstance(n, ast.Assign) and dotted(
                                    n.targets[0]) == nm.id:
                                pushed_src += " " + dotted(n.value)
    has_out = "neighbors_out" in pushed_src or "_out_dict" in pushed_src
    has_in = "neighbors_in" in pushed_src or "_in_dict" in pushed_src
    if has_out and has_in:
        r.ok("RF1", inst + ":fixpoint", loc(f, w), "",
             "worklist re-queues both in- and out-neighbours of a deleted "
             "vertex")
    else:
        miss = [k for k, v in (("out-neighbours", has_out),
                               ("in-neighbours", has_in)) if not v]
        r.violation(
            "RF1", f"{f.fq}|worklist", loc(f, d), dotted(d),
            f"the worklist does not re-queue the deleted vertex's "
            f"{' and '.join(miss)}: a neighbour that just lost its last "
            f"{'incoming' if 'out-neighbours' in miss else 'outgoing'} edge "
            "is never re-examined, so the result still contains a vertex "
            "without an incoming or outgoing edge",
            instance=inst + ":fixpoint")


VIEW_ATTRS = ("_graph_dict", "_out_dict", "_in_dict")


def rule_dc1(ctx):
    r = ctx.r
    r.rule("DC1", "a view of the automaton (`_graph_dict`, `_out_dict`, "
                  "`_in_dict`) is never one copy of a whole container that "
                  "came from the caller (`copy.deepcopy(param)`, "
                  "`copy.copy(param)`, `dict(param)`, `param.copy()`): "
                  "deepcopy memoises, so per-vertex cells that are ONE "
                  "object in the input (dict.fromkeys(vertices, {...}), a "
                  "row reused for several states) stay one object in the "
                  "view, and an edit of one vertex shows up at the others in "
                  "that view only. The cells are created per vertex")
    cls = fsa_class(ctx)
    n = 0
    funcs = list(cls.methods.values()) + list(
        ctx.p.module_by_rel(FSA_REL).functions.values())
    for f in funcs:
        params = {p for p in f.params if p not in ("self", "cls")}
        for st in ast.walk(f.node):
            if not (isinstance(st, ast.Assign) and len(st.targets) == 1):
                continue
            t = st.targets[0]
            if not (isinstance(t, ast.Attribute) and t.attr in VIEW_ATTRS
                    and dotted(t.value) == "self"):
                continue
            n += 1
            r.analysed(f)
            v = st.value
            whole = None
            if isinstance(v, ast.Call):
                fn = dotted(v.func)
                if fn in ("copy.deepcopy", "copy.copy", "deepcopy", "dict") \
                        and len(v.args) == 1 \
                        and isinstance(v.args[0], ast.Name) \
                        and v.args[0].id in params:
                    whole = (fn, v.args[0].id)
                elif isinstance(v.func, ast.Attribute) \
                        and v.func.attr == "copy" \
                        and isinstance(v.func.value, ast.Name) \
                        and v.func.value.id in params:
                    whole = (".copy()", v.func.value.id)
            elif isinstance(v, ast.Name) and v.id in params:
                whole = ("the object itself", v.id)
            inst = f"{f.qualname}:{t.attr}"
            if whole is None:
                r.ok("DC1", inst, loc(f, st), norm_stmt(st)[:80],
                     "built cell by cell")
            else:
                r.violation(
                    "DC1", f"{f.fq}|{t.attr}|{whole[0]}", loc(f, st),
                    norm_stmt(st)[:140],
                    f"`self.{t.attr}` is {whole[0]} of the caller's "
                    f"`{whole[1]}` as a whole: neighbour dictionaries that "
                    "are one object in the input (dict.fromkeys(states, "
                    "{...})) remain one object here, while the other views "
                    "are rebuilt per vertex -- after add_edges / "
                    "delete_vertex on one state this view lists the edge at "
                    "every state that shared the dictionary and the views "
                    "disagree", instance=inst)
    if n == 0:
        raise AnalysisError("DC1: no store to a view attribute found in FSA "
                            "(anchors vanished)")


def rule_vrow1(ctx):
    r = ctx.r
    r.rule("VROW1", "the label view has a row for EVERY vertex of the "
                    "outgoing view, also for a vertex without outgoing "
                    "edges: where `_graph_dict` is rebuilt from `_out_dict` "
                    "the rows are created by a comprehension / an "
                    "unconditional assignment over all vertices, not only "
                    "as a side effect of storing an edge. The label view is "
                    "a plain dict (delete_vertex pops the vertex from it, "
                    "walks rely on KeyError), so a missing row is a KeyError "
                    "half-way through an edit that has already changed the "
                    "other two views")
    cls = fsa_class(ctx)
    f = cls.methods.get("_build_graph_dict")
    if f is None:
        raise AnalysisError("FSA._build_graph_dict has vanished")
    r.analysed(f)
    # the local (or expression) stored into self._graph_dict
    stores = [st for st in ast.walk(f.node) if isinstance(st, ast.Assign)
              and len(st.targets) == 1
              and isinstance(st.targets[0], ast.Attribute)
              and st.targets[0].attr == "_graph_dict"]
    inst = "_build_graph_dict:rows"
    if not stores:
        r.note("VROW1", loc(f, f.node), inst,
               "`self._graph_dict` is not assigned here (not judged)")
        return
    v = stores[-1].value
    name = v.id if isinstance(v, ast.Name) else None

    def over_all_vertices(it):
        t = dotted(it)
        return t.startswith("self._out_dict") or t in (
            "self.vertices()", "self._out_dict.keys()")
    ok = False
    if isinstance(v, ast.DictComp) and over_all_vertices(
            v.generators[0].iter):
        ok = True
    if name:
        for st in ast.walk(f.node):
            if isinstance(st, ast.Assign) and len(st.targets) == 1 \
                    and isinstance(st.targets[0], ast.Name) \
                    and st.targets[0].id == name \
                    and isinstance(st.value, ast.DictComp) \
                    and over_all_vertices(st.value.generators[0].iter):
                ok = True
            # for v in <all vertices>: <name>[v] = ...   (top of the body)
            if isinstance(st, ast.For) and over_all_vertices(st.iter):
                tv = st.target.elts[0] if isinstance(
                    st.target, ast.Tuple) else st.target
                for b in st.body:
                    if isinstance(b, ast.Assign) and len(b.targets) == 1 \
                            and isinstance(b.targets[0], ast.Subscript) \
                            and dotted(b.targets[0].value) == name \
                            and dotted(b.targets[0].slice) == dotted(tv):
                        ok = True
                    for c in ast.walk(b) if isinstance(b, ast.Expr) else []:
                        if isinstance(c, ast.Call) and isinstance(
                                c.func, ast.Attribute) \
                                and c.func.attr == "setdefault" \
                                and dotted(c.func.value) == name and c.args \
                                and dotted(c.args[0]) == dotted(tv):
                            ok = True
    if ok:
        r.ok("VROW1", inst, loc(f, stores[-1]), norm_stmt(stores[-1])[:80],
             "a row is created for every vertex of the outgoing view")
    else:
        r.violation(
            "VROW1", f"{f.fq}|rows", loc(f, stores[-1]),
            norm_stmt(stores[-1])[:120],
            "the rows of the rebuilt label view are created only where an "
            "edge is stored: a vertex without outgoing edges (a dead end of "
            "a target->labels dictionary) gets no row, so graph_dict and "
            "vertices() disagree and delete_vertex / recurrent on it raise "
            "KeyError after the other two views have been edited",
            instance=inst)


_CONSUMERS = {"list", "tuple", "set", "sorted", "sum", "max", "min", "any",
              "all", "dict", "frozenset", "deque", "len"}


def rule_iter1(ctx, rels):
    r = ctx.r
    r.rule("ITER1", "a parameter documented as an ITERABLE is walked once: "
                    "a function that needs it twice materialises it first "
                    "(`x = list(x)`). Two consuming passes over the "
                    "parameter itself (list(p) + [.. for g in p]) see an "
                    "empty second pass for a generator -- "
                    "free_automaton(rep.asym_gens()) silently builds an "
                    "automaton with no inverse letters. A parameter that is "
                    "indexed or measured (p[i], len(p)) is a sequence and "
                    "is not judged")
    n = 0
    for rel in rels:
        mod = ctx.p.module_by_rel(rel)
        for f in ctx.p.all_functions:
            if f.module is not mod:
                continue
            from .common import path_conditions
            for p in f.params:
                if p in ("self", "cls"):
                    continue
                stores = [x for x in ast.walk(f.node)
                          if isinstance(x, ast.Name) and x.id == p
                          and isinstance(x.ctx, ast.Store)]
                if stores:
                    continue                 # rebound: not the raw parameter
                sized = any(
                    (isinstance(x, ast.Subscript)
                     and isinstance(x.value, ast.Name) and x.value.id == p)
                    or (isinstance(x, ast.Call) and dotted(x.func) == "len"
                        and x.args and isinstance(x.args[0], ast.Name)
                        and x.args[0].id == p)
                    or (isinstance(x, ast.Attribute)
                        and isinstance(x.value, ast.Name) and x.value.id == p)
                    for x in ast.walk(f.node))
                passes = []
                for x in ast.walk(f.node):
                    if isinstance(x, ast.For) and isinstance(x.iter, ast.Name) \
                            and x.iter.id == p:
                        passes.append(x.iter)
                    elif isinstance(x, ast.comprehension) \
                            and isinstance(x.iter, ast.Name) \
                            and x.iter.id == p:
                        passes.append(x.iter)
                    elif isinstance(x, ast.Call) \
                            and dotted(x.func) in _CONSUMERS - {"len"} \
                            and any(isinstance(a, ast.Name) and a.id == p
                                    for a in x.args):
                        passes.append(x)
                if len(passes) < 2:
                    continue
                n += 1
                r.analysed(f)
                if sized:
                    r.ok("ITER1", f"{f.qualname}:{p}", loc(f, passes[0]),
                         p, "indexed / measured: a sequence by use")
                    continue
                # two passes in one statement, or in statements none of which
                # sits in an arm the other excludes
                pc = path_conditions(f.node)
                from .common import stmt_of
                sts = [stmt_of(x, f.module.parents) for x in passes]
                excl = False
                if len({id(s) for s in sts}) > 1:
                    conds = [set((ast.dump(t), pol) for t, pol in
                                 pc.get(id(s), [])) for s in sts]
                    for i in range(len(conds)):
                        for j in range(i + 1, len(conds)):
                            if any((t, not pol) in conds[j]
                                   for t, pol in conds[i]):
                                excl = True
                if excl:
                    r.ok("ITER1", f"{f.qualname}:{p}", loc(f, passes[0]), p,
                         "the passes are on exclusive branches")
                    continue
                r.violation(
                    "ITER1", f"{f.fq}|{p}", loc(f, passes[1]),
                    f"{len(passes)} passes over `{p}`",
                    f"{f.qualname} consumes its parameter `{p}` "
                    f"{len(passes)} times (lines "
                    f"{', '.join(str(x.lineno) for x in passes)}) without "
                    "materialising it: for a generator -- "
                    "words.asym_gens(..), Representation.asym_gens(), zip(..), "
                    "any `(g for g in ..)` -- the second pass is empty, so "
                    "what it builds is silently missing (free_automaton: no "
                    "inverse letters; from_diagram: a group with no "
                    "generators at all)",
                    instance=f"{f.qualname}:{p}")
    if n == 0:
        r.ok("ITER1", "modules", ",".join(rels), "",
             "no parameter is consumed twice")


MD1_TEXT = {
    "FSA.__init__": (
        "an FSA owns its list of start states: the constructor "
        "stores a COPY (`list(start_vertices)`), never the "
        "argument itself. The default is one shared `[]`, and "
        "rename_generators(inplace=False), automaton_multiple and "
        "remove_long_paths hand `self.start_vertices` (or the "
        "default) to the new automaton: with the argument stored "
        "by reference, changing the start state of the result "
        "changes accepts() / enumerate_words() of the original "
        "and of every automaton built with the default",
        "FSA({}) automata all share it, and "
        "rename_generators(inplace=False) / automaton_multiple give "
        "results whose start_vertices IS the original's -- "
        "`R.start_vertices[0] = v` moves the start state of the "
        "original too"),
    "Representation.__init__": (
        "a Representation owns its list of relators: the constructor "
        "stores a COPY of `relations`, never the argument. The default "
        "is one shared `[]` and the copy constructor (called twice by "
        "_compose) extends the list in place with the source's "
        "relators: stored by reference, every representation built "
        "without explicit relators shares one growing list, and "
        "cocycle_matrix() of a derived representation of a different "
        "group uses relators it does not satisfy",
        "every representation built without `relations=` shares the "
        "list, and `self.relations += representation.relations` in the "
        "copy constructor grows it for all of them: cocycle_matrix() @ "
        "coboundary_matrix() is no longer 0 for a Z^2 representation "
        "derived after an infinite-dihedral one"),
}


def rule_md1(ctx, rel=FSA_REL, qualname="FSA.__init__"):
    r = ctx.r
    rule_text, why_text = MD1_TEXT[qualname]
    r.rule("MD1", "a constructor stores a COPY of a container parameter "
                  "that has a mutable default. " + rule_text)
    f = ctx.p.get_function(rel, qualname)
    r.analysed(f)
    a = f.node.args
    pos = a.posonlyargs + a.args
    mutable_default = {}
    for p, d in zip(pos[len(pos) - len(a.defaults):], a.defaults):
        if isinstance(d, (ast.List, ast.Dict, ast.Set)) or (
                isinstance(d, ast.Call) and dotted(d.func) in (
                    "list", "dict", "set")):
            mutable_default[p.arg] = dotted(d)
    n = 0
    for st in ast.walk(f.node):
        if not (isinstance(st, ast.Assign) and len(st.targets) == 1
                and isinstance(st.targets[0], ast.Attribute)
                and dotted(st.targets[0].value) == "self"):
            continue
        v = st.value
        if not (isinstance(v, ast.Name) and v.id in f.params
                and v.id != "self"):
            continue
        # rebound to a copy before the store?
        rebound = [s for s in ast.walk(f.node) if isinstance(s, ast.Assign)
                   and any(isinstance(t, ast.Name) and t.id == v.id
                           for t in s.targets) and s.lineno < st.lineno]
        copied = any(isinstance(s.value, ast.Call) and (
            dotted(s.value.func) in ("list", "tuple", "copy.copy",
                                     "copy.deepcopy", "sorted")
            or (isinstance(s.value.func, ast.Attribute)
                and s.value.func.attr == "copy"))
            or isinstance(s.value, (ast.ListComp, ast.List))
            for s in rebound)
        if v.id not in mutable_default and not any(
                isinstance(x, ast.Attribute) and x.attr == st.targets[0].attr
                for x in ()):
            # only parameters that are containers by declaration are judged
            continue
        n += 1
        if copied:
            r.ok("MD1", f"{qualname}:{st.targets[0].attr}", loc(f, st),
                 dotted(st)[:80], "stored after a copy")
        else:
            r.violation(
                "MD1", f"{f.fq}|{st.targets[0].attr}", loc(f, st),
                dotted(st)[:80],
                f"`self.{st.targets[0].attr} = {v.id}` keeps the caller's "
                f"list (default: the one shared `{mutable_default[v.id]}` "
                "of the def): " + why_text,
                instance=f"{qualname}:{st.targets[0].attr}")
    if n == 0:
        r.ok("MD1", qualname, loc(f, f.node), "",
             "no container parameter with a mutable default is stored bare")


def _inner_loop_vars(fn):
    """[(loop, {names bound by a loop that iterates over something bound by
    an enclosing loop of fn})]"""
    out = []

    def names(t):
        return {x.id for x in ast.walk(t) if isinstance(x, ast.Name)}

    def visit(node, outer):
        for ch in ast.iter_child_nodes(node):
            if isinstance(ch, ast.For):
                tv = names(ch.target)
                if names(ch.iter) & outer:
                    out.append((ch, tv))
                visit(ch, outer | tv)
            elif isinstance(ch, (ast.FunctionDef, ast.Lambda)):
                continue
            else:
                visit(ch, outer)
    visit(fn, set())
    # a local built by a comprehension with two generators, the second over
    # something bound by the first (`{w for row in d.values() for w in row}`),
    # holds edge targets too: a loop over (an expression of) such a local
    # binds target variables
    derived = set()
    for _ in range(2):
        for st in ast.walk(fn):
            if not (isinstance(st, ast.Assign) and len(st.targets) == 1
                    and isinstance(st.targets[0], ast.Name)):
                continue
            v = st.value
            hit = any(isinstance(x, ast.Name) and x.id in derived
                      for x in ast.walk(v))
            for c in ast.walk(v):
                if isinstance(c, (ast.ListComp, ast.SetComp,
                                  ast.GeneratorExp)) \
                        and len(c.generators) >= 2:
                    bound = names(c.generators[0].target)
                    if names(c.generators[1].iter) & bound:
                        hit = True
            if hit:
                derived.add(st.targets[0].id)
    if derived:
        for ch in ast.walk(fn):
            if isinstance(ch, ast.For) and names(ch.iter) & derived \
                    and not any(ch is l for l, _ in out):
                out.append((ch, names(ch.target)))
    return out


def _closure_evidence(fn):
    """Statements of fn that register an edge TARGET as a vertex: inside a
    loop over the entries of a row (a loop nested in the loop over the rows),
    (a) `D[w] = ..` / `D.setdefault(w, ..)` with D an out / label view (or a
    local stored into one) and w the inner variable, (b) `L.append(w)` /
    `S.add(w)` on a local that fn returns."""
    ev = []
    view_locals = set()
    returned = set()
    for st in ast.walk(fn):
        if isinstance(st, ast.Assign) and len(st.targets) == 1 \
                and view_of(st.targets[0]) in ("out", "graph") \
                and isinstance(st.value, ast.Name):
            view_locals.add(st.value.id)
        if isinstance(st, ast.Return) and isinstance(st.value, ast.Name):
            returned.add(st.value.id)

    def is_view(e):
        return view_of(e) in ("out", "graph") or (
            isinstance(e, ast.Name) and e.id in view_locals)
    for loop, tv in _inner_loop_vars(fn):
        for n in ast.walk(loop):
            if isinstance(n, ast.Assign):
                for t in n.targets:
                    if isinstance(t, ast.Subscript) and is_view(t.value) \
                            and isinstance(t.slice, ast.Name) \
                            and t.slice.id in tv:
                        ev.append(n)
            if isinstance(n, ast.Call) and isinstance(n.func, ast.Attribute):
                a0 = n.args[0] if n.args else None
                if n.func.attr == "setdefault" and is_view(n.func.value) \
                        and isinstance(a0, ast.Name) and a0.id in tv:
                    ev.append(n)
                if n.func.attr in ("append", "add") \
                        and isinstance(n.func.value, ast.Name) \
                        and n.func.value.id in returned \
                        and isinstance(a0, ast.Name) and a0.id in tv:
                    ev.append(n)
                if n.func.attr == "add_vertices" and any(
                        isinstance(x, ast.Name) and x.id in tv
                        for x in ast.walk(n)):
                    ev.append(n)
    return ev


def rule_hid1(ctx):
    r = ctx.r
    r.rule("HID1", "BOTH constructor routes close the vertex set under edge "
                   "targets: a state that occurs only as the head of an edge "
                   "(a dead end) gets its own row. The label->target route "
                   "does it through _hidden_vertices; the target->labels "
                   "route (graph_dict=False) must do the same. Otherwise the "
                   "incoming view knows a vertex the other two do not: "
                   "accepts() follows the word into it, enumerate_words and "
                   "remove_long_paths raise KeyError, and a later "
                   "add_vertices([t]) wipes t's incoming edges")
    cls = fsa_class(ctx)
    f = cls.methods.get("__init__")
    if f is None:
        raise AnalysisError("FSA.__init__ has vanished")
    r.analysed(f)
    disp = None
    for st in f.node.body:
        if isinstance(st, ast.If) and st.orelse and any(
                isinstance(x, ast.Name) and x.id == "graph_dict"
                for x in ast.walk(st.test)):
            disp = st
    if disp is None:
        r.note("HID1", loc(f, f.node), "FSA.__init__",
               "the constructor no longer dispatches on `graph_dict` with "
               "two arms (not judged)")
        return
    mod_funcs = {g.name: g for g in ctx.p.all_functions
                 if g.module is f.module and g.cls is None}

    def route_functions(stmts):
        seen, todo, out = set(), [], []
        for s in stmts:
            todo.extend(c for c in ast.walk(s) if isinstance(c, ast.Call))
        depth = {id(c): 0 for c in todo}
        while todo:
            c = todo.pop()
            g = None
            if isinstance(c.func, ast.Attribute) and isinstance(
                    c.func.value, ast.Name) and c.func.value.id in (
                        "self", "FSA", "cls"):
                g = cls.methods.get(c.func.attr)
            elif isinstance(c.func, ast.Name):
                g = mod_funcs.get(c.func.id)
            if g is None or g.fq in seen:
                continue
            seen.add(g.fq)
            out.append(g)
            if depth[id(c)] < 2:
                for c2 in ast.walk(g.node):
                    if isinstance(c2, ast.Call):
                        depth[id(c2)] = depth[id(c)] + 1
                        todo.append(c2)
        return out
    for label, arm in (("label->target (graph_dict=True)", disp.body),
                       ("target->labels (graph_dict=False)", disp.orelse)):
        ev = []
        holder = ast.Module(body=list(arm), type_ignores=[])
        ev += [(f, e) for e in _closure_evidence(holder)]
        funcs = route_functions(arm)
        for g in funcs:
            r.analysed(g)
            ev += [(g, e) for e in _closure_evidence(g.node)]
        inst = f"FSA.__init__:{label.split()[0]}"
        if ev:
            g, e = ev[0]
            r.ok("HID1", inst, loc(g, e), dotted(e)[:80],
                 f"route {label}: edge targets are registered in "
                 f"{g.qualname}")
        else:
            r.violation(
                "HID1", f"{f.fq}|{label.split()[0]}", loc(f, arm[0]),
                f"route {label}",
                f"the {label} route of the constructor "
                f"({', '.join(g.name for g in funcs) or 'no helper'}) never "
                "registers a vertex that occurs only as an edge target: "
                "FSA({0: {1: ['a']}}, graph_dict=False) has vertex 1 in the "
                "incoming view but not in vertices() / graph_dict; the word "
                "'a' is accepted, enumerate_words(1) raises KeyError(1), and "
                "add_vertices([1]) then drops the edge 0->1 from the "
                "incoming view", instance=inst)


def _derive_names(facts_in):
    """{name: bool} implied by a list of (test expression, polarity): names,
    `not`, `and` / `or` with unit propagation."""
    known = {}
    todo = list(facts_in)
    for _ in range(4):
        nxt = []
        for e, pol in todo:
            if isinstance(e, ast.Name):
                known.setdefault(e.id, pol)
            elif isinstance(e, ast.UnaryOp) and isinstance(e.op, ast.Not):
                nxt.append((e.operand, not pol))
            elif isinstance(e, ast.BoolOp):
                conj = isinstance(e.op, ast.And)
                if pol == conj:
                    # (a and b) is True / (a or b) is False: every part
                    nxt.extend((v, pol) for v in e.values)
                else:
                    # (a and b) is False: a part that is not known True is
                    # False when all the others are known True (dually for or)
                    open_ = []
                    for v in e.values:
                        val = _value_of(v, known)
                        if val is None:
                            open_.append(v)
                        elif val != conj:
                            open_ = None
                            break
                    if open_ is not None and len(open_) == 1:
                        nxt.append((open_[0], pol))
                    elif open_:
                        nxt.append((e, pol))
        todo = nxt
        if not todo:
            break
    return known


def _value_of(e, known):
    if isinstance(e, ast.Name):
        return known.get(e.id)
    if isinstance(e, ast.UnaryOp) and isinstance(e.op, ast.Not):
        v = _value_of(e.operand, known)
        return None if v is None else (not v)
    return None


def rule_elist1(ctx):
    from .common import path_conditions, stmt_of
    r = ctx.r
    r.rule("ELIST1", "in add_edges `label` is ONE label or, under "
                     "`elist=True`, a LIST of labels: a membership test of "
                     "`label` itself in the stored list of labels is only "
                     "meaningful where elist is known to be false (or per "
                     "element, inside a loop over `label`). Testing the "
                     "whole list (`['a','b'] in ['a','b']` is False) makes "
                     "ignore_redundant a no-op for elist=True: re-adding "
                     "labels duplicates them in the outgoing and incoming "
                     "views while the label view has them once")
    cls = fsa_class(ctx)
    f = cls.methods.get("add_edges")
    if f is None:
        raise AnalysisError("FSA.add_edges has vanished")
    r.analysed(f)
    if "elist" not in f.params:
        r.note("ELIST1", loc(f, f.node), "add_edges",
               "no `elist` parameter (not judged)")
        return
    # the name(s) bound to the third component of an edge
    label_names = set()
    for st in ast.walk(f.node):
        if isinstance(st, ast.Assign) and len(st.targets) == 1 \
                and isinstance(st.targets[0], ast.Tuple) \
                and len(st.targets[0].elts) == 3 \
                and isinstance(st.targets[0].elts[2], ast.Name):
            label_names.add(st.targets[0].elts[2].id)
        if isinstance(st, ast.For) and isinstance(st.target, ast.Tuple) \
                and len(st.target.elts) == 3 \
                and isinstance(st.target.elts[2], ast.Name):
            label_names.add(st.target.elts[2].id)
    if not label_names:
        r.note("ELIST1", loc(f, f.node), "add_edges",
               "the edge triple is not unpacked into names (not judged)")
        return
    pc = path_conditions(f.node)
    n = 0
    for cmp_ in ast.walk(f.node):
        if not (isinstance(cmp_, ast.Compare) and len(cmp_.ops) == 1
                and isinstance(cmp_.ops[0], (ast.In, ast.NotIn))
                and isinstance(cmp_.left, ast.Name)
                and cmp_.left.id in label_names):
            continue
        n += 1
        st = stmt_of(cmp_, f.module.parents)
        conds = list(pc.get(id(st), []))
        # what is known where the test is evaluated: the path conditions
        # and, by short-circuit, the conjuncts standing before it
        facts_in = list(conds)
        par = f.module.parents.get(cmp_)
        if isinstance(par, ast.BoolOp) and isinstance(par.op, ast.And):
            for v in par.values:
                if v is cmp_:
                    break
                facts_in.append((v, True))
        guarded = _derive_names(facts_in).get("elist") is False
        inst = "add_edges:label-membership"
        if guarded:
            r.ok("ELIST1", inst + f"@{cmp_.lineno}", loc(f, cmp_),
                 dotted(cmp_)[:80], "only where elist is false")
        else:
            r.violation(
                "ELIST1", f"{f.fq}|{dotted(cmp_)[:40]}", loc(f, cmp_),
                dotted(cmp_)[:100],
                f"`{dotted(cmp_)[:60]}` tests the whole `{cmp_.left.id}` "
                "value also when elist=True, where it is a list: a list is "
                "never an element of the list of labels, so "
                "a.add_edges([(0,1,['a','b'])], elist=True) twice leaves "
                "edge_labels(0,1) == ['a','b','a','b'] (edge_label raises "
                "'ambiguous', edges_out yields the edge twice) while the "
                "label view has each label once", instance=inst)
    if n == 0:
        r.note("ELIST1", loc(f, f.node), "add_edges",
               "no membership test on the label (not judged)")


def rule_retarget1(ctx):
    r = ctx.r
    r.rule("RETARGET1", "the label view is a FUNCTION (tail, label) -> "
                        "head: where add_edges stores "
                        "`_graph_dict[tail][label] = head` it first deals "
                        "with a previous target of that label (reads "
                        "`_graph_dict[tail]` with get / in / pop / a "
                        "subscript load and removes the label from the old "
                        "head's entries in the outgoing and incoming views, "
                        "or raises). A bare overwrite leaves 0-a->1 in two "
                        "views after add_edges([(0,2,'a')]) while the label "
                        "view says 0-a->2")
    cls = fsa_class(ctx)
    f = cls.methods.get("add_edges")
    if f is None:
        raise AnalysisError("FSA.add_edges has vanished")
    r.analysed(f)
    stores = []
    for st in ast.walk(f.node):
        if isinstance(st, ast.Assign) and len(st.targets) == 1:
            t = st.targets[0]
            if isinstance(t, ast.Subscript) and isinstance(t.value,
                                                           ast.Subscript) \
                    and view_of(t.value.value) == "graph":
                stores.append(st)
    if not stores:
        r.note("RETARGET1", loc(f, f.node), "add_edges",
               "no store into a row of the label view (not judged)")
        return
    # evidence that the previous target is consulted: a read of a label-view
    # row (get / pop / `in` / subscript load), directly or in a helper method
    def reads_previous(fn_node):
        for n in ast.walk(fn_node):
            if isinstance(n, ast.Call) and isinstance(n.func, ast.Attribute) \
                    and n.func.attr in ("get", "pop") \
                    and isinstance(n.func.value, ast.Subscript) \
                    and view_of(n.func.value.value) == "graph":
                return n
            if isinstance(n, ast.Compare) and any(
                    isinstance(o, (ast.In, ast.NotIn)) for o in n.ops) \
                    and any(isinstance(c, ast.Subscript)
                            and view_of(c.value) == "graph"
                            for c in n.comparators):
                return n
            if isinstance(n, ast.Subscript) and isinstance(n.ctx, ast.Load) \
                    and isinstance(n.value, ast.Subscript) \
                    and view_of(n.value.value) == "graph":
                return n
        return None
    ev = reads_previous(f.node)
    if ev is None:
        for c in ast.walk(f.node):
            if isinstance(c, ast.Call) and isinstance(c.func, ast.Attribute) \
                    and dotted(c.func.value) == "self" \
                    and c.func.attr in cls.methods \
                    and c.func.attr != "add_vertices":
                g = cls.methods[c.func.attr]
                e2 = reads_previous(g.node)
                if e2 is not None:
                    ev = c
                    break
    inst = "add_edges:label-view-store"
    if ev is not None:
        r.ok("RETARGET1", inst, loc(f, ev), dotted(ev)[:80],
             "the previous target of the label is consulted")
    else:
        st = stores[0]
        r.violation(
            "RETARGET1", f"{f.fq}|graph-store", loc(f, st),
            dotted(st)[:100],
            "add_edges overwrites `_graph_dict[tail][label]` without "
            "looking at the previous target: "
            "FSA({0:{'a':1},1:{},2:{}}).add_edges([(0,2,'a')]) leaves the "
            "label 'a' on 0->1 in the outgoing and incoming views "
            "(has_edge(0,1) is True) while the label view and edges() say "
            "0-a->2", instance=inst)


def rule_n2(ctx):
    from .common import path_conditions, stmt_of
    r = ctx.r
    r.rule("N2", "vertices and labels are arbitrary hashable values and 0 / "
                 "'' are legal ones (the Coxeter automata label their edges "
                 "0..rank-1, the free automaton's start state is ''): a "
                 "variable holding ONE vertex or label -- a component of an "
                 "unpacked edge triple, a loop variable over a view or a row "
                 "-- is never tested by truthiness (`if label`, `not label`, "
                 "`label or ..`). Where the variable holds a LIST of labels "
                 "(elist known true) an emptiness test is fine")
    cls = fsa_class(ctx)
    n = 0
    for f in cls.methods.values():
        pc = None
        single = set()          # names holding one vertex / label
        elist_sensitive = set()
        for st in ast.walk(f.node):
            tgt = None
            if isinstance(st, ast.Assign) and len(st.targets) == 1 \
                    and isinstance(st.targets[0], ast.Tuple) \
                    and len(st.targets[0].elts) == 3:
                tgt = st.targets[0]
            elif isinstance(st, ast.For) and isinstance(st.target, ast.Tuple) \
                    and len(st.target.elts) == 3:
                tgt = st.target
            if tgt is not None and all(isinstance(e, ast.Name)
                                       for e in tgt.elts):
                single.update(e.id for e in tgt.elts)
                if "elist" in f.params:
                    elist_sensitive.add(tgt.elts[2].id)
            if isinstance(st, ast.For):
                it = st.iter
                base = it.func.value if (isinstance(it, ast.Call)
                                         and isinstance(it.func, ast.Attribute)
                                         and it.func.attr in ("items", "keys"))\
                    else it
                root = base
                while isinstance(root, ast.Subscript):
                    root = root.value
                if view_of(root) is not None:
                    for e in ([st.target] if isinstance(st.target, ast.Name)
                              else getattr(st.target, "elts", [])):
                        if isinstance(e, ast.Name):
                            # the value side of `.items()` of a row of the
                            # out / in views is a list of labels
                            single.add(e.id)
                    if isinstance(it, ast.Call) and isinstance(
                            it.func, ast.Attribute) \
                            and it.func.attr == "items" \
                            and isinstance(st.target, ast.Tuple) \
                            and len(st.target.elts) == 2 \
                            and isinstance(base, ast.Subscript) \
                            and view_of(base.value) in ("out", "in") \
                            and isinstance(st.target.elts[1], ast.Name):
                        single.discard(st.target.elts[1].id)
                    if isinstance(it, ast.Call) and isinstance(
                            it.func, ast.Attribute) \
                            and it.func.attr == "items" \
                            and view_of(base) is not None \
                            and isinstance(st.target, ast.Tuple) \
                            and len(st.target.elts) == 2 \
                            and isinstance(st.target.elts[1], ast.Name):
                        # `for v, row in view.items()`: row is a dict
                        single.discard(st.target.elts[1].id)
        if not single:
            continue
        parents = f.module.parents

        def truth_tests():
            for x in ast.walk(f.node):
                if isinstance(x, (ast.If, ast.While, ast.IfExp)):
                    yield x.test, x
                elif isinstance(x, ast.BoolOp):
                    for v in x.values[:-1] if isinstance(x.op, ast.Or) \
                            else x.values:
                        yield v, x
                elif isinstance(x, ast.Call) and dotted(x.func) == "bool" \
                        and x.args:
                    yield x.args[0], x
        seen = set()
        for t, ctxnode in truth_tests():
            e = t
            while isinstance(e, ast.UnaryOp) and isinstance(e.op, ast.Not):
                e = e.operand
            if not (isinstance(e, ast.Name) and e.id in single):
                continue
            if id(e) in seen:
                continue
            seen.add(id(e))
            n += 1
            r.analysed(f)
            if e.id in elist_sensitive:
                if pc is None:
                    pc = path_conditions(f.node)
                st = stmt_of(e, parents)
                facts = list(pc.get(id(st), []))
                par = parents.get(t)
                if isinstance(par, ast.BoolOp) and isinstance(par.op, ast.And):
                    for v in par.values:
                        if v is t:
                            break
                        facts.append((v, True))
                if _derive_names(facts).get("elist") is True:
                    r.ok("N2", f"{f.qualname}:{e.id}@{e.lineno}", loc(f, e),
                         dotted(t)[:60], "a list of labels here (elist)")
                    continue
            r.violation(
                "N2", f"{f.fq}|{e.id}", loc(f, e), dotted(t)[:80],
                f"`{dotted(t)[:40]}` tests the vertex / label `{e.id}` by "
                "truthiness: the label 0 (every Coxeter automaton has one) "
                "and the state '' are falsy -- add_edges([(2, 0, 0)]) "
                "creates the vertices but no edge in any view",
                instance=f"{f.qualname}:{e.id}")
    if n == 0:
        r.ok("N2", "FSA", FSA_REL, "",
             "no truthiness test on a vertex / label variable")


def rule_bfs5(ctx):
    r = ctx.r
    r.rule("BFS5", "a worklist traversal marks a vertex when it is QUEUED: "
                   "the `append` of a vertex to the queue sits in a block "
                   "that also records it in the container the guard reads "
                   "(`marked[w] = True`, `seen.add(w)`, `distance[w] = ..`). "
                   "Marking only when a vertex is popped lets every path "
                   "that reaches a vertex queue it again: the result is the "
                   "same, the work is proportional to the number of PATHS "
                   "-- automaton(even_length=True) of F4 expands 5.3 million "
                   "states for 1152, of H4 it does not return")
    cls = fsa_class(ctx)
    n = 0
    for f in cls.methods.values():
        queues = set()
        for st in ast.walk(f.node):
            if isinstance(st, ast.Assign) and isinstance(st.value, ast.Call) \
                    and dotted(st.value.func) in ("deque",
                                                  "collections.deque") \
                    and len(st.targets) == 1 \
                    and isinstance(st.targets[0], ast.Name):
                queues.add(st.targets[0].id)
        if not queues:
            continue
        parents = f.module.parents
        for c in ast.walk(f.node):
            if not (isinstance(c, ast.Call) and isinstance(
                    c.func, ast.Attribute) and c.func.attr in (
                        "append", "appendleft")
                    and isinstance(c.func.value, ast.Name)
                    and c.func.value.id in queues and c.args
                    and isinstance(c.args[0], ast.Name)):
                continue
            # only pushes inside the traversal loop
            par = parents.get(c)
            in_loop = False
            block = None
            while par is not None and par is not f.node:
                if isinstance(par, ast.While):
                    in_loop = True
                if block is None and isinstance(par, (ast.If, ast.For,
                                                      ast.While)):
                    block = par
                par = parents.get(par)
            if not in_loop:
                continue
            n += 1
            r.analysed(f)
            w = c.args[0].id
            # marking of w at push time: in the enclosing block (or the
            # enclosing loop body), a store keyed by w / an add of w
            scope = block if block is not None else f.node
            enclosing_for = scope
            pp = parents.get(c)
            while pp is not None and pp is not f.node:
                if isinstance(pp, ast.For):
                    enclosing_for = pp
                    break
                pp = parents.get(pp)
            marked = False
            for region in {id(scope): scope,
                           id(enclosing_for): enclosing_for}.values():
                for st in ast.walk(region):
                    if isinstance(st, ast.Assign) and any(
                            isinstance(t, ast.Subscript)
                            and isinstance(t.slice, ast.Name)
                            and t.slice.id == w for t in st.targets):
                        marked = True
                    if isinstance(st, ast.Call) and isinstance(
                            st.func, ast.Attribute) and st.func.attr in (
                                "add",) and st.args and isinstance(
                                    st.args[0], ast.Name) \
                            and st.args[0].id == w:
                        marked = True
            inst = f"{f.qualname}:push({w})"
            if marked:
                r.ok("BFS5", inst, loc(f, c), dotted(c)[:60],
                     f"`{w}` is recorded where it is queued")
            else:
                r.violation(
                    "BFS5", f"{f.fq}|{w}", loc(f, c), dotted(c)[:80],
                    f"`{dotted(c)[:50]}` queues `{w}` without recording it: "
                    "the guard only sees vertices that were already POPPED, "
                    "so a vertex reached by several paths before its turn "
                    "is queued (and expanded) once per path. On the "
                    "geodesic automaton of H4 (14 400 states) "
                    "automaton(even_length=True) does not return",
                    instance=inst)
    if n == 0:
        r.note("BFS5", FSA_REL, "FSA", "no queue push inside a traversal "
               "loop (not judged)")
