"""C06: M1 (zero-length contribution merged on every maxlen path),
M2 (option forwarding), M3 (word / matrix channel agreement)."""
import ast

from ..project import AnalysisError, loc, norm_stmt
from ..flow import dotted, eval_test
from ..paths import enumerate_paths
from ..rules.common import const_value

REP = "geometry_tools/representation.py"
FN = "Representation._automaton_accepted"


def _self_calls(f):
    return [n for n in ast.walk(f.node) if isinstance(n, ast.Call)
            and dotted(n.func) == f"self.{f.name}"]


def _length_arg(f, call):
    params = f.params[1:]
    idx = params.index("length")
    if idx < len(call.args):
        return call.args[idx]
    for k in call.keywords:
        if k.arg == "length":
            return k.value
    return None


def rule_m1(ctx):
    r = ctx.r
    r.rule("M1", "in _automaton_accepted every return that is neither the "
                 "memo hit nor under `length == 0`, on every path on which "
                 "maxlen may be true, passes through the zero-length "
                 "contribution (a self-call with length literal 0)")
    f = ctx.p.get_function(REP, FN)
    r.analysed(f)
    if "length" not in f.params or "maxlen" not in f.params:
        raise AnalysisError(f"{FN}: parameters length/maxlen not found")
    calls = _self_calls(f)
    zero = [c for c in calls if const_value(_length_arg(f, c)) == 0]
    stmts_with_zero = []
    parents = f.module.parents
    for c in zero:
        st = c
        while not isinstance(st, ast.stmt):
            st = parents[st]
        stmts_with_zero.append(st)
    assigned = {n.id for n in ast.walk(f.node)
                if isinstance(n, ast.Name) and isinstance(n.ctx, ast.Store)}
    stable = [p for p in f.params if p not in assigned and p != "self"]
    paths = enumerate_paths(f.node, stable=stable, markers=stmts_with_zero)

    def is_memo(t):
        return isinstance(t, ast.Compare) and len(t.ops) == 1 \
            and isinstance(t.ops[0], ast.In) and "precomputed" in dotted(t)

    def is_len0(t):
        # `length == 0` / `length <= 0`, written either way round
        if not (isinstance(t, ast.Compare) and len(t.ops) == 1):
            return False
        a, b, op = t.left, t.comparators[0], t.ops[0]
        if dotted(a) == "length" and const_value(b) == 0:
            return isinstance(op, (ast.Eq, ast.LtE))
        if dotted(b) == "length" and const_value(a) == 0:
            return isinstance(op, (ast.Eq, ast.GtE))
        return False

    classes = {"memo": 0, "base": 0, "merged": 0, "exact-length": 0}
    bad = {}
    n_ret = 0
    for p in paths:
        if not isinstance(p.terminal, ast.Return):
            continue
        n_ret += 1
        if True in p.took(is_memo):
            classes["memo"] += 1
            continue
        if True in p.took(is_len0):
            classes["base"] += 1
            continue
        if p.flags.get("maxlen") is False:
            classes["exact-length"] += 1
            continue
        if any(e in stmts_with_zero for e in p.events):
            classes["merged"] += 1
            continue
        bad.setdefault(id(p.terminal), (p.terminal, p))
    if n_ret == 0:
        raise AnalysisError(f"{FN}: no return path enumerated")
    if not zero and not bad:
        # enumeration restructured without a zero-length self call
        r.note("M1", loc(f, f.node), FN,
               "no zero-length self-call exists; M1 has no instance")
    r.extra["M1_return_paths"] = dict(classes, total=n_ret,
                                      unmerged=len(bad))
    if not bad:
        r.ok("M1", FN, loc(f, f.node), "",
             f"{n_ret} return paths: {classes}")
    for term, p in bad.values():
        conds = []
        for t, o, s in p.conds:
            if isinstance(t, ast.expr):
                conds.append(("" if o else "not ") + "(" + dotted(t)[:60] + ")")
        r.violation(
            "M1", f"{f.fq}|{norm_stmt(term)}|{conds[-1] if conds else ''}",
            loc(f, term), norm_stmt(term)[:120],
            "this return is reached with maxlen possibly true without "
            "passing the zero-length contribution (path: "
            + " and ".join(conds[-3:]) + "): with maxlen=True the words "
            "shorter than `length` (here the empty word at a start vertex) "
            "are dropped from the result", instance=f"{FN}:return")


def rule_m2(ctx):
    r = ctx.r
    r.rule("M2", "the memoised recursion for length - 1 forwards every "
                 "option parameter unchanged (keyword = same name)")
    f = ctx.p.get_function(REP, FN)
    calls = _self_calls(f)
    rec = [c for c in calls
           if isinstance(_length_arg(f, c), ast.BinOp)
           and isinstance(_length_arg(f, c).op, ast.Sub)
           and dotted(_length_arg(f, c).left) == "length"
           and const_value(_length_arg(f, c).right) == 1]
    if not rec:
        raise AnalysisError(f"{FN}: recursive call for length - 1 not found")
    options = [p for p in f.params
               if p not in ("self", "automaton", "length", "state")]
    from ..norm import single_defs
    defs = single_defs(f.node)
    for c in rec:
        kws = {k.arg: dotted(k.value) for k in c.keywords if k.arg}
        opaque = False
        for k in c.keywords:
            if k.arg is None:
                v = k.value
                if isinstance(v, ast.Name) and v.id in defs:
                    v = defs[v.id]
                if isinstance(v, ast.Dict) and all(
                        isinstance(x, ast.Constant) for x in v.keys):
                    for kk, vv in zip(v.keys, v.values):
                        kws[kk.value] = dotted(vv)
                elif isinstance(v, ast.Call) and dotted(v.func) == "dict":
                    for kk in v.keywords:
                        kws[kk.arg] = dotted(kk.value)
                else:
                    opaque = True
        if opaque:
            r.note("M2", loc(f, c), dotted(c)[:100],
                   "options are forwarded through an opaque ** mapping; "
                   "not judged")
            continue
        pos = f.params[1:]
        for i, a in enumerate(c.args):
            if i < len(pos):
                kws.setdefault(pos[i], dotted(a))
        for o in options:
            inst = f"{FN}:forward:{o}"
            if kws.get(o) == o:
                r.ok("M2", inst, loc(f, c), f"{o}={o}", "forwarded")
            elif o in kws:
                r.violation("M2", f"{f.fq}|forward|{o}", loc(f, c),
                            f"{o}={kws[o]}",
                            f"option `{o}` is passed as `{kws[o]}` to the "
                            "recursion instead of being forwarded unchanged",
                            instance=inst)
            else:
                r.violation(
                    "M2", f"{f.fq}|forward|{o}", loc(f, c),
                    dotted(c)[:100],
                    f"option `{o}` is not forwarded to the recursive call: "
                    "below the first level it silently reverts to its "
                    f"default ({dotted(f.defaults().get(o)) if o in f.defaults() else '?'})"
                    ", and the (length, state) memo then mixes results "
                    "computed under different options", instance=inst)
        if "automaton" in kws and kws["automaton"] == "automaton":
            r.ok("M2", f"{FN}:forward:automaton", loc(f, c), "", "forwarded")
        if kws.get("state") in (None, "state"):
            r.violation("M2", f"{f.fq}|state", loc(f, c), dotted(c)[:100],
                        "the recursion does not move to the adjacent state",
                        instance=f"{FN}:state")
    # public wrapper forwards its options too
    g = ctx.p.get_function(REP, "Representation.automaton_accepted")
    r.analysed(g)
    wc = [n for n in ast.walk(g.node) if isinstance(n, ast.Call)
          and dotted(n.func) == f"self.{f.name}"]
    if not wc:
        raise AnalysisError("automaton_accepted does not call "
                            "_automaton_accepted")
    kws = {k.arg: dotted(k.value) for k in wc[0].keywords if k.arg}
    for o in ("maxlen", "with_words", "precomputed", "edge_words"):
        inst = f"automaton_accepted:forward:{o}"
        if kws.get(o) == o:
            r.ok("M2", inst, loc(g, wc[0]), f"{o}={o}", "forwarded")
        else:
            r.violation("M2", f"{g.fq}|forward|{o}", loc(g, wc[0]),
                        dotted(wc[0])[:100],
                        f"the public entry does not forward `{o}` "
                        f"(passes {kws.get(o)})", instance=inst)


def rule_m3(ctx):
    r = ctx.r
    r.rule("M3", "word channel and matrix channel agree: under as_start the "
                 "label is prepended and the edge image multiplies on the "
                 "left, otherwise appended / on the right; the maxlen prefix "
                 "is prepended to both channels; the edge image is the image "
                 "of the same label")
    f = ctx.p.get_function(REP, FN)
    word_side = {}
    mat_side = {}
    sites = {}
    parents = f.module.parents

    def polarity(node):
        """value of as_start under which `node` is evaluated, or None"""
        cur = node
        while cur is not f.node:
            par = parents[cur]
            if isinstance(par, (ast.If, ast.IfExp)):
                t = eval_test(par.test, {"as_start": True})
                t2 = eval_test(par.test, {"as_start": False})
                if t is not None and t2 is not None and t != t2:
                    body = par.body if isinstance(par.body, list) else [par.body]
                    orelse = par.orelse if isinstance(par.orelse, list) \
                        else [par.orelse]
                    if any(cur is x for x in body):
                        return True if t else False
                    if any(cur is x for x in orelse):
                        return False if t else True
            cur = par
        return None

    def stmt_of(n):
        while not isinstance(n, ast.stmt):
            n = parents[n]
        return n
    # the matrix channel is whatever is unpacked / copied from the result
    # of the recursive call (by provenance, not by the name `matrices`)
    self_calls = {id(c) for c in _self_calls(f)}
    res_names = {dotted(n.targets[0]) for n in ast.walk(f.node)
                 if isinstance(n, ast.Assign) and id(n.value) in self_calls
                 and isinstance(n.targets[0], ast.Name)}
    mat_names = set()
    for n in ast.walk(f.node):
        if isinstance(n, ast.Assign):
            v = n.value
            src_is_res = (isinstance(v, ast.Name) and v.id in res_names) \
                or id(v) in self_calls
            if not src_is_res:
                continue
            t = n.targets[0]
            if isinstance(t, ast.Tuple) and t.elts and isinstance(
                    t.elts[0], ast.Name):
                mat_names.add(t.elts[0].id)
            elif isinstance(t, ast.Name) and t.id not in res_names:
                mat_names.add(t.id)
    if not mat_names:
        mat_names = {"matrices"}
    for n in ast.walk(f.node):
        if isinstance(n, ast.ListComp) and isinstance(n.elt, ast.BinOp) \
                and isinstance(n.elt.op, ast.Add):
            pol = polarity(n)
            if pol is None:
                continue
            L, R = dotted(n.elt.left), dotted(n.elt.right)
            lv = dotted(n.generators[0].target)
            if R == lv:
                word_side[pol] = ("prepend", L)
            elif L == lv:
                word_side[pol] = ("append", R)
            sites[("w", pol)] = stmt_of(n)
        if isinstance(n, ast.BinOp) and isinstance(n.op, ast.MatMult):
            pol = polarity(n)
            if pol is None:
                continue
            L, R = dotted(n.left), dotted(n.right)
            names = {L, R}
            hit = names & mat_names
            if hit:
                mn = next(iter(hit))
                other = (names - {mn}).pop() if len(names) == 2 else L
                mat_side[pol] = ("left", other) if R == mn \
                    else ("right", other)
                sites[("m", pol)] = stmt_of(n)
    if set(word_side) != {True, False} or set(mat_side) != {True, False}:
        raise AnalysisError(f"{FN}: as_start dispatch of the word/matrix "
                            f"channels not recognised (words={word_side}, "
                            f"matrices={mat_side})")
    want = {True: ("prepend", "left"), False: ("append", "right")}
    for pol in (True, False):
        w, m = word_side[pol][0], mat_side[pol][0]
        inst = f"{FN}:channels[as_start={pol}]"
        st = sites[("m", pol)]
        if (w, m) == want[pol]:
            r.ok("M3", inst, loc(f, st), norm_stmt(st),
                 f"label is {w}ed, edge image multiplies on the {m}")
        elif (w == "prepend") == (m == "left"):
            r.violation(
                "M3", f"{f.fq}|direction|{pol}", loc(f, st), norm_stmt(st),
                f"with as_start={pol} both channels put the edge "
                f"{'first' if w == 'prepend' else 'last'}, but walking "
                f"{'from a start state' if pol else 'towards an end state'} "
                f"the edge label is the {'first' if pol else 'last'} letter "
                "of the word: the words returned are not the accepted words",
                instance=inst)
        else:
            r.violation(
                "M3", f"{f.fq}|channels|{pol}", loc(f, st), norm_stmt(st),
                f"with as_start={pol} the label is {w}ed to the word but the "
                f"edge image multiplies on the {m}: since words are "
                "evaluated left to right, the matrices are not the images of "
                "the returned words", instance=inst)
    # edge image is the image of the loop's own label
    lab = {word_side[True][1], word_side[False][1]}
    edge = {mat_side[True][1], mat_side[False][1]}
    defs_edge = [n for n in ast.walk(f.node) if isinstance(n, ast.Assign)
                 and dotted(n.targets[0]) in edge]
    if len(lab) == 1 and len(edge) == 1 and defs_edge:
        lname = next(iter(lab))
        ok = all(lname in [dotted(x) for x in ast.walk(d.value)
                           if isinstance(x, ast.Name)] for d in defs_edge)
        if ok:
            r.ok("M3", f"{FN}:edge-image", loc(f, defs_edge[0]),
                 norm_stmt(defs_edge[0]),
                 f"edge image is computed from the same `{lname}`")
        else:
            r.violation("M3", f"{f.fq}|edge-image", loc(f, defs_edge[0]),
                        norm_stmt(defs_edge[0]),
                        f"the edge image is not computed from `{lname}`, the "
                        "label that enters the word", instance=f"{FN}:edge-image")
    # edge_words dispatch: word value vs single generator
    for d in defs_edge:
        pass
    # maxlen prefix order.  The zero-length contribution is recognised by
    # where it comes from: the self-call with length literal 0
    zero_ids = {id(c) for c in _self_calls(f)
                if const_value(_length_arg(f, c)) == 0}
    zres = {dotted(n.targets[0]) for n in ast.walk(f.node)
            if isinstance(n, ast.Assign) and id(n.value) in zero_ids
            and isinstance(n.targets[0], ast.Name)}
    add_names = set(zres)
    for n in ast.walk(f.node):
        if isinstance(n, ast.Assign) and (
                (isinstance(n.value, ast.Name) and n.value.id in zres)
                or id(n.value) in zero_ids):
            for x in ast.walk(n.targets[0]):
                if isinstance(x, ast.Name):
                    add_names.add(x.id)

    def is_add(txt):
        return txt in add_names or "additional" in txt
    wpre = mpre = None
    wst = mst = None
    for n in ast.walk(f.node):
        if isinstance(n, ast.Assign) and isinstance(n.value, ast.BinOp) \
                and isinstance(n.value.op, ast.Add) \
                and isinstance(n.targets[0], ast.Name):
            L, R = dotted(n.value.left), dotted(n.value.right)
            if is_add(L) and dotted(n.targets[0]) == R:
                wpre, wst = "first", n
            elif is_add(R) and dotted(n.targets[0]) == L:
                wpre, wst = "last", n
        if isinstance(n, ast.Assign) and isinstance(n.value, ast.Call) \
                and dotted(n.value.func) == "np.concatenate" \
                and n.value.args and isinstance(n.value.args[0], ast.List) \
                and len(n.value.args[0].elts) == 2:
            a, b = [dotted(x) for x in n.value.args[0].elts]
            if is_add(a):
                mpre, mst = "first", n
            elif is_add(b):
                mpre, mst = "last", n
    if wpre is None or mpre is None:
        r.note("M3", loc(f, f.node), FN,
               "maxlen prefix idiom not recognised; not judged")
    elif wpre == mpre:
        r.ok("M3", f"{FN}:maxlen-prefix", loc(f, mst), norm_stmt(mst),
             f"zero-length word and matrix both come {wpre}")
    else:
        r.violation("M3", f"{f.fq}|maxlen-prefix", loc(f, mst),
                    norm_stmt(mst),
                    f"the zero-length word is placed {wpre} but its matrix "
                    f"{mpre}: matrices[i] is not the image of words[i]",
                    instance=f"{FN}:maxlen-prefix")
    # accumulation in the same loop
    acc_w = [n for n in ast.walk(f.node) if isinstance(n, ast.AugAssign)
             and dotted(n.target) == "accepted_words"]
    acc_m = [n for n in ast.walk(f.node) if isinstance(n, ast.Call)
             and dotted(n.func) == "matrix_list.append"]
    if acc_w and acc_m:
        parents = f.module.parents

        def loop_of(n):
            cur = n
            while cur is not f.node:
                cur = parents[cur]
                if isinstance(cur, ast.For):
                    return cur
            return None
        if loop_of(acc_w[0]) is loop_of(acc_m[0]) and loop_of(acc_w[0]):
            r.ok("M3", f"{FN}:accumulate", loc(f, acc_m[0]), "",
                 "words and matrices accumulate in the same loop, in step")
        else:
            r.violation("M3", f"{f.fq}|accumulate", loc(f, acc_m[0]),
                        dotted(acc_m[0]),
                        "words and matrices are accumulated in different "
                        "loops: their orders need not agree",
                        instance=f"{FN}:accumulate")


def rule_m4(ctx):
    r = ctx.r
    r.rule("M4", "in the per-label loop of _automaton_accepted a channel "
                 "updated from its own previous value (X = g(label, X)) is "
                 "re-initialised from the recursion's result earlier in the "
                 "same iteration: otherwise parallel edges are applied on "
                 "top of each other")
    f = ctx.p.get_function(REP, FN)
    parents = f.module.parents
    loops = [n for n in ast.walk(f.node) if isinstance(n, ast.For)]
    inner = [l for l in loops
             if not any(isinstance(x, ast.For) and x is not l
                        for x in ast.walk(l))]
    n_inst = 0
    for lp in inner:
        body_nodes = list(ast.walk(lp))
        for st in body_nodes:
            if not isinstance(st, ast.Assign) or len(st.targets) != 1 \
                    or not isinstance(st.targets[0], ast.Name):
                continue
            x = st.targets[0].id
            reads = [n for n in ast.walk(st.value)
                     if isinstance(n, ast.Name) and n.id == x
                     and isinstance(n.ctx, ast.Load)]
            # comprehension variables shadowing do not count
            if not reads:
                continue
            n_inst += 1
            # an earlier non-self-referential binding inside the loop body
            init = False
            for s2 in body_nodes:
                if s2 is st:
                    continue
                if isinstance(s2, ast.Assign) and (s2.lineno, s2.col_offset) \
                        < (st.lineno, st.col_offset):
                    tg = []
                    for t in s2.targets:
                        tg += [e.id for e in ast.walk(t)
                               if isinstance(e, ast.Name)]
                    if x in tg and not any(
                            isinstance(n, ast.Name) and n.id == x
                            for n in ast.walk(s2.value)):
                        init = True
            inst = f"{FN}:{norm_stmt(st)[:60]}"
            if init:
                r.ok("M4", inst, loc(f, st), norm_stmt(st)[:120],
                     f"`{x}` is re-bound from the recursion result earlier "
                     "in the same iteration")
            else:
                r.violation(
                    "M4", f"{f.fq}|{norm_stmt(st)[:100]}", loc(f, st),
                    norm_stmt(st)[:160],
                    f"`{x}` is updated from its own previous value inside "
                    f"the loop `for {dotted(lp.target)} in {dotted(lp.iter)}` "
                    "but is only initialised outside that loop: for a "
                    "second label between the same two states the update is "
                    "applied on top of the first label's result (wrong words "
                    "and matrices for automata with parallel edges)",
                    instance=inst)
    if n_inst == 0:
        r.note("M4", loc(f, f.node), FN, "no self-referential channel "
               "update in an innermost loop; nothing to check")


def rule_memo_own1(ctx):
    r = ctx.r
    r.rule("MEMO1", "what _automaton_accepted reads from its memo -- "
                    "`precomputed[..]` and the result of the memoised "
                    "self-call -- belongs to the memo and is shared with "
                    "every later hit: it is never the target of an in-place "
                    "operation (`out=`, augmented assignment, item store, "
                    ".sort() / .fill()). np.matmul(e, matrices, out=matrices) "
                    "overwrites the cached block for (length-1, neighbour): "
                    "the second edge into that neighbour, or a reused memo, "
                    "multiplies an already multiplied block")
    f = ctx.p.get_function(REP, FN)
    r.analysed(f)
    memo_param = "precomputed" if "precomputed" in f.params else None
    owned = set()
    for st in ast.walk(f.node):
        tg = None
        if isinstance(st, ast.Assign) and len(st.targets) == 1:
            tg = st.targets[0]
        if tg is None:
            continue
        v = st.value
        from_memo = False
        for c in ast.walk(v):
            if isinstance(c, ast.Call) and isinstance(c.func, ast.Attribute) \
                    and dotted(c.func.value) == "self" \
                    and c.func.attr == f.name:
                from_memo = True
            if memo_param and isinstance(c, ast.Subscript) \
                    and dotted(c.value) == memo_param \
                    and isinstance(c.ctx, ast.Load):
                from_memo = True
        if not from_memo:
            continue
        # only a bare hand-over keeps the memo's objects: `x = call(..)`,
        # `a, b = call(..)`; an expression built from it is a new array
        if not (isinstance(v, (ast.Call, ast.Subscript))):
            continue
        for e in ([tg] if isinstance(tg, ast.Name) else getattr(tg, "elts",
                                                               [])):
            if isinstance(e, ast.Name):
                owned.add(e.id)
    # hand-overs: `matrices, words = result`, `matrices = result`
    grew = True
    while grew:
        grew = False
        for st in ast.walk(f.node):
            if isinstance(st, ast.Assign) and len(st.targets) == 1 \
                    and isinstance(st.value, ast.Name) \
                    and st.value.id in owned:
                tg = st.targets[0]
                for e in ([tg] if isinstance(tg, ast.Name)
                          else getattr(tg, "elts", [])):
                    if isinstance(e, ast.Name) and e.id not in owned:
                        owned.add(e.id)
                        grew = True
    if not owned:
        r.note("MEMO1", loc(f, f.node), FN,
               "no local is bound to a memo entry / memoised result "
               "(not judged)")
        return
    # a rebinding `x = <new array from x>` ends the ownership at that point;
    # an in-place operation anywhere on an owned name is judged by position
    # in the loop body: the first write decides
    bad = []
    for st in ast.walk(f.node):
        if isinstance(st, ast.AugAssign):
            b = st.target
            while isinstance(b, ast.Subscript):
                b = b.value
            if isinstance(b, ast.Name) and b.id in owned:
                bad.append(st)
        if isinstance(st, ast.Assign):
            for t in st.targets:
                if isinstance(t, ast.Subscript):
                    b = t
                    while isinstance(b, ast.Subscript):
                        b = b.value
                    if isinstance(b, ast.Name) and b.id in owned:
                        bad.append(st)
        if isinstance(st, ast.Call):
            for k in st.keywords:
                if k.arg == "out" and isinstance(k.value, ast.Name) \
                        and k.value.id in owned:
                    bad.append(st)
            if isinstance(st.func, ast.Attribute) and st.func.attr in (
                    "sort", "fill", "resize", "put", "itemset") \
                    and isinstance(st.func.value, ast.Name) \
                    and st.func.value.id in owned:
                bad.append(st)
    inst = "_automaton_accepted:memo-ownership"
    if not bad:
        r.ok("MEMO1", inst, loc(f, f.node), ", ".join(sorted(owned)),
             "no in-place operation on a memo-owned value")
    else:
        st = bad[0]
        r.violation(
            "MEMO1", f"{f.fq}|inplace", loc(f, st), dotted(st)[:100],
            f"`{dotted(st)[:70]}` writes into a value that is an entry of "
            "the memo (the result of the memoised self-call): the block "
            "cached for (length - 1, neighbour) is overwritten with the "
            "product for ONE edge; the next edge into that neighbour, and "
            "every later call with the same memo, starts from the "
            "overwritten block -- the returned matrices are no longer the "
            "images of the returned words (free automaton: from length 3)",
            instance=inst)
