"""HD1 -- homogeneity degrees: abstract interpretation of small helpers over
the domain 'degree of homogeneity in one designated parameter'.

A homogeneous coordinate vector p is only defined up to p -> c*p.  A helper
that is supposed not to depend on the representative (degree 0 in p) or to be
linear in a tangent vector (degree 1) must come out with exactly that degree;
a sum of terms of different degrees is inhomogeneous (MIXED) and therefore
depends on the scale of the representative.
"""
import ast
from fractions import Fraction

from ..project import loc
from ..shape import Unsupported

CORE = "geometry_tools/utils/core.py"
HYP = "geometry_tools/hyperbolic.py"

MIXED = "mixed"

SAME = {"np.abs", "np.real", "np.imag", "np.conjugate", "np.expand_dims",
        "np.squeeze", "np.sum", "np.array", "np.copy", "np.asarray",
        "np.atleast_1d", "np.swapaxes", "np.roll", "np.flip",
        "np.zeros_like", "np.take_along_axis", "np.negative", "np.maximum",
        "np.minimum", "np.linalg.norm", "np.clip", "np.hypot"}
ZERO = {"np.sign", "np.identity", "np.zeros", "np.ones", "utils.identity",
        "utils.zeros", "minkowski", "utils.number", "utils.pi",
        "utils.guess_literal_ring", "np.errstate", "len", "range",
        "np.isclose", "np.ones_like"}
TRANSCENDENTAL = {"np.arccosh", "np.arccos", "np.cos", "np.sin", "np.exp",
                  "np.tanh", "np.arctan2", "np.arcsinh", "np.log", "np.tan",
                  "np.arctan", "np.sinh", "np.cosh"}


def add(a, b):
    if a == MIXED or b == MIXED:
        return MIXED
    return a + b


def same(a, b):
    if a == MIXED or b == MIXED:
        return MIXED
    return a if a == b else MIXED


class Deg:
    def __init__(self, funcs):
        self.funcs = funcs          # name -> FunctionDef (bare + utils.)
        self.depth = 0

    def call(self, fn, degs):
        """degs: list of degrees for positional params"""
        params = [a.arg for a in fn.args.args]
        # flags left at a falsy literal default fold their `if flag:` tests
        self.false_flags = getattr(self, "false_flags", [])
        dflt = fn.args.defaults
        flags = set()
        for p, dv in zip(params[len(params) - len(dflt):], dflt):
            if isinstance(dv, ast.Constant) and not dv.value \
                    and dv.value is not None:
                idx = params.index(p)
                if idx >= len(degs) or degs[idx] == 0:
                    flags.add(p)
        self.false_flags.append(flags)
        try:
            return self._call(fn, params, degs)
        finally:
            self.false_flags.pop()

    def _call(self, fn, params, degs):
        env = {p: Fraction(0) for p in params}
        for p, d in zip(params, degs):
            env[p] = d
        self.depth += 1
        if self.depth > 12:
            raise Unsupported("degree analysis: recursion too deep")
        try:
            rets = []
            self.block(fn.body, env, rets)
        finally:
            self.depth -= 1
        if not rets:
            return Fraction(0)
        out = rets[0]
        for x in rets[1:]:
            out = same(out, x)
        return out

    def block(self, body, env, rets):
        for st in body:
            self.stmt(st, env, rets)

    def stmt(self, st, env, rets):
        if isinstance(st, ast.Expr):
            return
        if isinstance(st, ast.Return):
            if st.value is not None:
                rets.append(self.expr(st.value, env))
            return
        if isinstance(st, ast.Assign):
            d = self.expr(st.value, env)
            for t in st.targets:
                if isinstance(t, ast.Name):
                    env[t.id] = d
                elif isinstance(t, ast.Tuple):
                    for el in t.elts:
                        if isinstance(el, ast.Name):
                            env[el.id] = d
                elif isinstance(t, ast.Subscript):
                    base = t.value
                    while isinstance(base, ast.Subscript):
                        base = base.value
                    if isinstance(base, ast.Name):
                        env[base.id] = same(env.get(base.id, d), d) \
                            if env.get(base.id, Fraction(0)) != 0 else d
            return
        if isinstance(st, ast.AugAssign):
            d = self.expr(st.value, env)
            t = st.target
            base = t
            while isinstance(base, ast.Subscript):
                base = base.value
            if isinstance(base, ast.Name):
                cur = env.get(base.id, Fraction(0))
                if isinstance(st.op, (ast.Add, ast.Sub)):
                    env[base.id] = same(cur, d)
                elif isinstance(st.op, ast.Mult):
                    env[base.id] = add(cur, d)
                elif isinstance(st.op, ast.Div):
                    env[base.id] = add(cur, neg(d))
            return
        if isinstance(st, ast.If):
            if isinstance(st.test, ast.Name) and self.false_flags \
                    and st.test.id in self.false_flags[-1]:
                self.block(st.orelse, env, rets)
                return
            e1 = dict(env)
            e2 = dict(env)
            self.block(st.body, e1, rets)
            self.block(st.orelse, e2, rets)
            for k in set(e1) | set(e2):
                a, b = e1.get(k, Fraction(0)), e2.get(k, Fraction(0))
                env[k] = a if a == b else (a if k not in e2 else (
                    b if k not in e1 else MIXED))
            return
        if isinstance(st, (ast.For, ast.While)):
            for _ in range(2):
                self.block(st.body, env, rets)
            return
        if isinstance(st, ast.With):
            self.block(st.body, env, rets)
            return
        if isinstance(st, (ast.Raise, ast.Pass)):
            return
        raise Unsupported(f"degree analysis: statement {type(st).__name__}")

    def expr(self, e, env):
        Z = Fraction(0)
        if isinstance(e, ast.Constant):
            return Z
        if isinstance(e, ast.Name):
            return env.get(e.id, Z)
        if isinstance(e, (ast.Tuple, ast.List)):
            ds = [self.expr(x, env) for x in e.elts]
            out = ds[0] if ds else Z
            for d in ds[1:]:
                out = same(out, d)
            return out
        if isinstance(e, ast.UnaryOp):
            return self.expr(e.operand, env)
        if isinstance(e, ast.BinOp):
            a, b = self.expr(e.left, env), self.expr(e.right, env)
            if isinstance(e.op, (ast.Add, ast.Sub)):
                return same(a, b)
            if isinstance(e.op, (ast.Mult, ast.MatMult)):
                return add(a, b)
            if isinstance(e.op, ast.Div):
                return add(a, neg(b))
            if isinstance(e.op, ast.Pow):
                if isinstance(e.right, ast.Constant) and isinstance(
                        e.right.value, (int, float)):
                    return MIXED if a == MIXED else a * Fraction(e.right.value)
                return MIXED if a != 0 else Z
            return MIXED if (a != 0 or b != 0) else Z
        if isinstance(e, ast.Compare):
            return Z
        if isinstance(e, ast.BoolOp):
            return Z
        if isinstance(e, ast.Attribute):
            key = ast.unparse(e)
            if key in env:
                return env[key]
            if isinstance(e.value, ast.Call) and isinstance(
                    e.value.func, ast.Attribute) \
                    and e.value.func.attr == "normalized":
                return Z            # a normalised object: degree 0
            if e.attr in ("minkowski", "point"):
                return Z if key not in env else env[key]
            if isinstance(e.value, ast.Name) and e.value.id in ("np", "utils"):
                return Z
            if e.attr in ("shape", "ndim", "dtype"):
                return Z
            return self.expr(e.value, env)
        if isinstance(e, ast.Subscript):
            return self.expr(e.value, env)
        if isinstance(e, ast.IfExp):
            return same(self.expr(e.body, env), self.expr(e.orelse, env))
        if isinstance(e, ast.Call):
            return self.callexpr(e, env)
        raise Unsupported(f"degree analysis: expression {type(e).__name__}")

    def callexpr(self, e, env):
        Z = Fraction(0)
        name = ast.unparse(e.func)
        # results that are lengths whatever they are bound to
        if isinstance(e.func, ast.Attribute) and e.func.attr in getattr(
                self, "length_attrs", ()):
            return Fraction(1)
        args = [self.expr(a, env) for a in e.args]
        fn0 = self.funcs.get(name)
        if fn0 is not None and e.keywords:
            # keyword arguments of a package function take their position
            params = [a.arg for a in fn0.args.args]
            kwd = {k.arg: k.value for k in e.keywords if k.arg is not None}
            while len(args) < len(params) and params[len(args)] in kwd:
                args.append(self.expr(kwd[params[len(args)]], env))
        if name in ZERO:
            return Z
        if name in SAME:
            return args[0] if args else Z
        if name == "np.sqrt":
            return MIXED if args[0] == MIXED else args[0] / 2
        if name in ("np.square",):
            return MIXED if args[0] == MIXED else args[0] * 2
        if name in TRANSCENDENTAL:
            return Z if all(a == 0 for a in args) else MIXED
        if name in ("np.stack", "np.concatenate"):
            return args[0] if args else Z
        if name == "np.where" and len(args) == 3:
            # a value taken from one of two alternatives of equal degree;
            # numeric literals (a sign factor -1 / 1) have degree 0
            return same(args[1], args[2])
        if name == "np.divide":
            return add(args[0], neg(args[1]))
        if name in ("np.multiply", "np.matmul", "utils.matrix_product",
                    "matrix_product"):
            return add(args[0], args[1])
        if isinstance(e.func, ast.Attribute) and not name.startswith(
                ("np.", "utils.")):
            recv = self.expr(e.func.value, env)
            if e.func.attr in ("astype", "copy", "swapaxes", "squeeze",
                               "reshape", "sum", "conjugate", "transpose"):
                return recv
        fn = self.funcs.get(name)
        if fn is not None:
            # keyword arguments take their parameter's position
            params = [a.arg for a in fn.args.args]
            kwd = {k.arg: self.expr(k.value, env) for k in e.keywords
                   if k.arg is not None}
            degs = list(args)
            if any(k in params[len(degs):] for k in kwd):
                last = max(params.index(k) for k in kwd if k in params)
                while len(degs) <= last:
                    degs.append(kwd.get(params[len(degs)], Fraction(0)))
            return self.call(fn, degs)
        raise Unsupported(f"degree analysis: call {name}")


def neg(d):
    return MIXED if d == MIXED else -d


def _fmt(d):
    return "inhomogeneous" if d == MIXED else str(d)


ATTR_TABLE = [
    # (rel, method, attribute expression scaled, expected degree, why)
    (HYP, "TangentVector.angle", "other.vector", 0,
     "the angle does not depend on the length of the other tangent vector"),
    (HYP, "TangentVector.angle", "self.vector", 0,
     "the angle does not depend on the length of this tangent vector"),
]

TABLE = [
    # (rel, function, parameter, expected degree, why)
    (CORE, "projection", "v1", 1, "the projection of v1 is linear in v1"),
    (CORE, "projection", "v2", 0,
     "the projection onto the line of v2 does not depend on the scale of v2"),
    (CORE, "normalize", "vectors", 0,
     "a normalised vector does not depend on the scale of the input"),
    (HYP, "hyperboloid_coords", "points", 0,
     "the point of the unit hyperboloid does not depend on the scale of the "
     "homogeneous coordinates"),
    (HYP, "project_to_hyperboloid", "basepoint", 0,
     "the tangent space at a point does not depend on the scale of the "
     "point's representative"),
    (HYP, "project_to_hyperboloid", "tangent_vector", 1,
     "projecting to the tangent space is linear in the vector"),
]


def _run_attr(dg, fnode, attr):
    env = {a.arg: Fraction(0) for a in fnode.args.args}
    env[attr] = Fraction(1)
    rets = []
    dg.false_flags = [set()]
    dg.block(fnode.body, env, rets)
    out = rets[0] if rets else Fraction(0)
    for x in rets[1:]:
        out = same(out, x)
    return out


def rule_hd1(ctx):
    r = ctx.r
    r.rule("HD1", "homogeneity degrees (abstract interpretation over "
                  "degrees of homogeneity): each helper has the stated "
                  "degree in the stated homogeneous argument; a sum of "
                  "terms of different degree is inhomogeneous and depends "
                  "on the scale of the representative")
    core = ctx.p.module_by_rel(CORE)
    hyp = ctx.p.module_by_rel(HYP)
    funcs = {}
    for n in core.tree.body:
        if isinstance(n, ast.FunctionDef):
            funcs[n.name] = n
            funcs["utils." + n.name] = n
    core_bare = dict(funcs)
    for n in hyp.tree.body:
        if isinstance(n, ast.FunctionDef):
            funcs[n.name] = n
    for rel, fname, param, want, why in TABLE:
        f = ctx.p.get_function(rel, fname)
        r.analysed(f)
        table = core_bare if rel == CORE else funcs
        dg = Deg(table)
        degs = [Fraction(1) if p == param else Fraction(0) for p in f.params]
        inst = f"{fname}[{param}]"
        try:
            got = dg.call(f.node, degs)
        except Unsupported as e:
            r.note("HD1", loc(f, f.node), inst,
                   f"not evaluated: {e}")
            continue
        if got != MIXED and got == Fraction(want):
            r.ok("HD1", inst, loc(f, f.node), "",
                 f"degree {want} in `{param}`: {why}")
        else:
            r.violation(
                "HD1", f"{f.fq}|{param}", loc(f, f.node), inst,
                f"{fname} is {_fmt(got)} of degree "
                f"{'' if got == MIXED else ''}in `{param}` (expected degree "
                f"{want}: {why}). Homogeneous coordinates are only defined "
                "up to scale, so the result changes when the representative "
                "is rescaled (e.g. a point built from Klein coordinates, "
                "whose stored vector is not unit-normalised)",
                instance=inst)


def rule_hd1_attr(ctx):
    r = ctx.r
    core = ctx.p.module_by_rel(CORE)
    hyp = ctx.p.module_by_rel(HYP)
    funcs = {}
    for n in core.tree.body:
        if isinstance(n, ast.FunctionDef):
            funcs["utils." + n.name] = n
    for n in hyp.tree.body:
        if isinstance(n, ast.FunctionDef):
            funcs[n.name] = n
    for n in core.tree.body:
        if isinstance(n, ast.FunctionDef):
            funcs.setdefault(n.name, n)
    for rel, q, attr, want, why in ATTR_TABLE:
        f = ctx.p.get_function(rel, q)
        r.analysed(f)
        inst = f"{q}[{attr}]"
        dg = Deg(funcs)
        try:
            got = _run_attr(dg, f.node, attr)
        except Unsupported as e:
            r.note("HD1", loc(f, f.node), inst, f"not evaluated: {e}")
            continue
        if got != MIXED and got == Fraction(want):
            r.ok("HD1", inst, loc(f, f.node), "",
                 f"degree {want} in `{attr}`: {why}")
        else:
            r.violation(
                "HD1", f"{f.fq}|{attr}", loc(f, f.node), inst,
                f"{q} is {_fmt(got)} in `{attr}` (expected degree {want}: "
                f"{why}): for a tangent vector that is not unit length the "
                "reported angle is wrong / NaN, so the law of cosines fails",
                instance=inst)


# ---------------------------------------------------------------------------
# HD2: dimensional homogeneity of comparisons (lengths vs squared lengths)

CP = "geometry_tools/complex_projective.py"


def rule_hd2(ctx):
    r = ctx.r
    r.rule("HD2", "dimensional analysis: in CP1Disk.center_inside (and the "
                  "affine disk predicates of utils.core) both sides of every "
                  "comparison have the same degree in the unit of length "
                  "(a distance is compared with a radius, a squared "
                  "distance with a squared radius)")
    core = ctx.p.module_by_rel(CORE)
    funcs = {}
    for n in core.tree.body:
        if isinstance(n, ast.FunctionDef):
            funcs["utils." + n.name] = n
            funcs[n.name] = n
    # lengths are recognised by where they come from, not by the names they
    # are bound to: affine coordinates, circle centres / radii, and the
    # centre / radius parameters of the affine disk predicates
    targets = [
        (CP, "CP1Disk.center_inside", 0),
        (CORE, "disk_interactions", 4),
        (CORE, "affine_disks_contain", 4),
    ]
    for rel, q, nlen in targets:
        f = ctx.p.get_function(rel, q)
        r.analysed(f)
        dg = Deg(funcs)
        dg.false_flags = [set()]
        dg.length_attrs = {"real_affine_coords", "affine_coords",
                           "circle_parameters"}
        pnames = [a.arg for a in f.node.args.args if a.arg != "self"]
        lengths = {p: 1 for p in pnames[:nlen]}
        env = {a.arg: Fraction(0) for a in f.node.args.args}
        bad = []
        ncmp = 0

        def walk(body):
            nonlocal ncmp
            for st in body:
                # bind names first (length-typed locals by table)
                try:
                    if isinstance(st, ast.Assign):
                        try:
                            d = dg.expr(st.value, env)
                        except Unsupported:
                            d = Fraction(0)
                        for t in st.targets:
                            for nm in ast.walk(t):
                                if isinstance(nm, ast.Name) and isinstance(
                                        nm.ctx, ast.Store):
                                    env[nm.id] = Fraction(lengths[nm.id]) \
                                        if nm.id in lengths else d
                    for c in ast.walk(st) if not isinstance(
                            st, (ast.If, ast.For, ast.While, ast.With)) \
                            else ast.walk(getattr(st, "test", ast.Pass())):
                        if isinstance(c, ast.Compare) and len(c.ops) == 1 \
                                and isinstance(c.ops[0], (ast.Lt, ast.LtE,
                                                          ast.Gt, ast.GtE)):
                            a = dg.expr(c.left, env)
                            b = dg.expr(c.comparators[0], env)
                            ncmp += 1
                            if a == MIXED or b == MIXED or a != b:
                                bad.append((c, a, b))
                except Unsupported:
                    pass
                for fld in ("body", "orelse"):
                    sub = getattr(st, fld, None)
                    if isinstance(sub, list):
                        walk(sub)
        for p_, dgr in lengths.items():
            if p_ in env:
                env[p_] = Fraction(dgr)
        walk(f.node.body)
        inst = f"{q}:comparisons"
        if not bad:
            r.ok("HD2", inst, loc(f, f.node), "",
                 f"{ncmp} comparison(s), all dimensionally homogeneous")
        else:
            c, a, b = bad[0]
            r.violation(
                "HD2", f"{f.fq}|{ast.unparse(c)[:80]}", loc(f, c),
                ast.unparse(c)[:140],
                f"`{ast.unparse(c)[:80]}` compares a quantity of degree "
                f"{_fmt(a)} in the unit of length with one of degree "
                f"{_fmt(b)}: the answer changes when all coordinates are "
                "rescaled, and is wrong whenever the radius is not 1",
                instance=inst)
