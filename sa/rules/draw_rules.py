"""C19: DR1 (dimension guard pass-through), DR2 (single transform),
DR3 (degree units into matplotlib arc APIs)."""
import ast

from ..project import AnalysisError, loc, norm_stmt
from ..flow import dotted, eval_test
from ..rules.common import const_value

DRAW = "geometry_tools/drawtools.py"
HYP = "geometry_tools/hyperbolic.py"
CLASSES = ["ProjectiveDrawing", "ProjectiveDrawing3D", "HyperbolicDrawing",
           "CP1Drawing"]
# helper that receives polygons already preprocessed by draw_polygon
HELPERS = {"draw_nonaff_polygon": "called by draw_polygon with the already "
                                  "preprocessed polygon list"}
NO_OBJECT = {"draw_plane"}
# kinds named in the property statement
STATEMENT_KINDS = {"draw_point", "draw_polygon", "draw_geodesic",
                   "draw_proj_segment", "draw_horosphere", "draw_curve",
                   "draw_line"}


def _pos(n):
    return (n.lineno, n.col_offset)


def _only_through_preprocess(f, obj):
    """Every load of parameter `obj` in f is the sole argument of
    self.preprocess_object(..) (at least one)."""
    parents = f.module.parents
    good = 0
    for x in ast.walk(f.node):
        if isinstance(x, ast.Name) and x.id == obj:
            if isinstance(x.ctx, ast.Store):
                return False
            par = parents[x]
            if isinstance(par, ast.Call) and dotted(par.func) == \
                    "self.preprocess_object" and par.args == [x]:
                good += 1
            else:
                return False
    return good >= 1


def _delegated_to_guarding_helper(ctx, cls, call, arg):
    """`arg` is handed to a PRIVATE method of the same class (self._h(..))
    whose corresponding parameter only enters through preprocess_object."""
    if not (isinstance(call, ast.Call) and isinstance(call.func, ast.Attribute)
            and dotted(call.func.value) == "self"
            and call.func.attr.startswith("_")):
        return False
    h = cls.methods.get(call.func.attr) or ctx.p.find_method(
        cls, call.func.attr)
    if h is None:
        return False
    hp = [p for p in h.params if p != "self"]
    name = None
    for i, a in enumerate(call.args):
        if a is arg and i < len(hp):
            name = hp[i]
    for k in call.keywords:
        if k.value is arg and k.arg in hp:
            name = k.arg
    return name is not None and _only_through_preprocess(h, name)


def rule_dr1(ctx, min_methods=13):
    r = ctx.r
    r.rule("DR1", "every public draw_* method uses its object parameter "
                  "only as the argument of self.preprocess_object(..), and "
                  "each preprocess_object raises GeometryError under a test "
                  "of <obj>.dimension before returning")
    n = 0
    for cname in CLASSES:
        c = ctx.p.get_class(DRAW, cname)
        pre = c.methods.get("preprocess_object") or ctx.p.find_method(
            c, "preprocess_object")
        if pre is None:
            raise AnalysisError(f"{cname}.preprocess_object has vanished")
        if "preprocess_object" in c.methods:
            r.analysed(pre)
            obj = pre.params[1]
            guards = []
            for g in ast.walk(pre.node):
                if isinstance(g, ast.If) and f"{obj}.dimension" in dotted(g.test) \
                        and any(isinstance(s, ast.Raise) and s.exc is not None
                                and "GeometryError" in dotted(s.exc)
                                for s in g.body):
                    guards.append(g)
            rets = [x for x in ast.walk(pre.node) if isinstance(x, ast.Return)]
            if not guards:
                # the test may live in a helper that receives the object
                for cl in ast.walk(pre.node):
                    if not (isinstance(cl, ast.Call) and any(
                            dotted(a) == obj for a in cl.args)):
                        continue
                    g_f = None
                    try:
                        if isinstance(cl.func, ast.Name):
                            g_f = ctx.p.get_function(DRAW, cl.func.id)
                        elif isinstance(cl.func, ast.Attribute) \
                                and dotted(cl.func.value) == "self":
                            g_f = ctx.p.find_method(c, cl.func.attr)
                    except AnalysisError:
                        g_f = None
                    if g_f is None:
                        continue
                    off = 1 if g_f.cls is not None else 0
                    idx = [i for i, a in enumerate(cl.args)
                           if dotted(a) == obj]
                    pn = g_f.params[idx[0] + off] \
                        if idx[0] + off < len(g_f.params) else None
                    for g in ast.walk(g_f.node):
                        if isinstance(g, ast.If) and pn is not None \
                                and f"{pn}.dimension" in dotted(g.test) \
                                and any(isinstance(s2, ast.Raise)
                                        and s2.exc is not None
                                        and "GeometryError" in dotted(s2.exc)
                                        for s2 in g.body):
                            r.analysed(g_f)
                            # position of the call stands for the guard
                            guards.append(cl)
            ok = bool(guards) and rets and all(
                _pos(g) < _pos(rt) for g in guards[:1] for rt in rets)
            inst = f"{cname}.preprocess_object:guard"
            if ok:
                # the expected dimension is a literal compared with !=
                t = getattr(guards[0], "test", None)
                lit = None
                if isinstance(t, ast.Compare) and len(t.ops) == 1 \
                        and isinstance(t.ops[0], ast.NotEq):
                    lit = const_value(t.comparators[0])
                r.ok("DR1", inst, loc(pre, guards[0]),
                     dotted(getattr(guards[0], "test", guards[0]))[:100],
                     f"rejects objects whose dimension is not {lit}")
            else:
                r.violation(
                    "DR1", f"{pre.fq}|guard", loc(pre, pre.node),
                    f"{cname}.preprocess_object",
                    "no `raise GeometryError` under a test of "
                    f"{obj}.dimension precedes the return: objects of the "
                    "wrong dimension are drawn instead of rejected",
                    instance=inst)
        for mname, f in sorted(c.methods.items()):
            if not mname.startswith("draw_") or mname in NO_OBJECT:
                continue
            if mname in HELPERS:
                r.note("DR1", loc(f, f.node), f"{cname}.{mname}",
                       "helper, exempt: " + HELPERS[mname])
                continue
            if len(f.params) < 2:
                continue
            n += 1
            r.analysed(f)
            obj = f.params[1]
            stores = [x for x in ast.walk(f.node) if isinstance(x, ast.Name)
                      and x.id == obj and isinstance(x.ctx, ast.Store)]
            first_store = min((_pos(x) for x in stores), default=None)
            loads = [x for x in ast.walk(f.node) if isinstance(x, ast.Name)
                     and x.id == obj and isinstance(x.ctx, ast.Load)]
            parents = f.module.parents
            bad = []
            good = 0
            for x in loads:
                if first_store is not None and _pos(x) > first_store:
                    continue      # a re-bound (loop) variable of that name
                par = parents[x]
                if isinstance(par, ast.Call) and dotted(par.func) == \
                        "self.preprocess_object" and par.args == [x]:
                    good += 1
                elif _delegated_to_guarding_helper(ctx, c, par, x):
                    good += 1
                else:
                    bad.append(x)
            inst = f"{cname}.{mname}"
            if good >= 1 and not bad:
                r.ok("DR1", inst, loc(f, f.node), "",
                     f"`{obj}` only enters through self.preprocess_object")
            elif good == 0 and not bad:
                r.violation("DR1", f"{f.fq}|unused", loc(f, f.node), inst,
                            f"`{obj}` is never passed to "
                            "self.preprocess_object", instance=inst)
            else:
                x = bad[0]
                st = x
                while not isinstance(st, ast.stmt):
                    st = parents[st]
                r.violation(
                    "DR1", f"{f.fq}|raw-use|{norm_stmt(st)[:80]}",
                    loc(f, x), norm_stmt(st)[:160],
                    f"`{obj}` is used directly here, bypassing "
                    "self.preprocess_object: the dimension guard and the "
                    "drawing transform are skipped for this use",
                    instance=inst)
    r.require_count("DR1", "public draw_* methods", n, min_methods)


def _transform_apps(node):
    out = []
    for x in ast.walk(node):
        if isinstance(x, ast.BinOp) and isinstance(x.op, ast.MatMult) \
                and "self.transform" in (dotted(x.left), dotted(x.right)):
            out.append(x)
        if isinstance(x, ast.Call) and dotted(x.func) in (
                "self.transform.apply",):
            out.append(x)
    return out


def rule_dr2(ctx):
    r = ctx.r
    r.rule("DR2", "the drawing transform is applied exactly once: inside "
                  "preprocess_object (self.transform @ obj), and not again "
                  "in the draw_* methods of the kinds named in the property")
    for cname in CLASSES:
        c = ctx.p.get_class(DRAW, cname)
        if "preprocess_object" in c.methods:
            pre = c.methods["preprocess_object"]
            apps = _transform_apps(pre.node)
            inst = f"{cname}.preprocess_object:transform"
            left = [a for a in apps if isinstance(a, ast.BinOp)
                    and dotted(a.left) == "self.transform"]
            if len(apps) == 1 and (left or isinstance(apps[0], ast.Call)):
                r.ok("DR2", inst, loc(pre, apps[0]), dotted(apps[0])[:100],
                     "transform applied once, on the left")
            else:
                r.violation(
                    "DR2", f"{pre.fq}|transform", loc(pre, pre.node),
                    f"{cname}.preprocess_object",
                    f"self.transform is applied {len(apps)} time(s) "
                    f"({[dotted(a)[:50] for a in apps]}) instead of exactly "
                    "once as `self.transform @ obj`: objects are not placed "
                    "at their coordinates after the drawing's transform",
                    instance=inst)
        for mname, f in sorted(c.methods.items()):
            if not mname.startswith("draw_"):
                continue
            apps = _transform_apps(f.node)
            inst = f"{cname}.{mname}:transform"
            if not apps:
                r.ok("DR2", inst, loc(f, f.node), "",
                     "no second application of the transform")
            elif mname in STATEMENT_KINDS:
                r.violation(
                    "DR2", f"{f.fq}|double", loc(f, apps[0]),
                    dotted(apps[0])[:120],
                    "the drawing transform is applied again after "
                    "preprocess_object already applied it: the object is "
                    "drawn at T(T(x))", instance=inst)
            else:
                r.note("DR2", loc(f, apps[0]), dotted(apps[0])[:100],
                       f"{cname}.{mname} applies the transform a second "
                       "time; this object kind is not in the property's "
                       "statement (latent)")


def _degrees_default(ctx):
    """class name -> default of `degrees` of its circle_parameters."""
    out = {}
    m = ctx.p.module_by_rel(HYP)
    for c in m.classes.values():
        f = c.methods.get("circle_parameters")
        if f is None:
            continue
        d = f.defaults().get("degrees")
        out[c.name] = (const_value(d, "?") if d is not None else None, f)
    return out


def rule_dr3(ctx, min_sites=4):
    r = ctx.r
    r.rule("DR3", "every circle_parameters call in drawtools.py whose "
                  "angles reach matplotlib's degree-valued APIs "
                  "(Arc(theta1=, theta2=), Path.arc) asks for degrees "
                  "(explicit degrees=True, or omitted while every "
                  "implementation's default is True)")
    defaults = _degrees_default(ctx)
    m = ctx.p.module_by_rel(DRAW)
    # which methods feed a degree API, directly or via a self.<m>() call
    feeds = set()
    for c in m.classes.values():
        for f in c.methods.values():
            for x in ast.walk(f.node):
                if isinstance(x, ast.Call):
                    nm = dotted(x.func)
                    if nm == "Arc" and any(k.arg in ("theta1", "theta2")
                                           for k in x.keywords):
                        feeds.add(f.name)
                    if nm in ("Path.arc", "Path.wedge"):
                        feeds.add(f.name)
    changed = True
    while changed:
        changed = False
        for c in m.classes.values():
            for f in c.methods.values():
                if f.name in feeds:
                    continue
                for x in ast.walk(f.node):
                    if isinstance(x, ast.Call) and dotted(x.func).startswith(
                            "self.") and dotted(x.func)[5:] in feeds:
                        # only if an angle-like argument is passed
                        feeds.add(f.name)
                        changed = True
    n = 0
    for c in m.classes.values():
        for f in c.methods.values():
            if f.name not in feeds:
                continue
            for x in ast.walk(f.node):
                if not (isinstance(x, ast.Call) and isinstance(
                        x.func, ast.Attribute)
                        and x.func.attr == "circle_parameters"):
                    continue
                n += 1
                r.analysed(f)
                inst = f"{c.name}.{f.name}:{dotted(x)[:60]}"
                kw = None
                for k in x.keywords:
                    if k.arg == "degrees":
                        kw = const_value(k.value, "?")
                if x.args:
                    r.note("DR3", loc(f, x), dotted(x)[:100],
                           "positional arguments; unit not judged")
                    continue
                if kw is True:
                    r.ok("DR3", inst, loc(f, x), dotted(x)[:100],
                         "explicit degrees=True")
                elif kw is None:
                    bad = {k: v[0] for k, v in defaults.items()
                           if v[0] is not True}
                    if not bad:
                        r.ok("DR3", inst, loc(f, x), dotted(x)[:100],
                             "degrees omitted; every circle_parameters "
                             f"implementation defaults to True "
                             f"({sorted(defaults)})")
                    else:
                        r.violation(
                            "DR3", f"{f.fq}|{dotted(x)[:80]}|default",
                            loc(f, x), dotted(x)[:120],
                            "degrees is omitted here but "
                            f"{sorted(bad)}.circle_parameters default(s) to "
                            f"{sorted(set(map(str, bad.values())))}: radians "
                            "reach matplotlib's degree-valued arc API",
                            instance=inst)
                else:
                    r.violation(
                        "DR3", f"{f.fq}|{dotted(x)[:80]}", loc(f, x),
                        dotted(x)[:120],
                        f"angles are requested with degrees={kw} but are "
                        "passed on to Arc(theta1=, theta2=)/Path.arc, which "
                        "take degrees: the arc's angular extent is wrong by "
                        "a factor 180/pi", instance=inst)
    r.require_count("DR3", "circle_parameters consumers feeding arcs", n,
                    min_sites)


DR4_EXEMPT = {"draw_nonaff_polygon": "handles polygons leaving the standard "
                                     "chart 0 by construction "
                                     "(in_standard_chart tests coordinate 0)"}


def rule_dr4(ctx, min_sites=4):
    r = ctx.r
    r.rule("DR4", "in ProjectiveDrawing every conversion to affine "
                  "coordinates (.affine_coords / .endpoint_affine_coords) "
                  "passes chart_index=self.chart_index: points, segments "
                  "and polygons are placed in the drawing's chart")
    c = ctx.p.get_class(DRAW, "ProjectiveDrawing")
    n = 0
    for mname, f in sorted(c.methods.items()):
        if not mname.startswith("draw_"):
            continue
        for x in ast.walk(f.node):
            if isinstance(x, ast.Call) and isinstance(x.func, ast.Attribute) \
                    and x.func.attr in ("affine_coords",
                                        "endpoint_affine_coords"):
                kw = {k.arg: dotted(k.value) for k in x.keywords}
                inst = f"ProjectiveDrawing.{mname}:{dotted(x.func)[:40]}"
                if mname in DR4_EXEMPT:
                    r.note("DR4", loc(f, x), dotted(x)[:80],
                           "exempt: " + DR4_EXEMPT[mname])
                    continue
                n += 1
                r.analysed(f)
                if kw.get("chart_index") == "self.chart_index":
                    r.ok("DR4", inst, loc(f, x), dotted(x)[:100],
                         "drawing's chart is forwarded")
                else:
                    r.violation(
                        "DR4", f"{f.fq}|{dotted(x.func)}", loc(f, x),
                        dotted(x)[:140],
                        "affine coordinates are taken in chart "
                        f"{kw.get('chart_index', '0 (the default)')} instead "
                        "of the drawing's chart_index: in a drawing created "
                        "with chart_index != 0 this kind of object is placed "
                        "at its chart-0 coordinates and no longer lines up "
                        "with the others", instance=inst)
    r.require_count("DR4", "affine conversions in ProjectiveDrawing", n,
                    min_sites)
    c3 = ctx.p.get_class(DRAW, "ProjectiveDrawing3D")
    for mname, f in sorted(c3.methods.items()):
        for x in ast.walk(f.node):
            if isinstance(x, ast.Call) and isinstance(x.func, ast.Attribute) \
                    and x.func.attr == "affine_coords" \
                    and not any(k.arg == "chart_index" for k in x.keywords):
                r.note("DR4", loc(f, x), dotted(x)[:80],
                       "ProjectiveDrawing3D ignores its chart_index here "
                       "(3-dimensional drawings are outside the property's "
                       "statement; latent)")


# ---------------------------------------------------------------------------
# NAN1: a radius is compared with the threshold only next to its NaN test


def rule_nan1(ctx, min_sites=3):
    r = ctx.r
    r.rule("NAN1", "circle_parameters reports radius NaN for geodesics "
                   "through the Poincare origin / vertical half-plane "
                   "geodesics; every comparison of a radius with the "
                   "straight-line threshold therefore sits in one boolean "
                   "expression with np.isnan of the same radius (a bare "
                   "comparison sends NaN down the circular-arc branch)")
    m = ctx.p.module_by_rel(DRAW)
    n_sites = 0
    for f in ctx.p.all_functions:
        if f.module is not m:
            continue
        parents = f.module.parents
        for c in ast.walk(f.node):
            if not (isinstance(c, ast.Compare) and len(c.ops) == 1):
                continue
            sides = [c.left, c.comparators[0]]
            thr = [x for x in sides if "radius_threshold" in dotted(x).lower()]
            var = [x for x in sides if isinstance(x, ast.Name)
                   and "threshold" not in x.id.lower()]
            if not thr or not var:
                continue
            x = var[0].id
            n_sites += 1
            r.analysed(f)
            top = c
            while True:
                p = parents.get(top)
                if isinstance(p, (ast.BoolOp, ast.UnaryOp)) or (
                        isinstance(p, ast.BinOp)
                        and isinstance(p.op, (ast.BitAnd, ast.BitOr))):
                    top = p
                    continue
                break
            guarded = any(isinstance(k, ast.Call)
                          and dotted(k.func) in ("np.isnan", "math.isnan",
                                                 "np.isfinite")
                          and k.args and dotted(k.args[0]) == x
                          for k in ast.walk(top))
            inst = f"{f.qualname}:{dotted(c)}"
            if guarded:
                r.ok("NAN1", inst, loc(f, c), dotted(top)[:100],
                     "the comparison is combined with the NaN test")
            else:
                r.violation(
                    "NAN1", f"{f.fq}|{dotted(c)}", loc(f, c),
                    dotted(top)[:140],
                    f"`{dotted(c)}` is evaluated without np.isnan({x}): a "
                    "geodesic through the origin of the Poincare disk (or a "
                    "vertical one in the half-plane) has radius NaN, every "
                    "comparison with NaN is False, and the edge is drawn "
                    "through the circular-arc branch with NaN parameters "
                    "(ValueError, nothing is added to the axes)",
                    instance=inst)
    if n_sites < min_sites:
        raise AnalysisError(f"NAN1: {n_sites} radius/threshold comparisons "
                            f"found, {min_sites} confirmed by hand (stale "
                            "table)")
    return n_sites


PYPLOT_ARTIST_FUNCS = {"plot", "scatter", "fill", "fill_between", "bar",
                       "text", "annotate", "axhline", "axvline", "arrow",
                       "imshow", "errorbar", "step", "stem", "hlines",
                       "vlines", "quiver", "contour", "polar", "loglog",
                       "semilogx", "semilogy", "hist"}


def rule_curax1(ctx):
    r = ctx.r
    r.rule("CURAX1", "a drawing adds its artists to ITS OWN axes: every "
                     "artist-creating call in a draw_* method goes through "
                     "`self.ax` (30 of the 33 sites on the pinned tree); "
                     "the pyplot state-machine functions (plt.plot, "
                     "plt.scatter, plt.gca().., ..) draw on whatever axes "
                     "happen to be current -- with two drawings alive the "
                     "points of the first land in the second, at the first "
                     "one's model coordinates")
    n = 0
    mod = ctx.p.module_by_rel(DRAW)
    for f in ctx.p.all_functions:
        if f.module is not mod or f.cls is None \
                or not f.name.startswith("draw_"):
            continue
        r.analysed(f)
        for c in ast.walk(f.node):
            if not (isinstance(c, ast.Call)
                    and isinstance(c.func, ast.Attribute)):
                continue
            base = dotted(c.func.value)
            if base in ("plt", "pyplot", "matplotlib.pyplot") \
                    and c.func.attr in PYPLOT_ARTIST_FUNCS | {"gca", "gcf"}:
                n += 1
                r.violation(
                    "CURAX1", f"{f.fq}|plt.{c.func.attr}", loc(f, c),
                    dotted(c)[:80],
                    f"{f.qualname} draws with pyplot's `plt.{c.func.attr}`, "
                    "i.e. on the CURRENT axes, not on self.ax: create "
                    "drawing d1, then d2 (another figure, or a subplot of "
                    "another model), call d1.draw_point(p): the marker is "
                    "added to d2's axes at d1's model coordinates and d1 "
                    "gets no artist",
                    instance=f"{f.qualname}:plt.{c.func.attr}")
            elif base == "self.ax":
                n += 1
                r.ok("CURAX1", f"{f.qualname}:{c.func.attr}@{c.lineno}",
                     loc(f, c), dotted(c)[:60], "through self.ax")
    if n == 0:
        r.note("CURAX1", DRAW, "draw_* methods",
               "no artist-creating call found (not judged)")
