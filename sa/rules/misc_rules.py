"""Further repository-specific lints written from seeded changes of round 7:
PINV1, INVS1, BFS3, NP3, ENUM1, SGN1, M5."""
import ast

from ..project import AnalysisError, loc, norm_stmt
from ..flow import dotted, eval_test
from ..norm import single_defs, forward_subst
from .common import const_value

CORE = "geometry_tools/utils/core.py"
REP = "geometry_tools/representation.py"
FSA = "geometry_tools/automata/fsa.py"
HYP = "geometry_tools/hyperbolic.py"
PROJ = "geometry_tools/projective.py"


def rule_pinv1(ctx):
    r = ctx.r
    r.rule("PINV1", "utils.invert returns the exact inverse "
                    "(np.linalg.inv, or the Sage inverse): it never "
                    "substitutes a pseudo-inverse, which for an invertible "
                    "but ill-conditioned matrix (a strong boost, "
                    "diag(1e9, 1, 1e-9)) discards the smallest singular "
                    "value, so that A.inv() @ (A @ X) != X")
    f = ctx.p.get_function(CORE, "invert")
    r.analysed(f)
    bad = [c for c in ast.walk(f.node) if isinstance(c, ast.Call)
           and dotted(c.func).split(".")[-1] in ("pinv", "lstsq", "pinvh")]
    if bad:
        r.violation("PINV1", f"{f.fq}|{dotted(bad[0])[:50]}", loc(f, bad[0]),
                    dotted(bad[0])[:120],
                    f"`{dotted(bad[0].func)}` is not an inverse: with the "
                    "default rcond it zeroes singular values below 1e-15 "
                    "times the largest, so the 'inverse' of an invertible "
                    "matrix of condition number above that is rank "
                    "deficient and the group-action law fails",
                    instance="invert")
    else:
        r.ok("PINV1", "invert", loc(f, f.node), "", "no pseudo-inverse")


def rule_invs1(ctx):
    r = ctx.r
    r.rule("INVS1", "Representation.__setitem__ always lets the inverse "
                    "letter be recomputed (compute_inverse is the literal "
                    "True or left at its default): a generator and its "
                    "inverse letter are stored as mutually inverse matrices "
                    "after every assignment, whatever was assigned before")
    f = ctx.p.get_function(REP, "Representation.__setitem__")
    r.analysed(f)
    calls = [c for c in ast.walk(f.node) if isinstance(c, ast.Call)
             and dotted(c.func).split(".")[-1] in ("set_generator",
                                                   "_set_generator")]
    if not calls:
        r.note("INVS1", loc(f, f.node), "__setitem__",
               "does not delegate to set_generator (not judged)")
        return
    for c in calls:
        kw = next((k.value for k in c.keywords
                   if k.arg == "compute_inverse"), None)
        pa = ctx.p.positional_args(c)
        if kw is None and len(pa) > 2:
            kw = pa[2]
        if kw is None or (isinstance(kw, ast.Constant) and kw.value is True):
            r.ok("INVS1", "__setitem__", loc(f, c), dotted(c)[:90],
                 "the inverse letter is recomputed")
        else:
            r.violation(
                "INVS1", f"{f.fq}|compute_inverse", loc(f, c),
                dotted(c)[:140],
                f"compute_inverse is `{dotted(kw)}`, which can be false: "
                "after rep['a'] = M1; rep['A'] = inv(M1); rep['a'] = M2 the "
                "stored rep['A'] is still inv(M1), so rep['aA'] is not the "
                "identity and free reduction changes word images",
                instance="__setitem__")


def rule_bfs3(ctx):
    r = ctx.r
    r.rule("BFS3", "the breadth-first loops of the automaton run until the "
                   "queue is empty: their test is the queue alone. A second "
                   "conjunct ('all vertices already discovered') stops "
                   "while queued vertices still have their tie / k-letter "
                   "edges to add")
    for q in ("FSA.remove_long_paths", "FSA.automaton_multiple"):
        f = ctx.p.get_function(FSA, q)
        r.analysed(f)
        qn = None
        for n in ast.walk(f.node):
            if isinstance(n, ast.Assign) and isinstance(n.value, ast.Call) \
                    and dotted(n.value.func) in ("deque",
                                                 "collections.deque"):
                qn = dotted(n.targets[0])
        loops = [n for n in ast.walk(f.node) if isinstance(n, ast.While)]
        if qn is None or not loops:
            r.note("BFS3", loc(f, f.node), q, "worklist idiom not recognised")
            continue
        w = loops[0]
        t = w.test
        names = {x.id for x in ast.walk(t) if isinstance(x, ast.Name)}
        extra = isinstance(t, ast.BoolOp) and isinstance(t.op, ast.And)
        if qn in names and not extra:
            r.ok("BFS3", q, loc(f, w), dotted(t)[:60],
                 "runs until the queue is empty")
        elif extra:
            r.violation(
                "BFS3", f"{f.fq}|loop-test", loc(f, w), dotted(t)[:120],
                f"the loop also stops when `{dotted(t.values[-1])[:50]}` "
                "fails: vertices still in the queue at that moment are "
                "never expanded, so their shortest-path tie edges (the "
                "second side of every diamond) are missing from the result",
                instance=q)
        else:
            r.note("BFS3", loc(f, w), dotted(t)[:60],
                   "loop test does not mention the queue (not judged)")


def rule_np3(ctx, rels):
    r = ctx.r
    r.rule("NP3", "np.reciprocal is never applied to caller-typed data: on "
                  "an integer array it is integer division (1/5 -> 0), so "
                  "an integer parameter silently gives a singular matrix "
                  "while the same number as a float works")
    n = 0
    for rel in rels:
        m = ctx.p.module_by_rel(rel)
        for f in ctx.p.all_functions:
            if f.module is not m:
                continue
            defs = single_defs(f.node)
            for c in ast.walk(f.node):
                if not (isinstance(c, ast.Call) and dotted(c.func) in (
                        "np.reciprocal", "numpy.reciprocal") and c.args):
                    continue
                n += 1
                r.analysed(f)
                a = c.args[0]
                src = a
                if isinstance(a, ast.Name) and a.id in defs:
                    src = defs[a.id]
                txt = dotted(src)
                floaty = any(w in txt for w in (
                    "float", "astype('f", 'astype("f', "np.sqrt", "np.cos",
                    "np.sin", "np.exp", "integer_type=False")) or any(
                    k.arg == "dtype" for k in c.keywords)
                if floaty:
                    r.ok("NP3", f"{f.qualname}:reciprocal", loc(f, c),
                         dotted(c)[:80], "argument is made inexact first")
                else:
                    r.violation(
                        "NP3", f"{f.fq}|{dotted(c)[:60]}", loc(f, c),
                        dotted(c)[:120],
                        f"`{dotted(a)[:40]}` keeps the caller's dtype: for a "
                        "Python int, an np.int64 or an integer array "
                        "np.reciprocal returns 0 (integer division), so "
                        "e.g. standard_loxodromic(2, 5) is singular while "
                        "standard_loxodromic(2, 5.0) is right",
                        instance=f"{f.qualname}:reciprocal")
    if n == 0:
        r.ok("NP3", "modules", ",".join(rels), "", "no np.reciprocal")


def rule_enum1(ctx, rels):
    r = ctx.r
    r.rule("ENUM1", "a model is compared with `==`, never with `is`: "
                    "hyperbolic.Model defines __eq__ so that the documented "
                    "string spellings ('poincare', 'halfplane', ...) and "
                    "aliases work; an identity test silently skips the arm "
                    "for them")
    n = 0
    bad = 0
    for rel in rels:
        m = ctx.p.module_by_rel(rel)
        for f in ctx.p.all_functions:
            if f.module is not m:
                continue
            for c in ast.walk(f.node):
                if not (isinstance(c, ast.Compare) and len(c.ops) == 1):
                    continue
                sides = [c.left, c.comparators[0]]
                if not any(isinstance(s, ast.Attribute) and dotted(
                        s.value).split(".")[-1] == "Model" for s in sides):
                    continue
                n += 1
                if isinstance(c.ops[0], (ast.Is, ast.IsNot)):
                    bad += 1
                    r.analysed(f)
                    r.violation(
                        "ENUM1", f"{f.fq}|{dotted(c)[:60]}", loc(f, c),
                        dotted(c)[:120],
                        "identity comparison with a Model member: for "
                        "model='poincare' / 'halfplane' (how the docs and "
                        "HyperbolicDrawing spell it) the test is false, the "
                        "arm is skipped without any error and e.g. the "
                        "angle pair is returned unordered",
                        instance=f"{f.qualname}:model-test")
    if bad == 0:
        r.ok("ENUM1", "modules", ",".join(rels), "",
             f"{n} comparison(s) with Model members, all by equality")


# np.sign(x) used as a +-1 factor is 0 where x is 0.  Reviewed sites: the
# argument (after substituting straight-line locals) and why it cannot vanish
# reviewed sign factors, recognised by what the argument IS (provenance), not
# by its text: function -> (recogniser name, reason)
SGN_REVIEWED = {
    "Point.unit_tangent_towards": (
        "minkowski-product-of-points",
        "the Minkowski product of two timelike vectors never vanishes"),
    "find_definite_isometry": (
        "qr-diagonal",
        "the first diagonal entry of R is the norm of the first column "
        "(the given non-zero normal)"),
}


def _sgn_reviewed(ctx, f, arg, env):
    """the reason of the reviewed table if `arg` is the reviewed quantity of
    function f, else None"""
    ent = SGN_REVIEWED.get(f.qualname)
    if ent is None:
        return None
    kind, why = ent
    e = arg
    if isinstance(e, ast.Name) and env.get(e.id) is not None:
        e = env[e.id]
    if kind == "minkowski-product-of-points":
        if isinstance(e, ast.Call) and dotted(e.func).split(".")[-1] \
                == "apply_bilinear":
            pos = ctx.p.positional_args(e)
            if len(pos) >= 2 and all(isinstance(x, ast.Attribute)
                                     and x.attr == "proj_data"
                                     for x in pos[:2]):
                return why
        return None
    if kind == "qr-diagonal":
        if not (isinstance(e, ast.Subscript)
                and isinstance(e.value, ast.Name)):
            return None
        idx = e.slice.elts if isinstance(e.slice, ast.Tuple) else [e.slice]
        if len(idx) < 2 or [const_value(x) for x in idx[-2:]] != [0, 0]:
            return None
        for st in ast.walk(f.node):
            if isinstance(st, ast.Assign) and len(st.targets) == 1 \
                    and isinstance(st.targets[0], ast.Tuple) \
                    and len(st.targets[0].elts) == 2 \
                    and isinstance(st.targets[0].elts[1], ast.Name) \
                    and st.targets[0].elts[1].id == e.value.id \
                    and isinstance(st.value, ast.Call) \
                    and dotted(st.value.func).split(".")[-1] == "qr":
                return why
        return None
    return None


def rule_sgn1(ctx, rels):
    r = ctx.r
    r.rule("SGN1", "np.sign(x) used as a +-1 factor (multiplied into a "
                   "vector, a pivot or a matrix) is 0 where x is exactly 0 "
                   "-- a wall through the origin, a radial segment, a "
                   "normal with vanishing first coordinate. In the reviewed "
                   "functions every such factor is one whose argument "
                   "cannot vanish (frozen table with the reason); a new one "
                   "must select with np.where(x < 0, -1, 1) / np.copysign")
    n = 0
    for rel in rels:
        m = ctx.p.module_by_rel(rel)
        for f in ctx.p.all_functions:
            if f.module is not m:
                continue
            parents = f.module.parents
            try:
                _, env = forward_subst(f.node)
            except Exception:
                env = {}
            for c in ast.walk(f.node):
                if not (isinstance(c, ast.Call) and dotted(c.func) in (
                        "np.sign", "numpy.sign") and c.args):
                    continue
                # used in arithmetic (a +-1 factor or summand)?  A sign
                # that is only compared (`signs == 1`) is harmless
                def arithmetic_use(node):
                    cur = node
                    while cur in parents and not isinstance(
                            parents[cur], ast.stmt):
                        par = parents[cur]
                        if isinstance(par, ast.Compare):
                            return False
                        if isinstance(par, ast.BinOp) and isinstance(
                                par.op, (ast.Mult, ast.MatMult, ast.Div,
                                         ast.Add, ast.Sub)):
                            return True
                        cur = par
                    st_ = parents.get(cur)
                    return isinstance(st_, ast.AugAssign) and isinstance(
                        st_.op, (ast.Mult, ast.Add, ast.Sub, ast.Div))
                factor = arithmetic_use(c)
                if not factor:
                    st = c
                    while not isinstance(st, ast.stmt):
                        st = parents[st]
                    if isinstance(st, ast.Assign) and isinstance(
                            st.targets[0], ast.Name) and st.value is c:
                        nm = st.targets[0].id
                        for b in ast.walk(f.node):
                            if isinstance(b, ast.Name) and b.id == nm \
                                    and isinstance(b.ctx, ast.Load) \
                                    and arithmetic_use(b):
                                factor = True
                if not factor:
                    continue
                n += 1
                r.analysed(f)
                arg = c.args[0]
                txt = dotted(arg)
                if isinstance(arg, ast.Name) and arg.id in env \
                        and env[arg.id] is not None:
                    txt = dotted(env[arg.id])
                inst = f"{f.qualname}:sign-factor"
                why = _sgn_reviewed(ctx, f, arg, env)
                if why:
                    r.ok("SGN1", inst, loc(f, c), dotted(c)[:80],
                         "reviewed: " + why)
                elif f.qualname not in SGN_REVIEWED \
                        and f.qualname not in SGN_SCOPE:
                    r.note("SGN1", loc(f, c), dotted(c)[:80],
                           "sign factor in a function outside the reviewed "
                           "scope (not judged)")
                else:
                    r.violation(
                        "SGN1", f"{f.fq}|{txt[:60]}", loc(f, c),
                        dotted(c)[:120],
                        f"np.sign({txt[:50]}) multiplies a vector / pivot: "
                        "where its argument is exactly 0 the factor is 0, "
                        "not +-1 -- the vector is annihilated (a wall "
                        "through the origin is rejected as 'not a "
                        "reflection', a Householder vector reflects the "
                        "normal onto itself, the 'stable' quadratic pivot "
                        "q = -(b + sign(b) sqrt(disc))/2 is 0 and one root "
                        "is nan)", instance=inst)
    if n == 0:
        r.ok("SGN1", "modules", ",".join(rels), "", "no sign factor")


# functions anchored by the properties in which an unreviewed sign factor is
# a violation (elsewhere it is a NOTE)
SGN_SCOPE = {
    "Point.unit_tangent_towards", "find_definite_isometry",
    "Hyperplane.from_reflection", "Geodesic.from_reflection",
    "Segment._compute_aux_data", "TangentVector._compute_aux_data",
    "hyperplane_coordinate_transform", "find_isometry",
    "indefinite_orthogonalize", "make_orientation_preserving",
    "Subspace.reflection_across", "Hyperplane._compute_ideal_basis",
    "Isometry._fixpoint_data", "Point.origin_to", "TangentVector.origin_to",
    "TangentVector.isometry_to", "timelike_to", "spacelike_to",
    "hyperboloid_coords", "Subspace.sphere_parameters",
    "Transformation.eigenvector", "Transformation.diagonalize",
    "short_arc", "right_to_left", "arc_include", "circle_angles",
    "o_to_pgl", "sl2_to_so21", "diagonalize_form",
}


def rule_m5(ctx):
    from ..paths import enumerate_paths
    from .enum_rules import _self_calls, _length_arg, FN
    r = ctx.r
    r.rule("M5", "in _automaton_accepted the memo entry is the complete "
                 "result: on every path on which maxlen may be true the "
                 "zero-length contribution is merged BEFORE the result is "
                 "written to the memo (a later memo hit for that state must "
                 "include the empty word)")
    f = ctx.p.get_function(REP, FN)
    r.analysed(f)
    memo = next((p for p in f.params if "precomputed" in p or "memo" in p),
                None)
    zero = [c for c in _self_calls(f)
            if const_value(_length_arg(f, c)) == 0]
    parents = f.module.parents

    def stmt_of(n):
        while not isinstance(n, ast.stmt):
            n = parents[n]
        return n
    zst = [stmt_of(c) for c in zero]
    stores = [n for n in ast.walk(f.node) if isinstance(n, ast.Assign)
              and isinstance(n.targets[0], ast.Subscript)
              and dotted(n.targets[0].value) == memo]
    if memo is None or not zst or not stores:
        r.note("M5", loc(f, f.node), FN,
               "memo store / zero-length merge not found (not judged)")
        return
    assigned = {n.id for n in ast.walk(f.node)
                if isinstance(n, ast.Name) and isinstance(n.ctx, ast.Store)}
    stable = [p for p in f.params if p not in assigned and p != "self"]
    bad = None
    npaths = 0
    for p in enumerate_paths(f.node, stable=stable, markers=zst + stores):
        if p.flags.get("maxlen") is False:
            continue
        ev = p.events
        si = [i for i, e in enumerate(ev) if any(e is s for s in stores)]
        if not si:
            continue
        npaths += 1
        zi = [i for i, e in enumerate(ev) if any(e is z for z in zst)]
        if p.flags.get("maxlen") is True and (not zi or min(zi) > si[0]):
            bad = bad or ev[si[0]]
    if bad is None:
        r.ok("M5", FN, loc(f, stores[0]), norm_stmt(stores[0])[:80],
             f"{npaths} path(s) to the memo store, merged first when "
             "maxlen is true")
    else:
        r.violation(
            "M5", f"{f.fq}|memo-before-merge", loc(f, bad),
            norm_stmt(bad)[:140],
            "with maxlen=True the result is written to the memo before the "
            "zero-length contribution is merged: a later hit for this "
            "(length, state) returns a list without the empty word, so "
            "freely_reduced_elements(3) loses words ('ba', 'bb', ...) and a "
            "second call sharing the memo loses the identity",
            instance=FN)


GAP = "geometry_tools/automata/gap_parse.py"
LIE_CORE = "geometry_tools/lie/core.py"
_SHIFTING = {"lstrip", "strip", "removeprefix", "replace", "expandtabs",
             "translate", "sub", "subn", "join", "split", "splitlines"}


def _shifts(expr, names):
    """expr is a copy of one of `names` whose character positions differ
    from the original's: a prefix-stripping / length-changing string method,
    or a slice with a lower bound."""
    if isinstance(expr, ast.Call) and isinstance(expr.func, ast.Attribute):
        if expr.func.attr in _SHIFTING:
            involved = [expr.func.value] + list(expr.args)
            if any(isinstance(n, ast.Name) and n.id in names
                   for e in involved for n in ast.walk(e)):
                return expr.func.attr
    if isinstance(expr, ast.Subscript) and isinstance(expr.slice, ast.Slice) \
            and isinstance(expr.value, ast.Name) and expr.value.id in names:
        lo = expr.slice.lower
        if lo is not None and const_value(lo) != 0:
            return "slice"
    return None


def rule_ofs1(ctx):
    r = ctx.r
    r.rule("OFS1", "every GAP sub-parser returns (value, offset) with the "
                   "offset counted in the characters of the text it was "
                   "given (the caller adds it to its own index): inside such "
                   "a parser, positions (regex match lengths, find() "
                   "results, loop indices, len()) are never taken on a "
                   "prefix-stripped or otherwise length-changed copy of the "
                   "text parameter")
    mod = ctx.p.module_by_rel(GAP)
    n = 0
    for f in mod.functions.values():
        rets = [s for s in ast.walk(f.node) if isinstance(s, ast.Return)
                and isinstance(s.value, ast.Tuple) and len(s.value.elts) == 2]
        args = f.node.args.args
        if not rets or not args:
            continue
        r.analysed(f)
        n += 1
        param = args[0].arg
        shifted = {}          # name -> (node, how)
        names = {param}
        changed = True
        while changed:
            changed = False
            for s in ast.walk(f.node):
                if not (isinstance(s, ast.Assign) and len(s.targets) == 1
                        and isinstance(s.targets[0], ast.Name)):
                    continue
                how = _shifts(s.value, names | set(shifted))
                t = s.targets[0].id
                if how and t not in shifted:
                    shifted[t] = (s, how)
                    changed = True
        bad = None
        if param in shifted:
            bad = (shifted[param][0],
                   f"the text parameter `{param}` is rebound to a "
                   f"{shifted[param][1]}() copy of itself")
        else:
            for c in ast.walk(f.node):
                if not isinstance(c, ast.Call):
                    continue
                fn = dotted(c.func).split(".")[-1]
                subj = None
                if fn in ("match", "search", "fullmatch", "finditer") \
                        and len(c.args) >= 2:
                    subj = c.args[1]
                elif fn in ("len", "enumerate") and c.args:
                    subj = c.args[0]
                elif fn in ("find", "index") and isinstance(c.func,
                                                            ast.Attribute):
                    subj = c.func.value
                if isinstance(subj, ast.Name) and subj.id in shifted:
                    bad = (c, f"positions are taken on `{subj.id}`, a "
                              f"{shifted[subj.id][1]}() copy of the text "
                              f"parameter `{param}`")
                    break
        if bad:
            r.violation("OFS1", f"{f.fq}|{norm_stmt(bad[0])[:60]}",
                        loc(f, bad[0]), ast.unparse(bad[0])[:120],
                        f"{bad[1]}, but the offset this parser returns is "
                        "added by its caller to an index into the original "
                        "text: every list / record that starts with the "
                        "stripped characters is reported that many "
                        "characters too short, and the caller resumes inside "
                        "it", instance=f.name)
        else:
            r.ok("OFS1", f.name, loc(f, f.node), "",
                 f"offsets are measured on `{param}` itself")
    if n < 4:
        raise AnalysisError(f"OFS1: only {n} (value, offset) parsers found "
                            "in gap_parse.py (4 confirmed by hand): stale")


def rule_exp1(ctx, rels):
    from .. import poly
    r = ctx.r
    r.rule("EXP1", "a power x**e of a matrix entry whose exponent depends "
                   "on loop indices has e >= 0 on every iteration: the "
                   "linear constraints of the enclosing range() loops (max "
                   "lower bounds, min upper bounds, single-definition "
                   "integer locals substituted) are put in a polyhedral "
                   "domain and e <= -1 is refuted by Fourier-Motzkin "
                   "elimination. A negative exponent makes the term "
                   "0 * x**(-m): nan / a ZeroDivisionError for a matrix "
                   "with a zero entry, whatever the binomial coefficient "
                   "in front of it")
    n = 0
    for rel in rels:
        mod = ctx.p.module_by_rel(rel)
        for f in mod.functions.values():
            env = {}
            sdefs = single_defs(f.node)
            for k, v in sdefs.items():
                try:
                    poly.linear(v)
                    env[k] = v
                except poly.NonLinear:
                    pass
            # names bound once to a max(..) / min(..) bound expression
            env["__defs__"] = {k: v for k, v in sdefs.items()
                               if k not in env}

            def test_cons(t, negate=False):
                """linear constraints implied by an if-test (integers)"""
                if isinstance(t, ast.UnaryOp) and isinstance(t.op, ast.Not):
                    return test_cons(t.operand, not negate)
                if isinstance(t, ast.BoolOp):
                    conj = isinstance(t.op, ast.And) != negate
                    if not conj:
                        raise poly.NonLinear("disjunctive guard")
                    out = []
                    for v in t.values:
                        out.extend(test_cons(v, negate))
                    return out
                if not (isinstance(t, ast.Compare) and len(t.ops) == 1):
                    raise poly.NonLinear("guard is not a comparison")
                a = poly.linear(t.left, env)
                b = poly.linear(t.comparators[0], env)
                op = type(t.ops[0])
                if negate:
                    op = {ast.Lt: ast.GtE, ast.LtE: ast.Gt, ast.Gt: ast.LtE,
                          ast.GtE: ast.Lt}.get(op)
                one = {1: poly.Fr(1)}
                if op is ast.Lt:
                    return [poly.sub(poly.sub(b, a), one)]
                if op is ast.LtE:
                    return [poly.sub(b, a)]
                if op is ast.Gt:
                    return [poly.sub(poly.sub(a, b), one)]
                if op is ast.GtE:
                    return [poly.sub(a, b)]
                if op is ast.Eq:
                    return [poly.sub(a, b), poly.sub(b, a)]
                raise poly.NonLinear("guard operator")

            def leaves(block):
                return bool(block) and isinstance(
                    block[-1], (ast.Continue, ast.Break, ast.Return,
                                ast.Raise))

            def judge(s, cons, loopvars, unknown):
                nonlocal n
                for p in ast.walk(s):
                    if not (isinstance(p, ast.BinOp)
                            and isinstance(p.op, ast.Pow)):
                        continue
                    used = {x.id for x in ast.walk(p.right)
                            if isinstance(x, ast.Name)}
                    if not (used & loopvars):
                        continue
                    n += 1
                    r.analysed(f)
                    inst = f"{f.name}:{ast.unparse(p)}"
                    try:
                        e = poly.linear(p.right, env)
                        ok = poly.proves_nonneg(cons, e)
                    except poly.NonLinear as ex:
                        r.note("EXP1", loc(f, p), ast.unparse(p),
                               f"exponent not linear ({ex}): not judged")
                        continue
                    if ok:
                        r.ok("EXP1", inst, loc(f, p), ast.unparse(p),
                             "exponent >= 0 follows from the loop bounds")
                    elif unknown:
                        r.note("EXP1", loc(f, p), ast.unparse(p),
                               "not proved, but a guard the domain cannot "
                               f"express is in force ({unknown}): not judged")
                    else:
                        r.violation(
                            "EXP1", f"{f.fq}|{ast.unparse(p)}",
                            loc(f, p), ast.unparse(p),
                            f"the bounds of the enclosing loops do not "
                            f"exclude `{ast.unparse(p.right)}` <= -1: "
                            f"`{ast.unparse(p.left)}` is raised to a "
                            "negative power on some iteration, which is "
                            "inf / a ZeroDivisionError for a zero entry "
                            "(and 0 * inf = nan after the vanishing "
                            "binomial coefficient)", instance=inst)

            def walk(stmts, cons, loopvars, unknown=""):
                cons = list(cons)
                for s in stmts:
                    if isinstance(s, (ast.For, ast.While)):
                        tnames = {x.id for x in ast.walk(s.target)
                                  if isinstance(x, ast.Name)} \
                            if isinstance(s, ast.For) else set()
                        try:
                            if isinstance(s, ast.While):
                                raise poly.NonLinear("while loop")
                            extra, bound = poly.loop_constraints(
                                s.target, s.iter, env)
                            walk(s.body, cons + extra, loopvars | bound,
                                 unknown)
                        except poly.NonLinear as ex:
                            # the variables this loop drives are not
                            # constrained: nothing inside is refuted
                            why = (f"loop at line {s.lineno} not "
                                   f"understood: {ex}")
                            walk(s.body, cons, loopvars | tnames,
                                 unknown or why)
                        walk(s.orelse, cons, loopvars, unknown)
                        continue
                    if isinstance(s, ast.If):
                        judge(s.test, cons, loopvars, unknown)
                        try:
                            yes, no = test_cons(s.test), None
                            try:
                                no = test_cons(s.test, True)
                            except poly.NonLinear:
                                pass
                        except poly.NonLinear as ex:
                            yes = no = None
                            why = f"`{ast.unparse(s.test)[:40]}`: {ex}"
                        if yes is None:
                            walk(s.body, cons, loopvars, unknown or why)
                            walk(s.orelse, cons, loopvars, unknown or why)
                            if leaves(s.body) or leaves(s.orelse):
                                unknown = unknown or why
                            continue
                        walk(s.body, cons + yes, loopvars, unknown)
                        if no is not None:
                            walk(s.orelse, cons + no, loopvars, unknown)
                            if leaves(s.body) and not s.orelse:
                                cons = cons + no
                        else:
                            why = (f"`not ({ast.unparse(s.test)[:40]})` is "
                                   "disjunctive")
                            walk(s.orelse, cons, loopvars, unknown or why)
                            if leaves(s.body):
                                unknown = unknown or why
                        if leaves(s.orelse) and s.orelse:
                            cons = cons + yes
                        continue
                    blocks = [getattr(s, a, None) for a in
                              ("body", "orelse", "finalbody")]
                    if any(isinstance(b, list) for b in blocks) \
                            and not isinstance(s, (ast.FunctionDef,
                                                   ast.ClassDef)):
                        for b in blocks:
                            if isinstance(b, list):
                                walk(b, cons, loopvars, unknown)
                        for h in getattr(s, "handlers", []):
                            walk(h.body, cons, loopvars, unknown)
                        continue
                    judge(s, cons, loopvars, unknown)
            walk(f.node.body, [], set())
    f = ctx.p.get_function(LIE_CORE, "sl2_irrep")      # anchor must exist
    if n < 4:
        r.note("EXP1", loc(f, f.node), "sl2_irrep",
               f"{n} loop-indexed power(s) found, 4 confirmed by hand on the "
               "pinned tree: the others are written in a form this rule "
               "does not read (not judged)")


import math as _math

_INF = float("inf")
_TOP = (-_INF, _INF)
_RANGES = {
    "arcsin": (-_math.pi / 2, _math.pi / 2), "arccos": (0.0, _math.pi),
    "arctan": (-_math.pi / 2, _math.pi / 2), "arctan2": (-_math.pi, _math.pi),
    "arccosh": (0.0, _INF), "angle": (-_math.pi, _math.pi),
    "sin": (-1.0, 1.0), "cos": (-1.0, 1.0), "tanh": (-1.0, 1.0),
    "cosh": (1.0, _INF), "exp": (0.0, _INF),
}
_MONOTONE = {"arcsinh": _math.asinh, "arctan": _math.atan,
             "sinh": _math.sinh, "tanh": _math.tanh, "exp": _math.exp,
             "sqrt": None}


def _mul(a, b):
    ps = []
    for x in a:
        for y in b:
            if (x == 0 and abs(y) == _INF) or (y == 0 and abs(x) == _INF):
                ps.append(0.0)
            else:
                ps.append(x * y)
    return (min(ps), max(ps))


def _interval(e, pi_names):
    """a sound interval for the value of expression e (elementwise)"""
    c = const_value(e)
    if isinstance(c, (int, float)) and not isinstance(c, bool):
        return (float(c), float(c))
    d = dotted(e) if isinstance(e, (ast.Name, ast.Attribute)) else ""
    if d in ("np.pi", "numpy.pi", "math.pi") or d in pi_names:
        return (_math.pi, _math.pi)
    if isinstance(e, ast.UnaryOp) and isinstance(e.op, ast.USub):
        lo, hi = _interval(e.operand, pi_names)
        return (-hi, -lo)
    if isinstance(e, ast.BinOp):
        a, b = _interval(e.left, pi_names), _interval(e.right, pi_names)
        if isinstance(e.op, ast.Add):
            return (a[0] + b[0], a[1] + b[1])
        if isinstance(e.op, ast.Sub):
            return (a[0] - b[1], a[1] - b[0])
        if isinstance(e.op, ast.Mult):
            if a == _TOP or b == _TOP:
                return _TOP
            return _mul(a, b)
        if isinstance(e.op, ast.Div) and b[0] == b[1] and b[0] not in (
                0.0, _INF, -_INF):
            return _mul(a, (1 / b[0], 1 / b[0]))
        if isinstance(e.op, ast.Pow) and const_value(e.right) == 2:
            m = max(abs(a[0]), abs(a[1]))
            lo = 0.0 if a[0] <= 0 <= a[1] else min(abs(a[0]), abs(a[1]))
            return (lo * lo, m * m if m != _INF else _INF)
        return _TOP
    if isinstance(e, ast.Call):
        fn = dotted(e.func).split(".")[-1]
        args = list(e.args)
        if fn in ("abs", "absolute", "fabs") and args:
            lo, hi = _interval(args[0], pi_names)
            m = max(abs(lo), abs(hi))
            return (0.0 if lo <= 0 <= hi else min(abs(lo), abs(hi)), m)
        if fn in ("minimum", "fmin", "min") and len(args) == 2:
            a, b = (_interval(x, pi_names) for x in args)
            return (min(a[0], b[0]), min(a[1], b[1]))
        if fn in ("maximum", "fmax", "max") and len(args) == 2:
            a, b = (_interval(x, pi_names) for x in args)
            return (max(a[0], b[0]), max(a[1], b[1]))
        if fn == "clip" and len(args) == 3:
            a = _interval(args[0], pi_names)
            lo = _interval(args[1], pi_names)
            hi = _interval(args[2], pi_names)
            return (max(a[0], lo[0]) if lo != _TOP else a[0],
                    min(a[1], hi[1]) if hi != _TOP else a[1])
        if fn in ("sqrt",) and args:
            lo, hi = _interval(args[0], pi_names)
            return (_math.sqrt(max(lo, 0.0)),
                    _math.sqrt(hi) if hi != _INF else _INF)
        if fn in ("arcsinh", "sinh") and args:
            lo, hi = _interval(args[0], pi_names)
            g = _MONOTONE[fn]
            return (g(lo) if abs(lo) != _INF else lo,
                    g(hi) if abs(hi) != _INF else hi)
        if fn in ("real", "asarray", "array", "squeeze", "copy", "float64",
                  "float") and args:
            return _interval(args[0], pi_names)
        if fn in _RANGES:
            return _RANGES[fn]
        return _TOP
    if isinstance(e, ast.Subscript):
        return _interval(e.value, pi_names)
    if isinstance(e, ast.IfExp):
        a, b = _interval(e.body, pi_names), _interval(e.orelse, pi_names)
        return (min(a[0], b[0]), max(a[1], b[1]))
    return _TOP


# function -> (lo, hi, what): every value strictly between lo and hi is a
# correct answer for some admissible input
RNG_REQUIRED = {
    (HYP, "polygon_interior_angle"): (
        0.0, _math.pi, "the interior angle of a regular n-gon takes every "
        "value in (0, (n-2)pi/n), i.e. values up to pi"),
    (HYP, "TangentVector.angle"): (
        0.0, _math.pi, "the angle between two tangent vectors takes every "
        "value in [0, pi]"),
    (HYP, "regular_polygon_radius"): (
        0.0, _INF, "the circumradius takes every positive value"),
    (HYP, "Point.distance"): (
        0.0, _INF, "hyperbolic distances take every non-negative value"),
    (CORE, "circle_angles"): (
        -_math.pi, _math.pi, "the direction of a point seen from the centre "
        "takes every value in (-pi, pi]"),
}


def rule_rng1(ctx, only=None):
    r = ctx.r
    r.rule("RNG1", "interval analysis of returned expressions (arcsin -> "
                   "[-pi/2, pi/2], arccos -> [0, pi], arctan2 -> [-pi, pi], "
                   "arccosh -> [0, inf), scaling, shifts, abs, min/max/clip; "
                   "anything else unbounded): the static range of the "
                   "angle / distance a function returns must cover every "
                   "value that is a correct answer for some admissible "
                   "input. A bounded range that misses part of them (an "
                   "obtuse angle returned through a bare arcsin) means the "
                   "function is wrong on those inputs whatever the formula")
    eps = 1e-9
    n = 0
    for (rel, q), (lo, hi, what) in RNG_REQUIRED.items():
        if only is not None and q not in only:
            continue
        f = ctx.p.get_function(rel, q)
        r.analysed(f)
        n += 1
        pi_names = set()
        for k, v in single_defs(f.node).items():
            if isinstance(v, ast.Call) and dotted(v.func).split(".")[-1] \
                    == "pi":
                pi_names.add(k)
        # a name bound to utils.pi(...) stands for pi; forward_subst would
        # replace it by the call, so read it before substitution
        rets, _env = forward_subst(f.node)
        rets = [x for x in rets if x is not None]
        if not rets:
            r.note("RNG1", loc(f, f.node), q, "no return expression found "
                   "(not judged)")
            continue

        class _Pi(ast.NodeTransformer):
            def visit_Call(self, c):
                self.generic_visit(c)
                if dotted(c.func).split(".")[-1] == "pi" and not c.args:
                    return ast.copy_location(ast.Attribute(
                        ast.Name("np", ast.Load()), "pi", ast.Load()), c)
                return c
        got = None
        for e in rets:
            iv = _interval(_Pi().visit(e), pi_names)
            got = iv if got is None else (min(got[0], iv[0]),
                                          max(got[1], iv[1]))
        if got[0] <= lo + eps and got[1] >= hi - eps:
            r.ok("RNG1", q, loc(f, f.node), "",
                 f"returned range [{got[0]:.4g}, {got[1]:.4g}] covers "
                 f"({lo:.4g}, {hi:.4g})")
        else:
            r.violation(
                "RNG1", f"{f.fq}|range", loc(f, f.node),
                " | ".join(ast.unparse(e)[:100] for e in rets)[:200],
                f"whatever its arguments, the returned expression lies in "
                f"[{got[0]:.4g}, {got[1]:.4g}], but {what}: the part of "
                f"({lo:.4g}, {hi:.4g}) outside that range can never be "
                "returned, so the function is wrong for the inputs whose "
                "answer lies there", instance=q)
    if only is None and n < len(RNG_REQUIRED):
        raise AnalysisError("RNG1: table rows skipped")


# the model conversions and the maps composed into Point.coords: closed forms
TOL_CLOSED_FORMS = {
    HYP: ["kleinian_coords", "hyperboloid_coords", "kleinian_to_poincare",
          "poincare_to_kleinian", "poincare_to_halfspace",
          "halfspace_to_poincare", "hyp_to_affine_dist",
          "project_to_hyperboloid"],
}


def _module_constants(mod):
    out = {}
    for st in mod.tree.body:
        if isinstance(st, ast.Assign) and len(st.targets) == 1 \
                and isinstance(st.targets[0], ast.Name):
            v = const_value(st.value)
            if isinstance(v, (int, float)) and not isinstance(v, bool):
                out[st.targets[0].id] = v
    return out


def rule_tol1(ctx):
    r = ctx.r
    r.rule("TOL1", "the conversions between models are closed forms of their "
                   "argument: inside them no comparison against a positive "
                   "tolerance (ERROR_THRESHOLD, a literal 1e-k, also as "
                   "atol / rtol of np.isclose) decides a value. Such a test "
                   "replaces the closed form on an open set of inputs -- "
                   "interior points within the tolerance of a special point "
                   "-- for which the property's round trips and the metric "
                   "then fail; an exact test (== 0, np.isinf) does not")
    n = 0
    for rel, names in TOL_CLOSED_FORMS.items():
        mod = ctx.p.module_by_rel(rel)
        consts = _module_constants(mod)
        for q in names:
            f = ctx.p.get_function(rel, q)
            r.analysed(f)
            n += 1
            local = dict(consts)
            for k, v in single_defs(f.node).items():
                cv = const_value(v)
                if isinstance(cv, (int, float)) and not isinstance(cv, bool):
                    local[k] = cv

            def tol(e):
                v = const_value(e)
                if v is None and isinstance(e, ast.Name):
                    v = local.get(e.id)
                if isinstance(v, (int, float)) and not isinstance(v, bool) \
                        and 0 < abs(v) < 1e-2:
                    return v
                return None
            bad = None
            for c in ast.walk(f.node):
                if isinstance(c, ast.Compare):
                    for e in [c.left] + list(c.comparators):
                        if tol(e) is not None:
                            bad = (c, tol(e))
                elif isinstance(c, ast.Call) and dotted(c.func).split(
                        ".")[-1] in ("isclose", "allclose"):
                    bad = (c, "its default rtol=1e-05, atol=1e-08")
                if bad:
                    break
            if bad:
                r.violation(
                    "TOL1", f"{f.fq}|tolerance", loc(f, bad[0]),
                    ast.unparse(bad[0])[:120],
                    f"`{ast.unparse(bad[0])[:70]}` compares with the "
                    f"tolerance {bad[1]} inside the closed-form conversion "
                    f"{q}: for the interior / ideal points within that "
                    "tolerance of the special point the conversion no "
                    "longer returns the image of its argument, so the round "
                    "trip through the other model and the distances "
                    "computed from it are wrong there", instance=q)
            else:
                r.ok("TOL1", q, loc(f, f.node), "",
                     "no tolerance comparison")
    return n


_FORM_PARAMS = ("form", "bilinear_form")
# the form-taking helpers of the Gram-Schmidt completion, with the position
# of the form parameter (confirmed by hand; the rule re-reads the position
# from the definition and fails closed when a helper has vanished)
FORM_HELPERS = ("apply_bilinear", "normsq", "normalize", "projection",
                "orthogonal_complement", "indefinite_orthogonalize",
                "find_isometry")
FORM_MINKOWSKI_ONLY = ("find_isometry", "indefinite_orthogonalize",
                       "normalize")


def _form_arg(ctx, call, idx, pname):
    for k in call.keywords:
        if k.arg == pname:
            return k.value
    pos = ctx.p.positional_args(call)
    if any(isinstance(a, ast.Starred) for a in pos):
        return "?"
    return pos[idx] if idx < len(pos) else None


def rule_form1(ctx, min_threaded=9, min_minkowski=8):
    r = ctx.r
    r.rule("FORM1", "one bilinear form per computation: (a) a helper of "
                    "utils/core.py that takes a form (find_isometry, "
                    "indefinite_orthogonalize, orthogonal_complement, "
                    "projection, normalize, normsq) passes THAT form to "
                    "every form-taking helper it calls -- never omits it "
                    "(the default is the Euclidean form) and never "
                    "substitutes another; (b) hyperbolic.py calls "
                    "find_isometry / indefinite_orthogonalize / normalize "
                    "with the Minkowski form (self.minkowski, "
                    "minkowski(..), or its own form parameter). A frame "
                    "orthonormalised or normalised with respect to the "
                    "wrong form is not a matrix of O(n,1)")
    core = ctx.p.module_by_rel(CORE)
    sig = {}
    for nm in FORM_HELPERS:
        f = ctx.p.get_function(CORE, nm)            # vanished -> exit 2
        names = [a.arg for a in f.node.args.args]
        p = next((n for n in names if n in _FORM_PARAMS), None)
        if p is None:
            raise AnalysisError(f"FORM1: {nm} no longer has a form "
                                "parameter (stale table)")
        sig[nm] = (names.index(p), p)
    n_a = 0
    for f in core.functions.values():
        names = [a.arg for a in f.node.args.args]
        own = next((n for n in names if n in _FORM_PARAMS), None)
        if own is None:
            continue
        aliases = {own}
        for k, v in single_defs(f.node).items():
            if isinstance(v, ast.Name) and v.id == own:
                aliases.add(k)
        for c in ast.walk(f.node):
            if not isinstance(c, ast.Call):
                continue
            nm = dotted(c.func).split(".")[-1]
            if nm not in sig:
                continue
            arg = _form_arg(ctx, c, *sig[nm])
            if arg == "?":
                continue
            n_a += 1
            r.analysed(f)
            inst = f"{f.name}->{nm}"
            if isinstance(arg, ast.Name) and arg.id in aliases:
                r.ok("FORM1", inst, loc(f, c), "", f"passes its `{own}`")
            else:
                what = "omits the form (Euclidean default)" if arg is None \
                    else f"passes `{ast.unparse(arg)[:40]}`"
                r.violation(
                    "FORM1", f"{f.fq}|{nm}|form", loc(f, c),
                    ast.unparse(c)[:120],
                    f"{f.name} works with respect to its parameter `{own}` "
                    f"but this call of {nm} {what}: the rows it produces "
                    "are orthogonal / normalised for a different form, so "
                    "the completed frame does not preserve the form the "
                    "caller asked for (for the Minkowski form: the "
                    "returned matrix is not an isometry)", instance=inst)
    n_b = 0
    hyp = ctx.p.module_by_rel(HYP)
    for f in ctx.p.all_functions:
        if f.module is not hyp:
            continue
        names = [a.arg for a in f.node.args.args]
        own = next((n for n in names if n in _FORM_PARAMS), None)
        defs = single_defs(f.node)
        for c in ast.walk(f.node):
            if not isinstance(c, ast.Call):
                continue
            nm = dotted(c.func).split(".")[-1]
            if nm not in FORM_MINKOWSKI_ONLY or not dotted(
                    c.func).startswith("utils."):
                continue
            arg = _form_arg(ctx, c, *sig[nm])
            if arg == "?":
                continue
            n_b += 1
            r.analysed(f)
            e = arg
            if isinstance(e, ast.Name) and e.id in defs:
                e = defs[e.id]
            mink = e is not None and (
                (isinstance(e, ast.Attribute) and e.attr == "minkowski")
                or (isinstance(e, ast.Call) and dotted(e.func).split(
                    ".")[-1] == "minkowski")
                or (isinstance(e, ast.Name) and e.id == own))
            inst = f"{f.qualname}->{nm}"
            if mink:
                r.ok("FORM1", inst, loc(f, c), "", "Minkowski form")
            else:
                what = "omits the form (Euclidean default)" if arg is None \
                    else f"passes `{ast.unparse(arg)[:40]}`"
                r.violation(
                    "FORM1", f"{f.fq}|{nm}|minkowski", loc(f, c),
                    ast.unparse(c)[:120],
                    f"{f.qualname} {what} to utils.{nm}: hyperbolic "
                    "frames, unit tangent vectors and hyperboloid "
                    "representatives are orthonormal / of unit length for "
                    "the Minkowski form; with another form the result is "
                    "not an isometry (not a point of the hyperboloid)",
                    instance=inst)
    if n_a < min_threaded or n_b < min_minkowski:
        r.note("FORM1", CORE, "form threading",
               f"{n_a} threaded and {n_b} Minkowski call sites found "
               f"({min_threaded} / {min_minkowski} confirmed by hand): the "
               "others are written in a form this rule does not read")


def _covers_zero(ix):
    """does this index / slice select position 0 (of an axis of size >= 2)?
    -> True / False / None (unknown)"""
    if isinstance(ix, ast.Slice):
        if ix.step is not None:
            return None
        lo = const_value(ix.lower) if ix.lower is not None else 0
        if not isinstance(lo, int):
            return None
        return lo == 0
    v = const_value(ix)
    if isinstance(v, int):
        return v == 0
    return None


def rule_blk1(ctx):
    r = ctx.r
    r.rule("BLK1", "Isometry.elliptic embeds an orthogonal block so that it "
                   "fixes the time axis: the matrix it fills is written at "
                   "[0, 0] (the entry 1) and at an index range that does not "
                   "contain row / column 0 -- a Euclidean orthogonal block "
                   "that overlaps the time coordinate does not preserve the "
                   "Minkowski form. The conjugated standard loxodromic is "
                   "X @ diag(t, 1/t, 1, ..) @ X^-1 with one X and a "
                   "reciprocal pair")
    f = ctx.p.get_function(HYP, "Isometry.elliptic")
    r.analysed(f)
    # the matrix: the local that is passed to Isometry(...) at the return
    mats = set()
    for c in ast.walk(f.node):
        if isinstance(c, ast.Call) and dotted(c.func) == "Isometry" \
                and c.args and isinstance(c.args[0], ast.Name):
            mats.add(c.args[0].id)
    stores = [s for s in ast.walk(f.node) if isinstance(s, ast.Assign)
              and len(s.targets) == 1
              and isinstance(s.targets[0], ast.Subscript)
              and isinstance(s.targets[0].value, ast.Name)
              and s.targets[0].value.id in mats]
    if not mats or not stores:
        r.note("BLK1", loc(f, f.node), "Isometry.elliptic",
               "the matrix is not assembled by item assignment into a local "
               "passed to Isometry(..) (not judged)")
    for s in stores:
        sl = s.targets[0].slice
        idx = list(sl.elts) if isinstance(sl, ast.Tuple) else [sl]
        idx = [i for i in idx if not (isinstance(i, ast.Constant)
                                      and i.value is Ellipsis)]
        inst = f"elliptic:{ast.unparse(s.targets[0])}"
        if len(idx) != 2:
            r.note("BLK1", loc(f, s), ast.unparse(s)[:80],
                   "store with other than two matrix indices (not judged)")
            continue
        z = [_covers_zero(i) for i in idx]
        point = all(not isinstance(i, ast.Slice) for i in idx)
        if None in z:
            r.note("BLK1", loc(f, s), ast.unparse(s)[:80],
                   "index range not constant (not judged)")
        elif z == [True, True] and point:
            r.ok("BLK1", inst, loc(f, s), "", "the time-time entry")
        elif z == [False, False]:
            r.ok("BLK1", inst, loc(f, s), "", "block disjoint from the time "
                 "row and column")
        else:
            r.violation(
                "BLK1", f"{f.fq}|{ast.unparse(s.targets[0])}", loc(f, s),
                ast.unparse(s)[:120],
                f"`{ast.unparse(s.targets[0])}` writes a block that contains "
                "row or column 0 (the time coordinate of the hyperboloid "
                "model): an orthogonal (Euclidean) block acting on the time "
                "axis does not preserve the form diag(-1, 1, .., 1), so "
                "Isometry.elliptic / standard_rotation return a matrix that "
                "is not an isometry", instance=inst)
    # standard loxodromic: a conjugation by one matrix
    g = ctx.p.get_function(HYP, "Isometry.standard_loxodromic")
    r.analysed(g)
    rets, _env = forward_subst(g.node)
    prod = None
    for e in rets:
        if e is None:
            continue
        for c in ast.walk(e):
            if isinstance(c, ast.BinOp) and isinstance(c.op, ast.MatMult) \
                    and isinstance(c.left, ast.BinOp) \
                    and isinstance(c.left.op, ast.MatMult):
                prod = c
                break
    if prod is None:
        r.note("BLK1", loc(g, g.node), "standard_loxodromic",
               "not written as a triple matrix product (not judged)")
        return
    a, d, b = prod.left.left, prod.left.right, prod.right

    def inv_of(x):
        if isinstance(x, ast.Call) and dotted(x.func).split(".")[-1] in (
                "invert", "inv") and x.args:
            return ast.dump(x.args[0])
        return None
    ok = inv_of(b) == ast.dump(a) or inv_of(a) == ast.dump(b)
    inst = "standard_loxodromic:conjugation"
    if ok:
        r.ok("BLK1", inst, loc(g, g.node), "", "X @ D @ X^-1 with one X")
    else:
        r.violation(
            "BLK1", f"{g.fq}|conjugation", loc(g, g.node),
            ast.unparse(prod)[:140],
            "the diagonal loxodromic is not conjugated by one matrix and "
            "its inverse (X @ D @ X^-1): the outer factors are "
            f"`{ast.unparse(a)[:40]}` and `{ast.unparse(b)[:40]}`, so the "
            "product is not similar to D and does not preserve the "
            "Minkowski form", instance=inst)
    # reciprocal pair in D
    def recip(u, v):
        if isinstance(v, ast.BinOp) and isinstance(v.op, ast.Div) \
                and const_value(v.left) in (1, 1.0) \
                and ast.dump(v.right) == ast.dump(u):
            return True
        if isinstance(v, ast.BinOp) and isinstance(v.op, ast.Pow) \
                and const_value(v.right) in (-1, -1.0) \
                and ast.dump(v.left) == ast.dump(u):
            return True
        return isinstance(v, ast.Call) and dotted(v.func).split(".")[-1] \
            == "reciprocal" and len(v.args) == 1 \
            and ast.dump(v.args[0]) == ast.dump(u)

    def surely_not(u, v):
        """v is recognisably a function of u that is not 1/u"""
        if ast.dump(u) == ast.dump(v):
            return True
        if isinstance(v, ast.UnaryOp) and isinstance(v.op, ast.USub):
            return recip(u, v.operand) or ast.dump(v.operand) == ast.dump(u)
        return isinstance(v, ast.BinOp) and isinstance(v.op, ast.Div) \
            and ast.dump(v.right) == ast.dump(u) \
            and isinstance(const_value(v.left), (int, float)) \
            and const_value(v.left) not in (1, 1.0)
    pairs = [c for c in ast.walk(d)
             if isinstance(c, (ast.List, ast.Tuple)) and len(c.elts) == 2
             and not any(isinstance(e, (ast.List, ast.Tuple, ast.Call))
                         for e in c.elts)]
    if not pairs:
        r.note("BLK1", loc(g, g.node), "standard_loxodromic",
               "the diagonal is not given as a literal pair (not judged)")
        return
    pair = next((c for c in pairs if recip(*c.elts)
                 or recip(c.elts[1], c.elts[0])), pairs[0])
    x, y = pair.elts
    inst = "standard_loxodromic:reciprocal-pair"
    if recip(x, y) or recip(y, x):
        r.ok("BLK1", inst, loc(g, g.node), "", "diag(t, 1/t, 1, ..)")
    elif not (surely_not(x, y) or surely_not(y, x)):
        r.note("BLK1", loc(g, g.node), ast.unparse(pair)[:80],
               "the two entries are not recognisably reciprocal or "
               "non-reciprocal (not judged)")
    else:
        r.violation(
            "BLK1", f"{g.fq}|pair", loc(g, g.node), ast.unparse(pair)[:80],
            f"the eigenvalues on the two light rays are `{ast.unparse(x)}` "
            f"and `{ast.unparse(y)}`, not a reciprocal pair t, 1/t: the "
            "product of the two null directions is not preserved, so the "
            "matrix is not in O(n,1)", instance=inst)


# callers of the symmetric eigensolver whose argument is Hermitian by
# construction (reviewed): function -> reason
EIGH_CALLERS = {
    "diagonalize_form": "the argument is a real symmetric bilinear form "
                        "(its docstring contract; Coxeter cosine matrices)",
    "eigh": "utils.eigh forwarding its own argument to np.linalg.eigh",
}


def rule_eigh2(ctx, rels):
    from .common import path_conditions, stmt_of
    r = ctx.r
    r.rule("EIGH2", "eigh (np.linalg.eigh / utils.eigh) silently assumes a "
                    "Hermitian argument -- it reads one triangle and returns "
                    "an orthonormal frame whatever the matrix is. It is "
                    "called only where the argument is Hermitian by "
                    "construction (reviewed callers) or under a test that "
                    "compares the matrix with its CONJUGATE transpose; "
                    "`allclose(M, M.T)` admits complex symmetric matrices, "
                    "for which the returned frame does not diagonalise M")
    n = 0
    for rel in rels:
        mod = ctx.p.module_by_rel(rel)
        for f in ctx.p.all_functions:
            if f.module is not mod:
                continue
            calls = [c for c in ast.walk(f.node) if isinstance(c, ast.Call)
                     and dotted(c.func).split(".")[-1] == "eigh"]
            if not calls:
                continue
            pc = path_conditions(f.node)
            for c in calls:
                n += 1
                r.analysed(f)
                inst = f"{f.qualname}:eigh"
                if f.name in EIGH_CALLERS:
                    r.ok("EIGH2", inst, loc(f, c), dotted(c)[:80],
                         "reviewed: " + EIGH_CALLERS[f.name])
                    continue
                st = stmt_of(c, f.module.parents)
                herm = False
                for t, pol in pc.get(id(st), []):
                    if not pol:
                        continue
                    txt = ast.unparse(t)
                    if ("allclose" in txt or "array_equal" in txt
                            or "isclose" in txt) and "conj" in txt:
                        herm = True
                if herm:
                    r.ok("EIGH2", inst, loc(f, c), dotted(c)[:80],
                         "guarded by a comparison with the conjugate "
                         "transpose")
                else:
                    r.violation(
                        "EIGH2", f"{f.fq}|eigh", loc(f, c), dotted(c)[:120],
                        f"{f.qualname} hands a matrix to eigh that is not "
                        "known to be Hermitian (no comparison with its "
                        "conjugate transpose dominates the call): for a "
                        "complex symmetric or a non-symmetric matrix the "
                        "returned 'eigenvectors' are those of a different "
                        "(Hermitianised) matrix and M^-1 T M is not "
                        "diagonal", instance=inst)
    if n == 0:
        r.ok("EIGH2", "modules", ",".join(rels), "", "no eigh call")


_INVERTERS = ("invert", "inv", "solve", "matrix_inverse", "inverse")


def rule_inv3(ctx):
    r = ctx.r
    r.rule("INV3", "every `inv` method of the Transformation family "
                   "(projective.Transformation and its subclasses, "
                   "hyperbolic.Isometry among them) computes a genuine "
                   "matrix inverse (utils.invert / np.linalg.inv / a solve) "
                   "of the object's own matrix, or delegates to the method "
                   "it overrides. `apply` gives the result of P @ R the type "
                   "of R, so an Isometry-typed object need not be a matrix "
                   "of O(n,1): a structural shortcut (J M^T J, a transpose) "
                   "is not its inverse and A.inv() @ (A @ X) != X")
    root = ctx.p.get_class(PROJ, "Transformation")
    classes = [root] + ctx.p.subclasses(root)
    n = 0
    for c in classes:
        f = c.methods.get("inv")
        if f is None:
            continue
        n += 1
        r.analysed(f)
        inst = f"{c.name}.inv"
        calls = [x for x in ast.walk(f.node) if isinstance(x, ast.Call)]
        genuine = [x for x in calls
                   if dotted(x.func).split(".")[-1] in _INVERTERS
                   and not (isinstance(x.func, ast.Attribute)
                            and dotted(x.func.value) in ("self", "super()")
                            and x.func.attr == "inv")]
        delegates = [x for x in calls if isinstance(x.func, ast.Attribute)
                     and x.func.attr == "inv"
                     and (dotted(x.func.value) == "super()"
                          or dotted(x.func.value) in {k.name for k in
                                                      ctx.p.mro(c)[1:]})]
        if genuine or delegates:
            r.ok("INV3", inst, loc(f, f.node), "",
                 "calls " + dotted((genuine or delegates)[0].func))
        else:
            r.violation(
                "INV3", f"{f.fq}|no-inverse", loc(f, f.node), f.qualname,
                f"{c.name}.inv never calls a matrix inversion (nor the "
                "method it overrides): what it returns is the inverse only "
                "for matrices with the structure it assumes, and objects of "
                "this class are also produced by composing with arbitrary "
                "projective transformations and by the unvalidated "
                "constructor", instance=inst)
    if n == 0:
        raise AnalysisError("INV3: Transformation.inv has vanished")


def rule_invs2(ctx):
    import copy
    r = ctx.r
    r.rule("INVS2", "where a generator is stored with compute_inverse=False "
                    "the inverse letter's matrix is supplied by hand: it is "
                    "either produced by ONE expression applied to every "
                    "letter of a loop over all generators (copying a "
                    "representation, composing with a homomorphism), or by "
                    "the generator's own expression with the letter replaced "
                    "by its inverse letter. Two separately written "
                    "expressions that differ in more than the letter (factor "
                    "order of a Kronecker product, a missing transpose) "
                    "store a matrix that is not the inverse: rho(a A) != 1")
    mod = ctx.p.module_by_rel(REP)
    n = 0
    for f in ctx.p.all_functions:
        if f.module is not mod:
            continue
        calls = []
        for c in ast.walk(f.node):
            if isinstance(c, ast.Call) and dotted(c.func).split(".")[-1] in (
                    "_set_generator", "set_generator"):
                kw = next((k.value for k in c.keywords
                           if k.arg == "compute_inverse"), None)
                pos = ctx.p.positional_args(c)
                if isinstance(kw, ast.Constant) and kw.value is False \
                        and len(pos) >= 2 and not any(
                            isinstance(a, ast.Starred) for a in pos):
                    c._pos = pos[:2]
                    calls.append(c)
        if not calls:
            continue
        r.analysed(f)
        defs = single_defs(f.node)
        loops = {}
        for lp in ast.walk(f.node):
            if isinstance(lp, ast.For) and isinstance(lp.target, ast.Name):
                loops[lp.target.id] = lp
        by_letter = {}
        for c in calls:
            by_letter.setdefault(dotted(c._pos[0]), []).append(c)
        done = set()
        for letter, cs in by_letter.items():
            if letter in done:
                continue
            n += 1
            inst = f"{f.qualname}:{letter}"
            # the inverse letter of `letter`, if it is stored as well
            partner = None
            for other in by_letter:
                d = defs.get(other)
                if isinstance(d, ast.Call) and dotted(d.func).split(".")[-1] \
                        == "invert_gen" and d.args \
                        and dotted(d.args[0]) == letter:
                    partner = other
            if partner is None:
                if any(dotted(d.func).split(".")[-1] == "invert_gen"
                       and dotted(d.args[0]) in by_letter
                       for d in [defs.get(letter)]
                       if isinstance(d, ast.Call) and d.args):
                    continue      # handled from the generator's side
                if letter in loops:
                    r.ok("INVS2", inst, loc(f, cs[0]), "",
                         "one expression for every letter of the loop")
                else:
                    r.note("INVS2", loc(f, cs[0]), dotted(cs[0])[:80],
                           "letter stored without recomputing its inverse "
                           "in a form this rule does not read (not judged)")
                continue
            done.add(partner)
            e1 = cs[0]._pos[1]
            e2 = by_letter[partner][0]._pos[1]

            class Sub(ast.NodeTransformer):
                def visit_Name(self, nm):
                    if nm.id == partner:
                        return ast.copy_location(
                            ast.Name(letter, nm.ctx), nm)
                    return nm
            e2s = Sub().visit(copy.deepcopy(e2))
            if ast.dump(e2s) == ast.dump(e1):
                r.ok("INVS2", inst, loc(f, cs[0]), "",
                     f"`{partner}` gets the same expression as `{letter}`")
            else:
                r.violation(
                    "INVS2", f"{f.fq}|{letter}|{partner}",
                    loc(f, by_letter[partner][0]),
                    dotted(by_letter[partner][0])[:140],
                    f"`{letter}` is stored as `{ast.unparse(e1)[:60]}` and "
                    f"its inverse letter `{partner}` as "
                    f"`{ast.unparse(e2)[:60]}`, both without recomputing "
                    "the inverse: the two expressions differ in more than "
                    "the letter, so the stored pair is not a matrix and its "
                    "inverse (every word containing an inverse letter gets "
                    "the wrong image)", instance=inst)
    if n == 0:
        r.note("INVS2", REP, "compute_inverse=False",
               "no generator is stored with a literal compute_inverse=False "
               "(nothing to judge)")


def rule_s1u(ctx):
    r = ctx.r
    r.rule("S1u", "type conversions treat the three data slots alike: in "
                  "ProjectiveObject.astype and change_base_ring the values "
                  "handed to the constructor for proj_data, aux_data and "
                  "dual_data are produced from their own slot by the same "
                  "set of operations (backward slice of each argument "
                  "through every assignment, conditional ones included). "
                  "An extra step on one slot (rounding the primary data "
                  "only) makes the stored derived data differ from what is "
                  "recomputed from the primary data")
    n = 0
    for q in ("ProjectiveObject.astype", "ProjectiveObject.change_base_ring"):
        f = ctx.p.get_function(PROJ, q)
        r.analysed(f)
        sinks = [c for c in ast.walk(f.node) if isinstance(c, ast.Call)
                 and dotted(c.func).split(".")[-1] in (
                     "ProjectiveObject", "set", "__class__")
                 and (len(c.args) >= 3 or {k.arg for k in c.keywords} >= {
                     "proj_data", "aux_data", "dual_data"})]
        if not sinks:
            r.note("S1u", loc(f, f.node), q,
                   "no constructor / set call taking the three slots found "
                   "(not judged)")
            continue
        assigns = {}
        for st in ast.walk(f.node):
            if isinstance(st, ast.Assign):
                for t in st.targets:
                    if isinstance(t, ast.Name):
                        assigns.setdefault(t.id, []).append(st.value)

        def ops_of(e):
            seen, ops, slots = set(), set(), set()
            todo = [e]
            while todo:
                x = todo.pop()
                for y in ast.walk(x):
                    if isinstance(y, ast.Call):
                        nm = dotted(y.func).split(".")[-1]
                        if nm not in ("dtype",):
                            ops.add(nm)
                    if isinstance(y, ast.Attribute) and y.attr in (
                            "proj_data", "aux_data", "dual_data") \
                            and dotted(y.value) == "self":
                        slots.add(y.attr)
                    if isinstance(y, ast.Name) and y.id in assigns \
                            and y.id not in seen:
                        seen.add(y.id)
                        todo.extend(assigns[y.id])
            return ops, slots
        for c in sinks:
            n += 1
            args = {}
            for k, nm in enumerate(("proj_data", "aux_data", "dual_data")):
                a = next((kw.value for kw in c.keywords if kw.arg == nm),
                         c.args[k] if k < len(c.args) else None)
                args[nm] = a
            if any(a is None for a in args.values()):
                continue
            got = {nm: ops_of(a) for nm, a in args.items()}
            inst = f"{q}:slots"
            base_ops = got["proj_data"][0]
            odd = [nm for nm in ("aux_data", "dual_data")
                   if got[nm][0] != base_ops]
            if not odd:
                r.ok("S1u", inst, loc(f, c), "",
                     "the three slots go through "
                     + (", ".join(sorted(base_ops)) or "no operation"))
            else:
                diff = sorted(base_ops ^ got[odd[0]][0])
                r.violation(
                    "S1u", f"{f.fq}|{'+'.join(diff)[:60]}", loc(f, c),
                    dotted(c)[:120],
                    f"proj_data reaches the constructor through "
                    f"{sorted(base_ops)} but {odd[0]} through "
                    f"{sorted(got[odd[0]][0])}: the slots are converted "
                    f"differently ({', '.join(diff)}), so for a Polygon / "
                    "Segment the stored edges / ideal endpoints are no "
                    "longer the ones determined by the stored vertices",
                    instance=inst)
    if n == 0:
        r.note("S1u", PROJ, "astype / change_base_ring",
               "no sink recognised (not judged)")


def rule_ori1(ctx):
    r = ctx.r
    r.rule("ORI1", "make_orientation_preserving changes the sign of the "
                   "determinant in every dimension: the sign flip it applies "
                   "to orientation-reversing matrices selects ONE row or "
                   "column (a constant integer index on a matrix axis). "
                   "Negating k rows multiplies det by (-1)^k, so negating "
                   "the whole n x n matrix leaves the determinant negative "
                   "whenever n is even (H^3, H^5: force_oriented=True "
                   "returns orientation-reversing isometries)")
    f = ctx.p.get_function(CORE, "make_orientation_preserving")
    r.analysed(f)
    flips = []
    for st in ast.walk(f.node):
        neg = None
        if isinstance(st, ast.AugAssign) and isinstance(st.op, ast.Mult) \
                and const_value(st.value) in (-1, -1.0):
            neg = st.target
        elif isinstance(st, ast.Assign) and len(st.targets) == 1 \
                and isinstance(st.value, ast.UnaryOp) \
                and isinstance(st.value.op, ast.USub) \
                and ast.dump(st.value.operand).replace("Load()", "") \
                == ast.dump(st.targets[0]).replace("Store()", ""):
            neg = st.targets[0]
        elif isinstance(st, ast.Assign) and isinstance(st.value, ast.BinOp) \
                and isinstance(st.value.op, ast.Mult) and (
                    const_value(st.value.right) in (-1, -1.0)
                    or const_value(st.value.left) in (-1, -1.0)) \
                and len(st.targets) == 1:
            neg = st.targets[0]
        if neg is not None:
            flips.append((st, neg))
    # np.where(mask, -m, m) on whole matrices
    for c in ast.walk(f.node):
        if isinstance(c, ast.Call) and dotted(c.func) in ("np.where",) \
                and len(c.args) == 3 and any(
                    isinstance(a, ast.UnaryOp) and isinstance(a.op, ast.USub)
                    and isinstance(a.operand, ast.Name) for a in c.args[1:]):
            flips.append((c, None))
    if not flips:
        r.note("ORI1", loc(f, f.node), "make_orientation_preserving",
               "no sign flip recognised (not judged)")
        return
    for st, tgt in flips:
        inst = "make_orientation_preserving:flip"
        single = False
        if isinstance(tgt, ast.Subscript):
            sl = tgt.slice
            idx = list(sl.elts) if isinstance(sl, ast.Tuple) else [sl]
            single = any(isinstance(const_value(i), int)
                         and not isinstance(const_value(i), bool)
                         for i in idx)
        if single:
            r.ok("ORI1", inst, loc(f, st), norm_stmt(st)[:80]
                 if isinstance(st, ast.stmt) else dotted(st)[:80],
                 "one row / column is negated")
        else:
            r.violation(
                "ORI1", f"{f.fq}|flip", loc(f, st),
                (norm_stmt(st) if isinstance(st, ast.stmt)
                 else dotted(st))[:120],
                "the sign flip is applied to whole matrices (no constant "
                "row / column index): det(-A) = (-1)^n det(A), so in even "
                "ambient dimension the result still reverses orientation "
                "although force_oriented=True promises a positive "
                "determinant", instance=inst)


_NONNEG_FUNCS = {"abs", "absolute", "fabs", "sqrt", "square", "exp", "cosh",
                 "hypot"}
_KEEP_SIGN_METHODS = {"astype", "copy", "reshape", "squeeze", "flatten",
                      "ravel", "swapaxes", "transpose"}


def rule_nonneg1(ctx, rels):
    r = ctx.r
    r.rule("NONNEG1", "belief contradiction: a quantity that is provably "
                      "non-negative at that point of the function (the "
                      "result of abs / sqrt / square / exp, a Euclidean "
                      "square norm, sums and products of such, carried "
                      "through astype / indexing / re-binding of the same "
                      "name; flow-sensitive over the statement order) is "
                      "compared with `< 0` or `>= 0`. The comparison is "
                      "constant, so the code that depends on it (counting "
                      "negative eigenvalues to put the timelike direction "
                      "first) no longer does what it was written for")
    n = 0
    for rel in rels:
        mod = ctx.p.module_by_rel(rel)
        for f in ctx.p.all_functions:
            if f.module is not mod:
                continue
            found = []

            def nonneg(e, env):
                c = const_value(e)
                if isinstance(c, (int, float)) and not isinstance(c, bool):
                    return c >= 0
                if isinstance(e, ast.Name):
                    return env.get(e.id, False)
                if isinstance(e, ast.Call):
                    fn = dotted(e.func)
                    last = fn.split(".")[-1]
                    if last in _NONNEG_FUNCS and (fn.startswith(
                            ("np.", "numpy.", "math.", "utils."))
                            or fn == "abs"):
                        return True
                    if last == "normsq" and len(e.args) == 1 \
                            and not e.keywords:
                        return True          # Euclidean square norm
                    if isinstance(e.func, ast.Attribute) \
                            and e.func.attr in _KEEP_SIGN_METHODS:
                        return nonneg(e.func.value, env)
                    if last in ("real", "asarray", "array", "atleast_1d",
                                "expand_dims", "squeeze") and e.args:
                        return nonneg(e.args[0], env)
                    return False
                if isinstance(e, ast.Subscript):
                    return nonneg(e.value, env)
                if isinstance(e, ast.Attribute) and e.attr in ("real", "T"):
                    return nonneg(e.value, env)
                if isinstance(e, ast.BinOp):
                    if isinstance(e.op, ast.Pow):
                        p = const_value(e.right)
                        if isinstance(p, int) and p % 2 == 0:
                            return True
                        return nonneg(e.left, env) and isinstance(
                            p, (int, float))
                    if isinstance(e.op, (ast.Add, ast.Mult, ast.Div)):
                        return nonneg(e.left, env) and nonneg(e.right, env)
                return False

            def check(e, env):
                for c in ast.walk(e):
                    if not (isinstance(c, ast.Compare) and len(c.ops) == 1):
                        continue
                    a, op, b = c.left, c.ops[0], c.comparators[0]
                    if const_value(a) in (0, 0.0) and const_value(b) is None:
                        a, b = b, a
                        op = {ast.Lt: ast.Gt, ast.Gt: ast.Lt, ast.LtE: ast.GtE,
                              ast.GtE: ast.LtE}.get(type(op), type(op))()
                    if const_value(b) not in (0, 0.0) or isinstance(
                            const_value(b), bool):
                        continue
                    if isinstance(op, (ast.Lt, ast.GtE)) and nonneg(a, env):
                        found.append((c, isinstance(op, ast.Lt)))

            def walk(stmts, env):
                for s in stmts:
                    if isinstance(s, (ast.FunctionDef, ast.ClassDef)):
                        continue
                    if isinstance(s, ast.If):
                        check(s.test, env)
                        e1, e2 = dict(env), dict(env)
                        walk(s.body, e1)
                        walk(s.orelse, e2)
                        for k in set(e1) | set(e2):
                            env[k] = e1.get(k, False) and e2.get(k, False)
                        continue
                    if isinstance(s, (ast.For, ast.While)):
                        assigned = {t.id for x in ast.walk(s)
                                    for t in ([x] if isinstance(x, ast.Name)
                                              and isinstance(x.ctx, ast.Store)
                                              else [])}
                        for k in assigned:
                            env[k] = False
                        walk(s.body, env)
                        for k in assigned:
                            env[k] = False
                        continue
                    if isinstance(s, ast.Try):
                        walk(s.body, env)
                        for h in s.handlers:
                            walk(h.body, env)
                        walk(s.orelse, env)
                        walk(s.finalbody, env)
                        continue
                    if isinstance(s, ast.With):
                        walk(s.body, env)
                        continue
                    check(s, env)
                    if isinstance(s, ast.Assign) and len(s.targets) == 1 \
                            and isinstance(s.targets[0], ast.Name):
                        env[s.targets[0].id] = nonneg(s.value, env)
                    elif isinstance(s, ast.Assign):
                        for t in s.targets:
                            for x in ast.walk(t):
                                if isinstance(x, ast.Name):
                                    env[x.id] = False
                    elif isinstance(s, ast.AugAssign) and isinstance(
                            s.target, ast.Name):
                        keep = isinstance(s.op, (ast.Add, ast.Mult)) \
                            and env.get(s.target.id, False) \
                            and nonneg(s.value, env)
                        env[s.target.id] = keep
                    elif isinstance(s, ast.AugAssign):
                        for x in ast.walk(s.target):
                            if isinstance(x, ast.Name):
                                env[x.id] = False
                    # in-place stores may put anything into a buffer
                    if isinstance(s, ast.Assign):
                        for t in s.targets:
                            if isinstance(t, ast.Subscript) and isinstance(
                                    t.value, ast.Name) \
                                    and not nonneg(s.value, env):
                                env[t.value.id] = False
            walk(f.node.body, {})
            for c, is_lt in found:
                n += 1
                r.analysed(f)
                r.violation(
                    "NONNEG1", f"{f.fq}|{ast.unparse(c)[:60]}", loc(f, c),
                    ast.unparse(c)[:120],
                    f"`{ast.unparse(c.left)[:50]}` is non-negative here (it "
                    "went through abs / sqrt / an even power since its "
                    f"signed source), so `{ast.unparse(c)[:60]}` is always "
                    f"{'False' if is_lt else 'True'}: the sign information "
                    "this test was written to read has been destroyed "
                    "before it", instance=f"{f.qualname}:{ast.unparse(c)[:40]}")
    if n == 0:
        r.ok("NONNEG1", "modules", ",".join(rels), "",
             "no comparison of a provably non-negative quantity with 0")


# ---------------------------------------------------------------------------
# ZD2: strict interval analysis of the divisors of the model conversions

class _IV:
    """an interval with open / closed ends; None stands for 'unknown'"""
    __slots__ = ("lo", "lo_open", "hi", "hi_open")

    def __init__(self, lo, lo_open, hi, hi_open):
        self.lo, self.lo_open, self.hi, self.hi_open = lo, lo_open, hi, hi_open

    def __repr__(self):
        return (("(" if self.lo_open else "[") + f"{self.lo:g}, {self.hi:g}"
                + (")" if self.hi_open else "]"))

    def has_zero(self):
        if self.lo > 0 or self.hi < 0:
            return False
        if self.lo == 0 and self.lo_open:
            return False
        if self.hi == 0 and self.hi_open:
            return False
        return True


def _iv_const(c):
    return _IV(float(c), False, float(c), False)


def _iv_add(a, b):
    return _IV(a.lo + b.lo, a.lo_open or b.lo_open,
               a.hi + b.hi, a.hi_open or b.hi_open)


def _iv_neg(a):
    return _IV(-a.hi, a.hi_open, -a.lo, a.lo_open)


def _iv_mul(a, b):
    cands = []
    for x, xo in ((a.lo, a.lo_open), (a.hi, a.hi_open)):
        for y, yo in ((b.lo, b.lo_open), (b.hi, b.hi_open)):
            if (x == 0 and abs(y) == _INF) or (y == 0 and abs(x) == _INF):
                v = 0.0
            else:
                v = x * y
            # an end point is attained only if both factors attain theirs
            # (or one of them is an attained zero)
            attained = (not xo and not yo) or (x == 0 and not xo) \
                or (y == 0 and not yo)
            cands.append((v, not attained))
    lo = min(v for v, _ in cands)
    hi = max(v for v, _ in cands)
    lo_open = all(o for v, o in cands if v == lo)
    hi_open = all(o for v, o in cands if v == hi)
    return _IV(lo, lo_open, hi, hi_open)


def _iv_square(a):
    lo_abs = 0.0 if a.lo <= 0 <= a.hi else min(abs(a.lo), abs(a.hi))
    if a.lo <= 0 <= a.hi:
        zero_in = not ((a.lo == 0 and a.lo_open) or (a.hi == 0 and a.hi_open))
        lo_open = not zero_in
    else:
        lo_open = a.lo_open if abs(a.lo) < abs(a.hi) else a.hi_open
    if abs(a.lo) > abs(a.hi):
        hi, hi_open = a.lo * a.lo, a.lo_open
    elif abs(a.lo) < abs(a.hi):
        hi, hi_open = a.hi * a.hi, a.hi_open
    else:
        hi, hi_open = a.hi * a.hi, a.lo_open and a.hi_open
    return _IV(lo_abs * lo_abs, lo_open, hi, hi_open)


def _iv_mono(a, g, lo_limit=None):
    """image under an increasing function g"""
    lo = g(a.lo) if abs(a.lo) != _INF else (lo_limit if a.lo < 0 else _INF)
    hi = g(a.hi) if abs(a.hi) != _INF else _INF
    return _IV(lo, a.lo_open, hi, a.hi_open)


def _sinterval(e, env):
    """strict interval of expression e; env: name -> _IV; None = unknown"""
    c = const_value(e)
    if isinstance(c, (int, float)) and not isinstance(c, bool):
        return _iv_const(c)
    if isinstance(e, ast.Name):
        return env.get(e.id)
    if isinstance(e, ast.UnaryOp) and isinstance(e.op, ast.USub):
        a = _sinterval(e.operand, env)
        return None if a is None else _iv_neg(a)
    if isinstance(e, ast.Subscript):
        key = ("sub", ast.unparse(e))
        if key in env:
            return env[key]
        v = _sinterval(e.value, env)
        # np.newaxis / slicing keeps the value set
        return v
    if isinstance(e, ast.Attribute) and e.attr in ("T", "real"):
        return _sinterval(e.value, env)
    if isinstance(e, ast.BinOp):
        a, b = _sinterval(e.left, env), _sinterval(e.right, env)
        if isinstance(e.op, ast.Pow) and const_value(e.right) == 2:
            return None if a is None else _iv_square(a)
        if a is None or b is None:
            return None
        if isinstance(e.op, ast.Add):
            return _iv_add(a, b)
        if isinstance(e.op, ast.Sub):
            return _iv_add(a, _iv_neg(b))
        if isinstance(e.op, ast.Mult):
            if ast.dump(e.left) == ast.dump(e.right):
                return _iv_square(a)
            return _iv_mul(a, b)
        if isinstance(e.op, ast.Div):
            if b.has_zero():
                return None
            inv = _IV(1 / b.hi if b.hi not in (0, _INF, -_INF) else (
                0.0 if abs(b.hi) == _INF else (_INF if b.lo > 0 else -_INF)),
                b.hi_open or abs(b.hi) == _INF,
                1 / b.lo if b.lo not in (0, _INF, -_INF) else (
                0.0 if abs(b.lo) == _INF else (_INF if b.hi > 0 else -_INF)),
                b.lo_open or abs(b.lo) == _INF)
            if inv.lo > inv.hi:
                inv = _IV(inv.hi, inv.hi_open, inv.lo, inv.lo_open)
            return _iv_mul(a, inv)
        return None
    if isinstance(e, ast.Call):
        fn = dotted(e.func).split(".")[-1]
        args = list(e.args)
        if isinstance(e.func, ast.Attribute) and e.func.attr in (
                "astype", "copy", "squeeze", "reshape", "swapaxes") \
                and not dotted(e.func).startswith(("np.", "utils.")):
            return _sinterval(e.func.value, env)
        if fn in ("atleast_1d", "asarray", "array", "expand_dims", "squeeze",
                  "real", "copy") and args:
            return _sinterval(args[0], env)
        if fn == "normsq" and len(args) == 1 and not e.keywords:
            key = ("normsq", ast.unparse(args[0]))
            if key in env:
                return env[key]
            a = _sinterval(args[0], env)
            return _IV(0.0, False, _INF, True)
        if fn in ("abs", "absolute", "fabs") and args:
            a = _sinterval(args[0], env)
            if a is None:
                return _IV(0.0, False, _INF, True)
            sq = _iv_square(a)
            return _IV(_math.sqrt(sq.lo), sq.lo_open,
                       _math.sqrt(sq.hi) if sq.hi != _INF else _INF,
                       sq.hi_open)
        if fn == "sqrt" and args:
            a = _sinterval(args[0], env)
            if a is None:
                return _IV(0.0, False, _INF, True)
            lo = max(a.lo, 0.0)
            return _IV(_math.sqrt(lo), a.lo_open if a.lo >= 0 else False,
                       _math.sqrt(a.hi) if a.hi != _INF else _INF, a.hi_open)
        if fn in ("minimum", "maximum") and len(args) == 2:
            a, b = _sinterval(args[0], env), _sinterval(args[1], env)
            if a is None or b is None:
                return None
            pick = min if fn == "minimum" else max
            lo = pick((a.lo, a.lo_open), (b.lo, b.lo_open),
                      key=lambda t: t[0])
            hi = pick((a.hi, a.hi_open), (b.hi, b.hi_open),
                      key=lambda t: t[0])
            return _IV(lo[0], lo[1], hi[0], hi[1])
        if fn in ("tanh", "arctanh", "exp", "sinh", "arcsinh", "arctan") \
                and args:
            a = _sinterval(args[0], env)
            if a is None:
                return None
            if fn == "exp":
                return _IV(_math.exp(a.lo) if a.lo != -_INF else 0.0,
                           a.lo_open or a.lo == -_INF,
                           _math.exp(a.hi) if a.hi != _INF else _INF,
                           a.hi_open)
            if fn == "arctanh":
                if a.lo < -1 or a.hi > 1:
                    return None
                g = lambda x: _INF if x >= 1 else (-_INF if x <= -1
                                                   else _math.atanh(x))
                return _IV(g(a.lo), a.lo_open, g(a.hi), a.hi_open)
            g = {"tanh": _math.tanh, "sinh": _math.sinh,
                 "arcsinh": _math.asinh, "arctan": _math.atan}[fn]
            lim = {"tanh": 1.0, "arctan": _math.pi / 2}.get(fn, _INF)
            return _IV(g(a.lo) if a.lo != -_INF else -lim,
                       a.lo_open or a.lo == -_INF,
                       g(a.hi) if a.hi != _INF else lim,
                       a.hi_open or a.hi == _INF)
        if fn == "cosh" and args:
            return _IV(1.0, False, _INF, True)
        return None
    return None


# the documented domain of each conversion's argument: every coordinate of
# a Klein / Poincare point lies in (-1, 1) and the square norm in [0, 1);
# the last half-space coordinate (the height) is positive
ZD2_DOMAINS = {
    "kleinian_to_poincare": "ball", "poincare_to_kleinian": "ball",
    "poincare_to_halfspace": "ball", "halfspace_to_poincare": "halfspace",
}


def rule_zd2(ctx):
    r = ctx.r
    r.rule("ZD2", "no model conversion divides by a quantity that vanishes "
                  "at an interior point: strict interval analysis (open / "
                  "closed ends) of every divisor in kleinian_to_poincare, "
                  "poincare_to_kleinian, poincare_to_halfspace and "
                  "halfspace_to_poincare over the documented domain of the "
                  "argument (ball models: every coordinate in (-1, 1), "
                  "square norm in [0, 1); half-space: height in (0, inf)). "
                  "A divisor whose interval contains 0 -- the radius of the "
                  "point, which is 0 at the centre of the ball -- gives nan "
                  "there, silently under np.errstate")
    n = 0
    for q, dom in ZD2_DOMAINS.items():
        f = ctx.p.get_function(HYP, q)
        r.analysed(f)
        if not f.params:
            continue
        p = f.params[0]
        env = {}
        if dom == "ball":
            env[p] = _IV(-1.0, True, 1.0, True)
            env[("normsq", p)] = _IV(0.0, False, 1.0, True)
        else:
            env[p] = None
        divs = []

        def record(node, divisor, env_now):
            divs.append((node, divisor, _sinterval(divisor, env_now)))

        def bind(name, value, env_now):
            iv = _sinterval(value, env_now)
            # components of the argument
            if isinstance(value, ast.Subscript) and isinstance(
                    value.value, ast.Name) and value.value.id == p:
                sl = value.slice
                idx = list(sl.elts) if isinstance(sl, ast.Tuple) else [sl]
                last = idx[-1] if idx else None
                if dom == "ball":
                    iv = _IV(-1.0, True, 1.0, True)
                    env_now[("normsq", name)] = _IV(0.0, False, 1.0, True)
                elif const_value(last) == -1:
                    iv = _IV(0.0, True, _INF, True)       # the height
                else:
                    iv = None
            env_now[name] = iv

        def walk(stmts, env_now):
            nonlocal n
            for s in stmts:
                if isinstance(s, ast.With):
                    walk(s.body, env_now)
                    continue
                if isinstance(s, (ast.If, ast.For, ast.While, ast.Try)):
                    # conversions are straight-line; anything else: unknown
                    for x in ast.walk(s):
                        if isinstance(x, ast.Name) and isinstance(
                                x.ctx, ast.Store):
                            env_now[x.id] = None
                    continue
                for x in ast.walk(s):
                    if isinstance(x, ast.BinOp) and isinstance(x.op, ast.Div):
                        record(x, x.right, env_now)
                    if isinstance(x, ast.Call) and dotted(x.func) in (
                            "np.divide", "np.true_divide") and len(
                            x.args) >= 2 and not any(
                            k.arg == "where" for k in x.keywords):
                        record(x, x.args[1], env_now)
                if isinstance(s, ast.Assign) and len(s.targets) == 1 \
                        and isinstance(s.targets[0], ast.Name):
                    bind(s.targets[0].id, s.value, env_now)
        walk(f.node.body, env)
        for node, divisor, iv in divs:
            n += 1
            inst = f"{q}:/{ast.unparse(divisor)[:40]}"
            if iv is None:
                r.note("ZD2", loc(f, node), ast.unparse(node)[:80],
                       "range of the divisor not determined (not judged)")
            elif iv.has_zero():
                r.violation(
                    "ZD2", f"{f.fq}|{ast.unparse(divisor)[:50]}",
                    loc(f, node), ast.unparse(node)[:120],
                    f"over the interior points the divisor "
                    f"`{ast.unparse(divisor)[:50]}` ranges over {iv!r}, "
                    "which contains 0: at the interior point where it "
                    "vanishes (the centre of the ball) the conversion "
                    "returns nan / inf, and every round trip through this "
                    "model loses that point", instance=inst)
            else:
                r.ok("ZD2", inst, loc(f, node), ast.unparse(node)[:80],
                     f"divisor ranges over {iv!r}")
    if n == 0:
        r.note("ZD2", HYP, "conversions", "no division found (not judged)")


def _conv_kind(e, defs, depth=0):
    """row / column convention of a matrix expression: `.proj_data`,
    `.matrix` and find_isometry frames are ROW matrices (rows are the
    images of the basis); a transpose flips the convention; inverse, copy,
    astype, orientation fix and products of one kind keep it"""
    flip = {"ROW": "COL", "COL": "ROW"}
    if depth > 6 or e is None:
        return None
    if isinstance(e, ast.Name) and e.id in defs:
        return _conv_kind(defs[e.id], defs, depth + 1)
    if isinstance(e, ast.Attribute):
        if e.attr in ("proj_data", "matrix"):
            return "ROW"
        if e.attr == "T":
            return flip.get(_conv_kind(e.value, defs, depth + 1))
        return None
    if isinstance(e, ast.Call):
        fn = dotted(e.func)
        last = fn.split(".")[-1]
        is_np = fn.startswith(("np.", "numpy.", "utils."))
        recv = e.func.value if isinstance(e.func, ast.Attribute) \
            and not is_np else None
        first = e.args[0] if e.args else None
        if last == "find_isometry":
            return "ROW"
        if last in ("swapaxes", "transpose"):
            base = recv if recv is not None else first
            axes = e.args if recv is not None else e.args[1:]
            if last == "swapaxes" and sorted(
                    const_value(a, "?") for a in axes) != [-2, -1]:
                return None
            return flip.get(_conv_kind(base, defs, depth + 1))
        if last in ("copy", "astype", "make_orientation_preserving",
                    "invert", "inv", "real", "array", "asarray"):
            base = recv if recv is not None and last in ("copy", "astype") \
                else first
            return _conv_kind(base, defs, depth + 1)
        return None
    if isinstance(e, ast.BinOp) and isinstance(e.op, ast.MatMult):
        a = _conv_kind(e.left, defs, depth + 1)
        b = _conv_kind(e.right, defs, depth + 1)
        return a if a is not None and a == b else None
    return None


def rule_rc2(ctx, rels):
    r = ctx.r
    r.rule("RC2", "convention typing of matrices handed to Isometry(..) / "
                  "Transformation(..) / self.__class__(..): the stored data "
                  "of a transformation (`.proj_data`, `.matrix`) and a frame "
                  "completed by find_isometry are ROW matrices, a transpose "
                  "makes a COLUMN matrix; a ROW matrix is wrapped with "
                  "column_vectors False (the default), a COLUMN matrix with "
                  "column_vectors=True. Wrapping the transpose of a frame "
                  "with the row flag stores the transposed map, which for a "
                  "matrix of O(n,1) is a different isometry (not its "
                  "inverse)")
    n = 0
    for rel in rels:
        mod = ctx.p.module_by_rel(rel)
        for f in ctx.p.all_functions:
            if f.module is not mod:
                continue
            defs = single_defs(f.node)
            for c in ast.walk(f.node):
                if not (isinstance(c, ast.Call) and c.args and dotted(
                        c.func).split(".")[-1] in (
                        "Isometry", "Transformation", "__class__")):
                    continue
                k = _conv_kind(c.args[0], defs)
                if k is None:
                    continue
                cv = False
                if len(c.args) > 1:
                    cv = const_value(c.args[1], "?")
                for kw in c.keywords:
                    if kw.arg == "column_vectors":
                        cv = const_value(kw.value, "?")
                if cv == "?":
                    continue
                n += 1
                r.analysed(f)
                inst = f"{f.qualname}:{dotted(c.func)}"
                want = (k == "COL")
                if bool(cv) == want:
                    r.ok("RC2", inst, loc(f, c), dotted(c)[:80],
                         f"{k} matrix, column_vectors={bool(cv)}")
                else:
                    r.violation(
                        "RC2", f"{f.fq}|{dotted(c)[:60]}", loc(f, c),
                        dotted(c)[:140],
                        f"`{ast.unparse(c.args[0])[:60]}` is a "
                        f"{'column' if k == 'COL' else 'row'} matrix (a "
                        "transposed frame / stored transformation data) but "
                        f"it is wrapped with column_vectors={bool(cv)}: the "
                        "object stores the transpose of the intended map; "
                        "for an isometry frame that is another isometry, "
                        "not its inverse, so the composed map no longer "
                        "carries the first tangent vector to the second",
                        instance=inst)
    if n == 0:
        r.note("RC2", ",".join(rels), "constructor calls",
               "no constructor call with an argument of known convention "
               "(not judged)")


def rule_agg1(ctx):
    r = ctx.r
    r.rule("AGG1", "`Representation.dtype` types the buffers of every derived "
                   "representation (adjoint, tensor product, identity of the "
                   "empty word), so it summarises ALL stored generators: "
                   "where a generator is stored, `self._dtype` is combined "
                   "with what is already there (np.result_type / "
                   "promote_types over the stored matrices or the previous "
                   "value), never overwritten with the dtype of the one "
                   "matrix being stored. Last-writer-wins makes a "
                   "representation with a complex and then a real generator "
                   "'float64', and the adjoint drops the imaginary parts")
    f = ctx.p.get_function(REP, "Representation._set_generator")
    r.analysed(f)
    params = {p for p in f.params if p != "self"}
    stores = [st for st in ast.walk(f.node) if isinstance(st, ast.Assign)
              and len(st.targets) == 1
              and isinstance(st.targets[0], ast.Attribute)
              and st.targets[0].attr == "_dtype"
              and dotted(st.targets[0].value) == "self"]
    if not stores:
        r.note("AGG1", loc(f, f.node), "_set_generator",
               "`self._dtype` is not assigned here (not judged)")
        return
    for st in stores:
        v = st.value
        names = {dotted(x) for x in ast.walk(v)
                 if isinstance(x, (ast.Attribute, ast.Name))}
        combines = any(n.startswith(("self._dtype", "self.dtype",
                                     "self.generators")) for n in names) \
            or any(isinstance(c, ast.Call) and dotted(c.func).split(".")[-1]
                   in ("result_type", "promote_types", "find_common_type",
                       "common_type") and len(c.args) + len(c.keywords) >= 1
                   and (len(c.args) >= 2 or any(
                       isinstance(a, ast.Starred) for a in c.args))
                   for c in ast.walk(v))
        single = isinstance(v, ast.Attribute) and v.attr == "dtype" \
            and isinstance(v.value, ast.Name) and v.value.id in params
        inst = "_set_generator:_dtype"
        # `if <no generator stored yet>: self._dtype = matrix.dtype`
        from .common import path_conditions
        defs = single_defs(f.node)

        def says_empty(t, pol):
            if isinstance(t, ast.Name) and t.id in defs:
                t = defs[t.id]
            if isinstance(t, ast.UnaryOp) and isinstance(t.op, ast.Not):
                return says_empty(t.operand, not pol)
            txt = ast.unparse(t)
            if "self.generators" not in txt:
                return False
            if isinstance(t, ast.Compare) and len(t.ops) == 1 \
                    and isinstance(t.left, ast.Call) \
                    and dotted(t.left.func) == "len" \
                    and const_value(t.comparators[0]) == 0:
                if isinstance(t.ops[0], ast.Eq):
                    return pol
                if isinstance(t.ops[0], (ast.NotEq, ast.Gt)):
                    return not pol
            if isinstance(t, ast.Attribute) and dotted(t) == "self.generators":
                return not pol          # `if self.generators:` -> non-empty
            return False
        first_only = any(says_empty(t, pol) for t, pol in
                         path_conditions(f.node).get(id(st), []))
        if combines:
            r.ok("AGG1", inst, loc(f, st), norm_stmt(st)[:80],
                 "combined with the generators already stored")
        elif single and first_only:
            r.ok("AGG1", inst + ":first", loc(f, st), norm_stmt(st)[:80],
                 "the first generator: nothing to combine with")
        elif single:
            r.violation(
                "AGG1", f"{f.fq}|_dtype", loc(f, st), norm_stmt(st)[:120],
                f"`self._dtype` is overwritten with the dtype of the one "
                f"matrix being stored (`{ast.unparse(v)}`): after a complex "
                "generator followed by a real one the representation "
                "reports float64, and gln_adjoint / sln_adjoint / "
                "tensor_product build float buffers -- the images of words "
                "containing the complex generator lose their imaginary "
                "parts (ComplexWarning only)", instance=inst)
        else:
            r.note("AGG1", loc(f, st), norm_stmt(st)[:80],
                   "form of the dtype update not recognised (not judged)")


def rule_ret1(ctx, rels):
    r = ctx.r
    r.rule("RET1", "a method with an `inplace` flag never returns the object "
                   "itself when called with inplace=False: the function is "
                   "specialised to inplace=False (flag folding + forward "
                   "substitution of locals) and no reachable return "
                   "expression may be `self`. Returning the original 'because "
                   "nothing had to change' makes later edits of the result "
                   "edit the original as well")
    n = 0
    for rel in rels:
        mod = ctx.p.module_by_rel(rel)
        for f in ctx.p.all_functions:
            if f.module is not mod or "inplace" not in f.params \
                    or f.cls is None:
                continue
            n += 1
            r.analysed(f)
            try:
                rets, _env = forward_subst(f.node, {"inplace": False})
            except Exception as ex:      # noqa: BLE001 -- not judged
                r.note("RET1", loc(f, f.node), f.qualname,
                       f"could not specialise to inplace=False ({ex})")
                continue
            inst = f"{f.qualname}:inplace=False"
            bad = [e for e in rets if isinstance(e, ast.Name)
                   and e.id == "self"]
            if bad:
                r.violation(
                    "RET1", f"{f.fq}|returns-self", loc(f, f.node),
                    f.qualname,
                    f"with inplace=False {f.qualname} can return `self`: "
                    "the caller gets the original object where the contract "
                    "promises a new one, so editing the result (add_edges, "
                    "delete_vertex ...) changes the original's views too",
                    instance=inst)
            else:
                r.ok("RET1", inst, loc(f, f.node), "",
                     f"{len([e for e in rets if e is not None])} return "
                     "expression(s), none is `self`")
    if n == 0:
        r.note("RET1", ",".join(rels), "inplace",
               "no method with an `inplace` flag (not judged)")


def rule_lru1(ctx, rels):
    r = ctx.r
    r.rule("LRU1", "functools.lru_cache / cache hashes its arguments: it is "
                   "never put on a function that takes array data (a "
                   "parameter that flows into a NumPy / utils call or "
                   "arithmetic). ndarrays, and 0-d arrays in particular, "
                   "are unhashable, so the same number packaged as an array "
                   "raises TypeError where the float works")
    n = 0
    for rel in rels:
        mod = ctx.p.module_by_rel(rel)
        for f in ctx.p.all_functions:
            if f.module is not mod:
                continue
            decos = [d for d in f.node.decorator_list
                     if dotted(d.func if isinstance(d, ast.Call) else d)
                     .split(".")[-1] in ("lru_cache", "cache")]
            if not decos:
                continue
            n += 1
            r.analysed(f)
            params = {p for p in f.params if p not in ("self", "cls")}
            used = set()
            for c in ast.walk(f.node):
                if isinstance(c, ast.Call) and dotted(c.func).startswith(
                        ("np.", "numpy.", "utils.")):
                    for a in ast.walk(c):
                        if isinstance(a, ast.Name) and a.id in params:
                            used.add(a.id)
                if isinstance(c, ast.BinOp):
                    for a in (c.left, c.right):
                        if isinstance(a, ast.Name) and a.id in params:
                            used.add(a.id)
            inst = f"{f.qualname}:lru_cache"
            if used:
                r.violation(
                    "LRU1", f"{f.fq}|lru_cache", loc(f, decos[0]),
                    ast.unparse(decos[0])[:80],
                    f"{f.qualname} is memoised with "
                    f"`{ast.unparse(decos[0])[:40]}` but its parameter(s) "
                    f"{', '.join(sorted(used))} are numeric / array data: a "
                    "0-d or n-d ndarray argument (np.array(pi / 4), a vector "
                    "of angles) is unhashable and raises TypeError, while "
                    "the same value as a Python float works", instance=inst)
            else:
                r.ok("LRU1", inst, loc(f, decos[0]), "",
                     "no array-valued parameter")
    if n == 0:
        r.ok("LRU1", "modules", ",".join(rels), "",
             "no lru_cache / cache decorator")


def rule_own1(ctx):
    r = ctx.r
    r.rule("OWN1", "a CoxeterGroup owns its Coxeter matrix: where the "
                   "constructor routes store the matrix they copy it "
                   "(np.array(..), .copy(), a freshly built array); "
                   "`np.asarray(param)` / the parameter itself keeps the "
                   "caller's array, and a caller that reuses its work array "
                   "for the next group of a family silently changes the "
                   "labels of the groups built before")
    cls = ctx.p.get_class(COX_REL, "CoxeterGroup")
    n = 0
    for f in cls.methods.values():
        params = {p for p in f.params if p not in ("self", "cls")}
        defs = single_defs(f.node)
        for st in ast.walk(f.node):
            if not (isinstance(st, ast.Assign) and len(st.targets) == 1
                    and isinstance(st.targets[0], ast.Attribute)
                    and st.targets[0].attr == "coxeter_matrix"
                    and dotted(st.targets[0].value) == "self"):
                continue
            n += 1
            r.analysed(f)
            v = st.value
            if isinstance(v, ast.Name) and v.id in defs:
                v = defs[v.id]
            alias = None
            if isinstance(v, ast.Name) and v.id in params:
                alias = "the parameter itself"
            elif isinstance(v, ast.Call) and dotted(v.func) in (
                    "np.asarray", "np.asanyarray", "np.ascontiguousarray") \
                    and v.args and isinstance(v.args[0], ast.Name) \
                    and v.args[0].id in params:
                alias = dotted(v.func) + " of the parameter (no copy for an "\
                    "ndarray)"
            inst = f"{f.qualname}:coxeter_matrix"
            if alias:
                r.violation(
                    "OWN1", f"{f.fq}|coxeter_matrix", loc(f, st),
                    norm_stmt(st)[:120],
                    f"`self.coxeter_matrix` is {alias}: the group's labels "
                    "change when the caller edits its array afterwards, so "
                    "representations computed later are those of another "
                    "group than the one constructed", instance=inst)
            else:
                r.ok("OWN1", inst, loc(f, st), norm_stmt(st)[:80],
                     "stores its own array")
    if n == 0:
        r.note("OWN1", COX_REL, "coxeter_matrix",
               "no assignment of self.coxeter_matrix found (not judged)")


COX_REL = "geometry_tools/coxeter.py"


_ORTHONORMAL = ("eigh", "qr", "svd", "indefinite_orthogonalize", "orth")


def rule_pair1(ctx):
    r = ctx.r
    r.rule("PAIR1", "diagonalize_form returns (W, W^-1): (a) the matrix whose "
                    "conjugate transpose is used as its inverse comes from "
                    "an orthonormal source (eigh / qr / svd), never from the "
                    "general eigensolver, whose eigenvectors are unit but not "
                    "orthogonal inside a repeated eigenspace; (b) after "
                    "their definitions W and W^-1 receive the same number "
                    "of updates (the permutation is applied to both): an "
                    "extra rescaling / sign normalisation of one of them "
                    "leaves a pair that is not inverse")
    f = ctx.p.get_function(CORE, "diagonalize_form")
    r.analysed(f)
    # (a)
    n_a = 0
    for st in ast.walk(f.node):
        if not (isinstance(st, ast.Assign) and len(st.targets) == 1
                and isinstance(st.targets[0], ast.Name)):
            continue
        v = st.value
        core = v.args[0] if isinstance(v, ast.Call) and dotted(
            v.func).split(".")[-1] in ("conjugate", "conj") and v.args else v
        base = None
        if isinstance(core, ast.Call) and isinstance(core.func, ast.Attribute) \
                and core.func.attr == "swapaxes" and isinstance(
                    core.func.value, ast.Name) \
                and core.func.value.id not in ("np", "numpy"):
            base = core.func.value.id
        elif isinstance(core, ast.Attribute) and core.attr in ("T", "H") \
                and isinstance(core.value, ast.Name):
            base = core.value.id
        elif isinstance(core, ast.Call) and dotted(core.func) in (
                "np.swapaxes", "np.transpose", "np.moveaxis") and core.args \
                and isinstance(core.args[0], ast.Name):
            base = core.args[0].id        # the function form of the transpose
        if base is None:
            continue
        src = None
        for d in ast.walk(f.node):
            if isinstance(d, ast.Assign) and isinstance(d.value, ast.Call):
                names = [x.id for t in d.targets for x in ast.walk(t)
                         if isinstance(x, ast.Name)]
                if base in names and d.lineno <= st.lineno:
                    src = dotted(d.value.func).split(".")[-1]
        if src not in _ORTHONORMAL and src not in ("eig", "eigvals"):
            continue          # not the eigenvector matrix of a solver
        n_a += 1
        inst = f"diagonalize_form:{st.targets[0].id}"
        if src in _ORTHONORMAL:
            r.ok("PAIR1", inst, loc(f, st), norm_stmt(st)[:80],
                 f"`{base}` comes from {src}: its conjugate transpose is its "
                 "inverse")
        elif src in ("eig", "eigvals"):
            r.violation(
                "PAIR1", f"{f.fq}|{st.targets[0].id}|source", loc(f, st),
                norm_stmt(st)[:120],
                f"`{st.targets[0].id}` is the conjugate transpose of `{base}`, "
                f"which comes from `{src}`: a general eigensolver does not "
                "return orthogonal eigenvectors inside a repeated eigenspace "
                "(every Coxeter diagram with a symmetry), so the transpose "
                "is not the inverse and W^T B W is not diagonal",
                instance=inst)
    # (b)
    pair = None
    for rt in ast.walk(f.node):
        if isinstance(rt, ast.Return) and isinstance(rt.value, ast.Tuple) \
                and len(rt.value.elts) == 2 and all(
                    isinstance(e, ast.Name) for e in rt.value.elts):
            pair = tuple(e.id for e in rt.value.elts)
    if pair is None:
        r.note("PAIR1", loc(f, f.node), "diagonalize_form",
               "no `return (W, Winv)` found (not judged)")
        return

    def updates(name):
        out = []
        for st in ast.walk(f.node):
            if isinstance(st, ast.Assign) and len(st.targets) == 1:
                t = st.targets[0]
                if isinstance(t, ast.Name) and t.id == name and any(
                        isinstance(x, ast.Name) and x.id == name
                        for x in ast.walk(st.value)):
                    out.append(st)
                if isinstance(t, ast.Subscript) and dotted(t.value) == name:
                    out.append(st)
            if isinstance(st, ast.AugAssign):
                t = st.target
                if (isinstance(t, ast.Name) and t.id == name) or (
                        isinstance(t, ast.Subscript)
                        and dotted(t.value) == name):
                    out.append(st)
        return out
    ua, ub = updates(pair[0]), updates(pair[1])
    inst = "diagonalize_form:pair"
    if len(ua) == len(ub):
        r.ok("PAIR1", inst, loc(f, f.node), "",
             f"`{pair[0]}` and `{pair[1]}` are each updated {len(ua)} "
             "time(s) after their definition")
    else:
        more, st_ = (pair[0], ua) if len(ua) > len(ub) else (pair[1], ub)
        r.violation(
            "PAIR1", f"{f.fq}|updates", loc(f, st_[-1]),
            norm_stmt(st_[-1])[:120],
            f"`{pair[0]}` is updated {len(ua)} time(s) after its "
            f"definition and `{pair[1]}` {len(ub)}: `{more}` receives a "
            "modification (a rescaling, a sign normalisation) that its "
            "partner does not, so the returned pair is no longer a matrix "
            "and its inverse and the conjugated Coxeter generators stop "
            "being involutions", instance=inst)


def rule_invmap1(ctx, rels):
    r = ctx.r
    r.rule("INVMAP1", "a dictionary comprehension that turns a "
                      "`key -> value` map around (`{value: .. for key, value "
                      "in m.items()}`) keeps ONE entry per value: where the "
                      "new entry is a list that is meant to collect the "
                      "keys (`[key]`), keys that share a value overwrite "
                      "each other. Regrouping label -> target rows as "
                      "target -> [labels] this way loses parallel edges")
    n = 0
    for rel in rels:
        mod = ctx.p.module_by_rel(rel)
        for f in ctx.p.all_functions:
            if f.module is not mod:
                continue
            for dc in ast.walk(f.node):
                if not (isinstance(dc, ast.DictComp)
                        and len(dc.generators) == 1):
                    continue
                g = dc.generators[0]
                if not (isinstance(g.target, ast.Tuple)
                        and len(g.target.elts) == 2
                        and all(isinstance(e, ast.Name)
                                for e in g.target.elts)
                        and isinstance(g.iter, ast.Call)
                        and isinstance(g.iter.func, ast.Attribute)
                        and g.iter.func.attr == "items"):
                    continue
                kname, vname = (e.id for e in g.target.elts)
                if not (isinstance(dc.key, ast.Name) and dc.key.id == vname):
                    continue
                n += 1
                r.analysed(f)
                inst = f"{f.qualname}:inverse-map"
                collects = isinstance(dc.value, (ast.List, ast.Set)) \
                    and len(dc.value.elts) == 1 \
                    and isinstance(dc.value.elts[0], ast.Name) \
                    and dc.value.elts[0].id == kname
                if collects:
                    r.violation(
                        "INVMAP1", f"{f.fq}|{ast.unparse(dc)[:50]}",
                        loc(f, dc), ast.unparse(dc)[:120],
                        f"`{ast.unparse(dc)[:70]}` builds one singleton list "
                        f"per `{vname}`: when two `{kname}`s map to the same "
                        f"`{vname}` (two labels on edges to one target) the "
                        "later one replaces the earlier, so the outgoing / "
                        "incoming views list fewer edges than the label "
                        "view", instance=inst)
                else:
                    r.ok("INVMAP1", inst, loc(f, dc), ast.unparse(dc)[:80],
                         "does not collect keys into singleton lists")
    if n == 0:
        r.ok("INVMAP1", "modules", ",".join(rels), "",
             "no map is inverted by a comprehension")


_FINITE_TESTS = ("isnan", "isfinite", "isinf", "nan_to_num")
_OBJECT_SINKS = ("Point", "IdealPoint", "DualPoint", "Isometry", "Hyperplane",
                 "Geodesic", "Segment", "Subspace", "TangentVector",
                 "find_isometry", "indefinite_orthogonalize",
                 "orthogonal_complement")


def rule_nanflow1(ctx):
    r = ctx.r
    r.rule("NANFLOW1", "the centre / radius returned by sphere_parameters and "
                       "circle_parameters is nan BY DESIGN for a subspace "
                       "through the origin (a flat in the Poincare model; "
                       "the drawing code tests for it). It is not used to "
                       "build further geometric objects or frames "
                       "(Point(..), Isometry(..), find_isometry, "
                       "indefinite_orthogonalize) unless a finiteness test "
                       "(np.isnan / np.isfinite / np.isinf) on it or on the "
                       "value derived from it appears in the function: "
                       "otherwise every construction on a diameter -- its "
                       "dual point, the reflection across it -- is nan")
    hyp = ctx.p.module_by_rel(HYP)
    n = 0
    for f in ctx.p.all_functions:
        if f.module is not hyp:
            continue
        srcs = {}
        for st in ast.walk(f.node):
            if isinstance(st, ast.Assign) and isinstance(st.value, ast.Call) \
                    and dotted(st.value.func).split(".")[-1] in (
                        "sphere_parameters", "circle_parameters"):
                for t in st.targets:
                    for x in ast.walk(t):
                        if isinstance(x, ast.Name):
                            srcs[x.id] = st
        if not srcs:
            continue
        # values derived from them
        derived = dict(srcs)
        grew = True
        while grew:
            grew = False
            for st in ast.walk(f.node):
                if isinstance(st, ast.Assign) and len(st.targets) == 1 \
                        and isinstance(st.targets[0], ast.Name) \
                        and st.targets[0].id not in derived and any(
                            isinstance(x, ast.Name) and x.id in derived
                            for x in ast.walk(st.value)):
                    derived[st.targets[0].id] = st
                    grew = True
        tested = set()
        for c in ast.walk(f.node):
            if isinstance(c, ast.Call) and dotted(c.func).split(".")[-1] \
                    in _FINITE_TESTS:
                for x in ast.walk(c):
                    if isinstance(x, ast.Name) and x.id in derived:
                        tested.add(x.id)
        sinks = []
        for c in ast.walk(f.node):
            if isinstance(c, ast.Call) and dotted(c.func).split(".")[-1] \
                    in _OBJECT_SINKS:
                for a in list(c.args) + [k.value for k in c.keywords]:
                    if any(isinstance(x, ast.Name) and x.id in srcs
                           for x in ast.walk(a)):
                        sinks.append(c)
        for c in sinks:
            n += 1
            r.analysed(f)
            inst = f"{f.qualname}:{dotted(c.func)}"
            if tested:
                r.ok("NANFLOW1", inst, loc(f, c), dotted(c)[:80],
                     "a finiteness test on " + ", ".join(sorted(tested))
                     + " handles the flat case")
            else:
                r.violation(
                    "NANFLOW1", f"{f.fq}|{dotted(c.func)}", loc(f, c),
                    dotted(c)[:120],
                    f"{f.qualname} builds `{dotted(c)[:50]}` from the "
                    "Poincare centre of the subspace, which is nan when the "
                    "subspace passes through the origin (its sphere is a "
                    "flat), and nothing tests for that: the dual point and "
                    "the reflection across any diameter of the ball are nan",
                    instance=inst)
    if n == 0:
        r.ok("NANFLOW1", "hyperbolic.py", HYP, "",
             "no object is built from a sphere centre")


# ---------------------------------------------------------------------------
# DEFER1 / RESPLIT1 (round 11: defects found by the hunters)


def _deferring_params(f):
    """{param: 'self.X'} for `if p is None: p = <expr mentioning self>`."""
    out = {}
    params = set(f.params)
    for n in ast.walk(f.node):
        if not (isinstance(n, ast.If) and isinstance(n.test, ast.Compare)
                and len(n.test.ops) == 1
                and isinstance(n.test.ops[0], ast.Is)
                and isinstance(n.test.left, ast.Name)
                and n.test.left.id in params
                and isinstance(n.test.comparators[0], ast.Constant)
                and n.test.comparators[0].value is None):
            continue
        for b in n.body:
            if isinstance(b, ast.Assign) and len(b.targets) == 1 \
                    and isinstance(b.targets[0], ast.Name) \
                    and b.targets[0].id == n.test.left.id \
                    and any(isinstance(x, ast.Name) and x.id == "self"
                            for x in ast.walk(b.value)):
                out[n.test.left.id] = dotted(b.value)
    # `x = self.<setting> if p is None else p` / `p if p is not None else ..`
    for n in ast.walk(f.node):
        if not (isinstance(n, ast.IfExp) and isinstance(n.test, ast.Compare)
                and len(n.test.ops) == 1
                and isinstance(n.test.left, ast.Name)
                and n.test.left.id in params
                and isinstance(n.test.comparators[0], ast.Constant)
                and n.test.comparators[0].value is None):
            continue
        p = n.test.left.id
        if isinstance(n.test.ops[0], ast.Is):
            dflt, other = n.body, n.orelse
        elif isinstance(n.test.ops[0], ast.IsNot):
            dflt, other = n.orelse, n.body
        else:
            continue
        if isinstance(other, ast.Name) and other.id == p and any(
                isinstance(x, ast.Name) and x.id == "self"
                for x in ast.walk(dflt)):
            out[p] = dotted(dflt)
    return out


def _param_default(f, name):
    """-> ('none'|'const'|'required'|'other', node)"""
    a = f.node.args
    pos = a.posonlyargs + a.args
    for p, d in zip(pos[len(pos) - len(a.defaults):], a.defaults):
        if p.arg == name:
            if isinstance(d, ast.Constant):
                return ("none" if d.value is None else "const", d)
            return ("other", d)
    for p, d in zip(a.kwonlyargs, a.kw_defaults):
        if p.arg == name:
            if d is None:
                return ("required", None)
            if isinstance(d, ast.Constant):
                return ("none" if d.value is None else "const", d)
            return ("other", d)
    return ("required", None)


def rule_defer1(ctx, rel, cls_name):
    r = ctx.r
    r.rule("DEFER1", "a parameter that means 'None = use the setting of this "
                     "object' (`if p is None: p = self.<setting>`) keeps that "
                     "meaning through the methods that forward to it: a "
                     "method handing ITS parameter on to such a parameter "
                     "declares it with the default None (or without a "
                     "default). A constant default (True) makes the object's "
                     "setting unreachable through that method -- "
                     "`rep[word]` parses character by character whatever "
                     "`parse_simple` the representation was built with")
    cls = ctx.p.get_class(rel, cls_name)
    methods = {f.name: f for f in ctx.p.all_functions
               if f.cls is not None and f.cls.name == cls.name
               and f.module is cls.module}
    deferring = {}
    for f in methods.values():
        for p, src in _deferring_params(f).items():
            deferring[(f.name, p)] = src
    if not deferring:
        r.note("DEFER1", f"{rel}", cls_name,
               "no `if p is None: p = self.<setting>` parameter in this "
               "class (not judged)")
        return
    n_sites = 0
    changed = True
    reported = set()
    while changed:
        changed = False
        for f in methods.values():
            for c in ast.walk(f.node):
                if not (isinstance(c, ast.Call)
                        and isinstance(c.func, ast.Attribute)
                        and isinstance(c.func.value, ast.Name)
                        and c.func.value.id == "self"
                        and c.func.attr in methods):
                    continue
                g = methods[c.func.attr]
                gparams = [p for p in g.params if p != "self"]
                bound = {}
                for i, a in enumerate(c.args):
                    if i < len(gparams) and not isinstance(a, ast.Starred):
                        bound[gparams[i]] = a
                for k in c.keywords:
                    if k.arg:
                        bound[k.arg] = k.value
                for p, a in bound.items():
                    if (g.name, p) not in deferring:
                        continue
                    if not (isinstance(a, ast.Name) and a.id in f.params
                            and a.id != "self"):
                        continue
                    # is the forwarded parameter reassigned before the call?
                    if any(isinstance(s, (ast.Assign, ast.AugAssign))
                           and any(isinstance(t, ast.Name) and t.id == a.id
                                   for t in ast.walk(s)
                                   if isinstance(getattr(t, "ctx", None),
                                                 ast.Store))
                           for s in ast.walk(f.node)):
                        continue
                    kind, d = _param_default(f, a.id)
                    key = (f.name, a.id, g.name, p)
                    if kind in ("none", "required"):
                        if (f.name, a.id) not in deferring:
                            deferring[(f.name, a.id)] = deferring[(g.name, p)]
                            changed = True
                        if key not in reported:
                            reported.add(key)
                            n_sites += 1
                            r.analysed(f)
                            r.ok("DEFER1", f"{f.qualname}:{a.id}", loc(f, c),
                                 dotted(c)[:80],
                                 f"`{a.id}` (default {kind}) is forwarded to "
                                 f"{g.name}({p}=None -> "
                                 f"{deferring[(g.name, p)]})")
                    elif kind == "const" and key not in reported:
                        reported.add(key)
                        n_sites += 1
                        r.analysed(f)
                        r.violation(
                            "DEFER1", f"{f.fq}|{a.id}->{g.name}.{p}",
                            loc(f, d), f"{a.id}={dotted(d)}",
                            f"{f.qualname} declares `{a.id}={dotted(d)}` and "
                            f"hands it to {g.name}(.., {p}), where None "
                            f"means `{deferring[(g.name, p)]}`: called with "
                            f"its defaults ({'`obj[word]`' if f.name == 'element' else 'the usual call'}) "
                            "the method never consults the object's own "
                            "setting, so a representation built with "
                            "parse_simple=False reads the generator name "
                            "'ab' as a*b and raises KeyError on 'a1*b1'",
                            instance=f"{f.qualname}:{a.id}")
    if n_sites == 0:
        r.note("DEFER1", rel, cls_name,
               "no method forwards its own parameter to a deferring "
               "parameter (nothing to judge)")


def rule_resplit1(ctx, rel):
    r = ctx.r
    r.rule("RESPLIT1", "re.split returns an EMPTY string for the empty "
                       "input, before a leading delimiter, after a trailing "
                       "one and between adjacent delimiters ('(a1)(b1)' -> "
                       "['', 'a1', '', 'b1', '']); a token list that is "
                       "looked up in the generator table drops them (a "
                       "comprehension / filter with a truth test). "
                       "Otherwise the empty word -- the identity -- and "
                       "every parenthesised word raise KeyError('')")
    mod = ctx.p.module_by_rel(rel)
    n = 0
    for f in ctx.p.all_functions:
        if f.module is not mod:
            continue
        parents = f.module.parents

        def state(node, depth=0):
            """'filtered' | 'raw' (returned as it is) | 'other'"""
            par = parents.get(node)
            if isinstance(par, ast.comprehension) and par.iter is node:
                return "filtered" if par.ifs else "other"
            if isinstance(par, ast.Call) and dotted(par.func) == "filter":
                return "filtered"
            if isinstance(par, ast.Call) and dotted(par.func) in (
                    "list", "tuple") and par.args and par.args[0] is node:
                return state(par, depth)
            if isinstance(par, ast.IfExp) and node is not par.test:
                return state(par, depth)
            if isinstance(par, ast.Return):
                return "raw"
            if isinstance(par, ast.Assign) and len(par.targets) == 1 \
                    and isinstance(par.targets[0], ast.Name) and depth < 3:
                nm = par.targets[0].id
                uses = [x for x in ast.walk(f.node)
                        if isinstance(x, ast.Name) and x.id == nm
                        and isinstance(x.ctx, ast.Load)]
                st = [state(u, depth + 1) for u in uses]
                if "raw" in st:
                    return "raw"
                if st and all(x == "filtered" for x in st):
                    return "filtered"
                return "other"
            return "other"
        for c in ast.walk(f.node):
            if not (isinstance(c, ast.Call) and dotted(c.func) == "re.split"):
                continue
            st = state(c)
            if st == "other":
                continue
            n += 1
            r.analysed(f)
            if st == "filtered":
                r.ok("RESPLIT1", f"{f.qualname}:re.split", loc(f, c),
                     dotted(c)[:80], "empty tokens are dropped")
            else:
                r.violation(
                    "RESPLIT1", f"{f.fq}|re.split", loc(f, c),
                    dotted(c)[:100],
                    f"{f.qualname} returns the raw result of re.split: for "
                    "the empty word it is [''] and for '(a1)(b1)' it is "
                    "['', 'a1', '', 'b1', '']; _word_value looks every "
                    "token up in self.generators and raises KeyError(''), "
                    "so the identity has no image and the reserved "
                    "parentheses cannot be used",
                    instance=f"{f.qualname}:re.split")
    if n == 0:
        r.note("RESPLIT1", rel, "re.split",
               "no function returns a re.split token list (not judged)")


def _rep_kind(f, name):
    """'rep' when `name` is a representation in f (self, a parameter, a local
    built by a constructor / a representation-returning method), 'table'
    when it is bound to `<x>.generators`, else None."""
    if name == "self" or name in f.params:
        return "rep"
    binds = [s.value for s in ast.walk(f.node) if isinstance(s, ast.Assign)
             and any(isinstance(t, ast.Name) and t.id == name
                     for t in s.targets)]
    if not binds:
        return None
    kinds = set()
    for v in binds:
        if isinstance(v, ast.Attribute) and v.attr in ("generators",
                                                       "_generators"):
            kinds.add("table")
        elif isinstance(v, ast.Call) and (
                dotted(v.func).split(".")[-1] in (
                    "Representation", "tensor_product", "symmetric_square",
                    "compose", "_compose", "conjugate", "dual", "astype",
                    "subgroup", "copy", "deepcopy")
                or dotted(v.func).endswith("__class__")):
            kinds.add("rep")
        else:
            kinds.add(None)
    return kinds.pop() if len(kinds) == 1 else None


def rule_genacc1(ctx, rel):
    r = ctx.r
    r.rule("GENACC1", "inside a loop over generator NAMES (`for g in "
                      "<rep>.asym_gens()` / `.generators`) the image of the "
                      "generator is read from the table, "
                      "`<rep>.generators[g]`. `<rep>[g]` is something else: "
                      "it evaluates the WORD g -- parsed with the "
                      "representation's parse setting (a fresh "
                      "Representation() parses character by character, so "
                      "the generator 'ab' becomes a*b) and wrapped by "
                      "wrap_func (a Transformation object for a projective "
                      "representation, which np.tensordot cannot multiply)")
    mod = ctx.p.module_by_rel(rel)
    n = 0
    for f in ctx.p.all_functions:
        if f.module is not mod or f.cls is None:
            continue
        for loop in ast.walk(f.node):
            if not (isinstance(loop, ast.For)
                    and isinstance(loop.target, ast.Name)):
                continue
            it = loop.iter
            over_names = (isinstance(it, ast.Call)
                          and isinstance(it.func, ast.Attribute)
                          and it.func.attr == "asym_gens") or \
                (isinstance(it, ast.Attribute) and it.attr == "generators")
            if not over_names:
                continue
            g = loop.target.id
            for sub in ast.walk(loop):
                if not (isinstance(sub, ast.Subscript)
                        and isinstance(sub.ctx, ast.Load)
                        and isinstance(sub.slice, ast.Name)
                        and sub.slice.id == g):
                    continue
                n += 1
                r.analysed(f)
                base = sub.value
                if isinstance(base, ast.Attribute) and base.attr in (
                        "generators", "_generators"):
                    r.ok("GENACC1", f"{f.qualname}:{dotted(sub)}",
                         loc(f, sub), dotted(sub),
                         "the stored matrix of the generator")
                    continue
                if not isinstance(base, ast.Name):
                    continue
                kind = _rep_kind(f, base.id)
                if kind == "table":
                    r.ok("GENACC1", f"{f.qualname}:{dotted(sub)}",
                         loc(f, sub), dotted(sub),
                         f"`{base.id}` is a generator table "
                         "(<rep>.generators)")
                    continue
                if kind != "rep":
                    continue             # not known to be a representation
                r.violation(
                    "GENACC1", f"{f.fq}|{dotted(base)}[.]", loc(f, sub),
                    dotted(sub),
                    f"`{dotted(sub)}` evaluates the generator name as a "
                    f"word of `{dotted(base)}` (parse setting, wrap_func) "
                    "instead of reading its stored matrix: with generators "
                    "'a', 'b', 'ab' the symmetric square of 'ab' is built "
                    "from a@b; with names 'a1', 'b1' it is a KeyError; for a "
                    "ProjectiveRepresentation it is a TypeError in "
                    "np.tensordot", instance=f"{f.qualname}:{dotted(base)}[g]")
    if n == 0:
        r.note("GENACC1", rel, "generator loops",
               "no loop over generator names reads an image by subscript "
               "(not judged)")


def rule_fwd1(ctx, rel):
    r = ctx.r
    r.rule("FWD1", "a wrapper factory that takes `*args` / `**kwargs` for "
                   "the wrapped map hands BOTH to it in every closure it "
                   "returns: the two branches of lie.hom._wrap_hom (maps "
                   "with and without an `inv` parameter) differ only in "
                   "`inv`. A closure that calls `hom(mat, *args)` silently "
                   "drops bilinear_form= / like= / dtype=: "
                   "hom.so21_to_sl2(bilinear_form=F) evaluates the map for "
                   "diag(-1,1,1) and is not multiplicative on O(F)")
    mod = ctx.p.module_by_rel(rel)
    n = 0
    for f in ctx.p.all_functions:
        if f.module is not mod:
            continue
        a = f.node.args
        if a.vararg is None and a.kwarg is None:
            continue
        fparams = {x.arg for x in a.posonlyargs + a.args + a.kwonlyargs}
        inner = [d for d in ast.walk(f.node)
                 if isinstance(d, (ast.FunctionDef, ast.Lambda))
                 and d is not f.node]
        for d in inner:
            own = {x.arg for x in d.args.posonlyargs + d.args.args
                   + d.args.kwonlyargs}
            for c in ast.walk(d):
                if not (isinstance(c, ast.Call)
                        and isinstance(c.func, ast.Name)
                        and c.func.id in fparams and c.func.id not in own):
                    continue
                n += 1
                r.analysed(f)
                missing = []
                if a.vararg is not None and not any(
                        isinstance(x, ast.Starred)
                        and isinstance(x.value, ast.Name)
                        and x.value.id == a.vararg.arg for x in c.args):
                    missing.append("*" + a.vararg.arg)
                if a.kwarg is not None and not any(
                        k.arg is None and isinstance(k.value, ast.Name)
                        and k.value.id == a.kwarg.arg for k in c.keywords):
                    missing.append("**" + a.kwarg.arg)
                key = f"{f.qualname}:{dotted(c)[:50]}"
                if not missing:
                    r.ok("FWD1", key, loc(f, c), dotted(c)[:80],
                         "forwards every variadic of the factory")
                else:
                    r.violation(
                        "FWD1", f"{f.fq}|{'+'.join(missing)}", loc(f, c),
                        dotted(c)[:100],
                        f"this closure of {f.qualname} calls the wrapped map "
                        f"without {' and '.join(missing)}: the options given "
                        "to the factory (bilinear_form=, like=, dtype=) are "
                        "dropped for every map that has no `inv` parameter "
                        "-- o_to_pgl, sl2_to_so21, slc_to_slr, sl2c_to_so31 "
                        "-- so the wrapped map is not the homomorphism the "
                        "caller configured",
                        instance=f"{f.qualname}:{'+'.join(missing)}")
    if n == 0:
        r.note("FWD1", rel, "wrapper factories",
               "no closure calls a parameter of a variadic factory "
               "(not judged)")


# ---------------------------------------------------------------------------
# HOMDIV1: denominators homogeneous in the representatives


def _deg_add(a, b):
    return tuple(x + y for x, y in zip(a, b))


def _degset(e, defs, param, nrows, depth=0):
    """Set of multidegrees (one entry per row of `param`) of the monomials
    of expression e, or None when not determined."""
    Z = (0,) * nrows
    if depth > 12:
        return None
    if isinstance(e, ast.Constant) and isinstance(e.value, (int, float)):
        return frozenset([Z])
    if isinstance(e, ast.Name):
        if e.id in defs:
            return _degset(defs[e.id], defs, param, nrows, depth + 1)
        return None
    if isinstance(e, ast.UnaryOp) and isinstance(e.op, (ast.USub, ast.UAdd)):
        return _degset(e.operand, defs, param, nrows, depth + 1)
    if isinstance(e, ast.Subscript):
        idx = e.slice.elts if isinstance(e.slice, ast.Tuple) else [e.slice]
        base = e.value
        ints = [const_value(i) for i in idx
                if isinstance(const_value(i), int)
                and not isinstance(const_value(i), bool)]
        rest = [i for i in idx if not (isinstance(const_value(i), int)
                                       and not isinstance(const_value(i),
                                                          bool))]
        passthrough = all(
            (isinstance(i, ast.Constant) and i.value in (Ellipsis, None))
            or (isinstance(i, ast.Slice) and i.lower is None
                and i.upper is None)
            or dotted(i) == "np.newaxis" for i in rest)
        if not passthrough:
            return None
        b = base
        hops = 0
        while isinstance(b, ast.Name) and b.id in defs and hops < 4:
            b = defs[b.id]
            hops += 1
        if isinstance(b, ast.Name) and b.id == param:
            if not ints:
                return None
            if len(ints) == 1 and 0 <= ints[0] < nrows:
                return frozenset([tuple(int(k == ints[0])
                                        for k in range(nrows))])
            return None
        if _is_gram(b, param):
            if len(ints) == 2 and all(0 <= i < nrows for i in ints):
                d = [0] * nrows
                d[ints[0]] += 1
                d[ints[1]] += 1
                return frozenset([tuple(d)])
            return None
        if not ints:
            return _degset(base, defs, param, nrows, depth + 1)
        return None
    if isinstance(e, ast.BinOp):
        a = _degset(e.left, defs, param, nrows, depth + 1)
        b = _degset(e.right, defs, param, nrows, depth + 1)
        if isinstance(e.op, ast.Pow):
            k = const_value(e.right)
            if a is None or not isinstance(k, (int, float)):
                return None
            if len(a) == 1:
                return frozenset([tuple(x * k for x in next(iter(a)))])
            if k == 2:
                return frozenset(_deg_add(x, y) for x in a for y in a)
            return None
        if a is None or b is None:
            return None
        if isinstance(e.op, (ast.Add, ast.Sub)):
            return a | b
        if isinstance(e.op, ast.Mult):
            return frozenset(_deg_add(x, y) for x in a for y in b)
        if isinstance(e.op, ast.Div):
            if len(b) != 1:
                return None
            d = next(iter(b))
            return frozenset(tuple(x - y for x, y in zip(m, d)) for m in a)
        return None
    if isinstance(e, ast.Call):
        fn = dotted(e.func)
        if fn in ("np.sqrt", "np.emath.sqrt") and e.args:
            a = _degset(e.args[0], defs, param, nrows, depth + 1)
            if a is not None and len(a) == 1:
                return frozenset([tuple(x / 2 for x in next(iter(a)))])
            return None
        if fn in ("np.abs", "np.absolute", "np.real", "np.conjugate") \
                and e.args:
            a = _degset(e.args[0], defs, param, nrows, depth + 1)
            return a if a is not None and len(a) == 1 else None
        if fn == "np.where" and len(e.args) == 3:
            a = _degset(e.args[1], defs, param, nrows, depth + 1)
            b = _degset(e.args[2], defs, param, nrows, depth + 1)
            if a is not None and a == b and len(a) == 1:
                return a
            return None
        if fn in ("np.expand_dims", "np.squeeze") and e.args:
            return _degset(e.args[0], defs, param, nrows, depth + 1)
        if fn == "utils.apply_bilinear" and len(e.args) >= 2:
            a = _degset(e.args[0], defs, param, nrows, depth + 1)
            b = _degset(e.args[1], defs, param, nrows, depth + 1)
            if a is None or b is None:
                return None
            return frozenset(_deg_add(x, y) for x in a for y in b)
    return None


def _is_gram(e, param):
    """P @ F @ P.swapaxes(-1, -2) (any bracketing) with P the parameter."""
    if not (isinstance(e, ast.BinOp) and isinstance(e.op, ast.MatMult)):
        return False
    leaves = []

    def flat(x):
        if isinstance(x, ast.BinOp) and isinstance(x.op, ast.MatMult):
            flat(x.left)
            flat(x.right)
        else:
            leaves.append(x)
    flat(e)
    if len(leaves) != 3:
        return False
    first, last = leaves[0], leaves[-1]
    if not (isinstance(first, ast.Name) and first.id == param
            and isinstance(last, ast.Call)):
        return False
    # P.swapaxes(-1, -2) / P.transpose(..) / np.swapaxes(P, -1, -2) / P.T
    if isinstance(last.func, ast.Attribute) \
            and last.func.attr in ("swapaxes", "transpose") \
            and isinstance(last.func.value, ast.Name) \
            and last.func.value.id == param:
        return True
    return dotted(last.func) in ("np.swapaxes", "np.transpose",
                                 "np.moveaxis") and last.args \
        and isinstance(last.args[0], ast.Name) and last.args[0].id == param


HOMDIV_ROWS = [
    # (module, function, row-stacked parameter, number of rows)
    (HYP, "Segment._compute_aux_data", "end_data", 2),
]


def rule_homdiv1(ctx):
    r = ctx.r
    r.rule("HOMDIV1", "the two rows of a segment are REPRESENTATIVES, each "
                      "defined up to its own non-zero scalar: a denominator "
                      "in the ideal-endpoint computation is homogeneous in "
                      "each row (a single multidegree in the Gram entries "
                      "a11, a12, a22). An inhomogeneous one, "
                      "a11 - 2 a12 + a22 = <p1 - p2, p1 - p2>, is a "
                      "polynomial in the relative scale t of the two lifts, "
                      "a11 - 2t a12 + t^2 a22, with a real root whenever "
                      "a12^2 >= a11 a22 -- for every pair of causal vectors: "
                      "some lifts of EVERY segment (6% of small-integer "
                      "pairs) divide by zero and the ideal endpoints, "
                      "circle parameters and drawings are NaN")
    for rel, qn, param, nrows in HOMDIV_ROWS:
        f = ctx.p.get_function(rel, qn)
        r.analysed(f)
        if param not in f.params:
            r.note("HOMDIV1", loc(f, f.node), qn,
                   f"parameter `{param}` is gone (not judged)")
            continue
        defs = single_defs(f.node)
        n = 0
        for d in ast.walk(f.node):
            if not (isinstance(d, ast.BinOp) and isinstance(d.op, ast.Div)):
                continue
            n += 1
            ds = _degset(d.right, defs, param, nrows)
            inst = f"{qn}:/{dotted(d.right)[:30]}"
            if ds is None:
                r.note("HOMDIV1", loc(f, d), inst,
                       f"the degree of the denominator "
                       f"`{dotted(d.right)[:60]}` is not determined "
                       "(not judged)")
            elif len(ds) == 1:
                r.ok("HOMDIV1", inst, loc(f, d), dotted(d.right)[:60],
                     f"homogeneous of degree {next(iter(ds))}")
            else:
                r.violation(
                    "HOMDIV1", f"{f.fq}|div@{sorted(ds)}", loc(f, d),
                    dotted(d)[:100],
                    f"the denominator `{dotted(d.right)[:60]}` mixes the "
                    f"multidegrees {sorted(ds)} of the two representatives: "
                    "whether it vanishes depends on the chosen lifts, not "
                    "on the segment. Segment([[2,1,0],[3,1,1]]) (difference "
                    "(1,0,1) is lightlike) stores all-NaN ideal endpoints; "
                    "the same segment written [[2,1,0],[6,2,2]] is fine",
                    instance=f"{qn}:inhomogeneous-denominator")
        if n == 0:
            r.ok("HOMDIV1", f"{qn}:no-division", loc(f, f.node), "",
                 "no division in the computation")
