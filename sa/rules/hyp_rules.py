"""Rules over hyperbolic.py: G1 (domain guard), D1 (exhaustive dispatch),
I1 (inverse pairing), X1/X2 (circle_parameters siblings), R1 (rejection
guard), H1 (unaligned cross-object combination), row-convention check."""
import ast

from ..project import AnalysisError, ClassInfo, loc, norm_stmt
from ..flow import dotted, eval_test
from ..norm import single_defs
from ..rules.common import const_value

HYP = "geometry_tools/hyperbolic.py"


# ---------------------------------------------------------------------------
# G1


def _ge_one(e):
    v = const_value(e)
    return v is not None and isinstance(v, (int, float)) and v >= 1


def _guarded_ge1(e, defs, depth=0):
    """Is expression e certainly >= 1 (in exact arithmetic of the guard)?"""
    if isinstance(e, ast.Name) and e.id in defs and depth < 5:
        return _guarded_ge1(defs[e.id], defs, depth + 1)
    if isinstance(e, ast.Call):
        n = dotted(e.func)
        if n in ("np.maximum", "np.fmax", "max") and len(e.args) >= 2:
            return any(_ge_one(a) for a in e.args)
        if n == "np.clip":
            lo = e.args[1] if len(e.args) > 1 else None
            for k in e.keywords:
                if k.arg in ("a_min", "min"):
                    lo = k.value
            return lo is not None and _ge_one(lo)
        if isinstance(e.func, ast.Attribute) and e.func.attr == "clip":
            lo = e.args[0] if e.args else None
            for k in e.keywords:
                if k.arg in ("min", "a_min"):
                    lo = k.value
            return lo is not None and _ge_one(lo)
        if n == "np.where" and len(e.args) == 3:
            # np.where(x < 1, 1, x) / np.where(x >= 1, x, 1)
            c, a, b = e.args
            if isinstance(c, ast.Compare) and len(c.ops) == 1:
                if isinstance(c.ops[0], (ast.Lt, ast.LtE)) and _ge_one(a) \
                        and _ge_one(c.comparators[0]):
                    return True
                if isinstance(c.ops[0], (ast.Gt, ast.GtE)) and _ge_one(b) \
                        and _ge_one(c.comparators[0]):
                    return True
    if isinstance(e, ast.BinOp) and isinstance(e.op, ast.Add):
        for a, b in ((e.left, e.right), (e.right, e.left)):
            if _ge_one(a) and _nonneg(b, defs):
                return True
    return False


def _nonneg(e, defs, depth=0):
    if isinstance(e, ast.Name) and e.id in defs and depth < 5:
        return _nonneg(defs[e.id], defs, depth + 1)
    if isinstance(e, ast.Call) and dotted(e.func) in ("np.abs", "abs",
                                                     "np.absolute", "np.square"):
        return True
    if isinstance(e, ast.BinOp) and isinstance(e.op, ast.Pow) \
            and const_value(e.right) == 2:
        return True
    return False


PARTIAL = {"np.arccosh": (_guarded_ge1, ">= 1")}


def rule_g1(ctx):
    r = ctx.r
    r.rule("G1", "the argument of np.arccosh on the result path of "
                 "Point.distance is clamped into [1, inf) by the code "
                 "(np.maximum(., c>=1), np.clip(., 1, ..), np.fmax, "
                 "np.where(x<1,1,x), 1+nonneg)")
    f = ctx.p.get_function(HYP, "Point.distance")
    r.analysed(f)
    defs = single_defs(f.node)
    rets = [n for n in ast.walk(f.node) if isinstance(n, ast.Return)
            and n.value is not None]
    if not rets:
        raise AnalysisError("Point.distance has no return value")
    sites = []
    seen = set()

    def walk(e, depth=0):
        for n in ast.walk(e):
            if isinstance(n, ast.Call) and dotted(n.func) in PARTIAL \
                    and id(n) not in seen:
                seen.add(id(n))
                sites.append(n)
            if isinstance(n, ast.Name) and n.id in defs and depth < 6:
                walk(defs[n.id], depth + 1)
    for rt in rets:
        walk(rt.value)
    if not sites:
        r.ok("G1", "Point.distance", loc(f, f.node), "",
             "no partial inverse-hyperbolic call on the result path "
             "(nothing to guard)")
        r.note("G1", loc(f, f.node), "Point.distance",
               "distance is no longer computed with np.arccosh; G1 has no "
               "instance")
        return
    for c in sites:
        guard, dom = PARTIAL[dotted(c.func)]
        con = dotted(c)
        if c.args and guard(c.args[0], defs):
            r.ok("G1", f"Point.distance:{con[:60]}", loc(f, c), con[:120],
                 f"argument is clamped to {dom}")
        else:
            r.violation(
                "G1", f"{f.fq}|{dotted(c.func)}", loc(f, c), con[:160],
                f"the argument of {dotted(c.func)} is not clamped to {dom}: "
                "for equal points |<x,x>| evaluates to 1 - ulp for a positive "
                "fraction of inputs and the reported distance d(x,x) is NaN "
                "instead of 0", instance="Point.distance:arccosh")


def _const_pm1(e):
    v = const_value(e)
    if v is None and isinstance(e, ast.UnaryOp) and isinstance(e.op, ast.USub):
        w = const_value(e.operand)
        v = -w if isinstance(w, (int, float)) else None
    return v


def _guarded_unit(e, defs, depth=0):
    """e is clamped into [-1, 1]: np.clip(x, -1, 1), x.clip(-1, 1),
    np.minimum(np.maximum(x, -1), 1) (either nesting)."""
    if isinstance(e, ast.Name) and e.id in defs and depth < 5:
        return _guarded_unit(defs[e.id], defs, depth + 1)
    if not isinstance(e, ast.Call):
        return False
    n = dotted(e.func)
    lo = hi = None
    if n == "np.clip":
        a = list(e.args[1:3]) + [None, None]
        lo, hi = a[0], a[1]
    elif isinstance(e.func, ast.Attribute) and e.func.attr == "clip":
        a = list(e.args[0:2]) + [None, None]
        lo, hi = a[0], a[1]
    if n == "np.clip" or (isinstance(e.func, ast.Attribute)
                          and e.func.attr == "clip"):
        for k in e.keywords:
            if k.arg in ("a_min", "min"):
                lo = k.value
            if k.arg in ("a_max", "max"):
                hi = k.value
        vl = _const_pm1(lo) if lo is not None else None
        vh = _const_pm1(hi) if hi is not None else None
        return vl is not None and vh is not None and vl >= -1 and vh <= 1
    if n in ("np.minimum", "np.fmin", "min") and len(e.args) == 2:
        for a, b in ((e.args[0], e.args[1]), (e.args[1], e.args[0])):
            v = _const_pm1(a)
            if v is not None and v <= 1 and _lower_unit(b, defs):
                return True
    if n in ("np.maximum", "np.fmax", "max") and len(e.args) == 2:
        for a, b in ((e.args[0], e.args[1]), (e.args[1], e.args[0])):
            v = _const_pm1(a)
            if v is not None and v >= -1 and _upper_unit(b, defs):
                return True
    return False


def _lower_unit(e, defs, depth=0):
    if isinstance(e, ast.Name) and e.id in defs and depth < 5:
        return _lower_unit(defs[e.id], defs, depth + 1)
    if isinstance(e, ast.Call) and dotted(e.func) in ("np.maximum", "np.fmax",
                                                     "max") \
            and len(e.args) == 2:
        return any(_const_pm1(a) is not None and _const_pm1(a) >= -1
                   for a in e.args)
    return False


def _upper_unit(e, defs, depth=0):
    if isinstance(e, ast.Name) and e.id in defs and depth < 5:
        return _upper_unit(defs[e.id], defs, depth + 1)
    if isinstance(e, ast.Call) and dotted(e.func) in ("np.minimum", "np.fmin",
                                                     "min") \
            and len(e.args) == 2:
        return any(_const_pm1(a) is not None and _const_pm1(a) <= 1
                   for a in e.args)
    return False


def rule_acos1(ctx):
    r = ctx.r
    r.rule("ACOS1", "the argument of np.arccos / np.arcsin on the result path "
                 "of TangentVector.angle -- the Minkowski product of two "
                 "unit vectors, 1 + ulp for about half of all parallel pairs "
                 "-- is clamped into [-1, 1] by the code (np.clip(., -1, 1), "
                 "np.minimum(np.maximum(., -1), 1))")
    f = ctx.p.get_function(HYP, "TangentVector.angle")
    r.analysed(f)
    defs = single_defs(f.node)
    sites = []
    seen = set()

    def walk(e, depth=0):
        for n in ast.walk(e):
            if isinstance(n, ast.Call) and dotted(n.func) in (
                    "np.arccos", "np.arcsin") and id(n) not in seen:
                seen.add(id(n))
                sites.append(n)
            if isinstance(n, ast.Name) and n.id in defs and depth < 6:
                walk(defs[n.id], depth + 1)
    for rt in ast.walk(f.node):
        if isinstance(rt, ast.Return) and rt.value is not None:
            walk(rt.value)
    if not sites:
        r.note("ACOS1", loc(f, f.node), "TangentVector.angle",
               "the angle is no longer computed with np.arccos / np.arcsin; "
               "ACOS1 has no instance")
        return
    for c in sites:
        con = dotted(c)
        if c.args and _guarded_unit(c.args[0], defs):
            r.ok("ACOS1", f"TangentVector.angle:{dotted(c.func)}", loc(f, c),
                 con[:120], "argument is clamped to [-1, 1]")
        else:
            r.violation(
                "ACOS1", f"{f.fq}|{dotted(c.func)}", loc(f, c), con[:160],
                f"the argument of {dotted(c.func)} is not clamped to "
                "[-1, 1]: the product of two parallel unit tangent vectors "
                "(a vector with itself, the tangents from p towards two "
                "points of one ray) evaluates to 1.0000000000000002 for "
                "about half of all inputs and the reported angle is NaN "
                "instead of 0 (or pi): the law of cosines fails for "
                "collinear points", instance="TangentVector.angle:arccos")


# ---------------------------------------------------------------------------
# D1


ALIAS5 = {"klein": "klein", "poinc": "poinc", "halfs": "halfs",
          "hyper": "hyper", "proje": "proje", "halfp": "halfs",
          "affin": "klein"}


def model_enum(ctx):
    cls = ctx.p.get_class(HYP, "Model")
    table = {}
    for st in cls.node.body:
        if isinstance(st, ast.Assign) and isinstance(st.value, ast.Constant) \
                and isinstance(st.value.value, str):
            for t in st.targets:
                if isinstance(t, ast.Name):
                    table[t.id] = st.value.value
    if len(set(table.values())) < 2:
        raise AnalysisError("hyperbolic.Model: enum body not recognised")
    return table


def _model_of_test(test, enum):
    """`model == Model.X` / `model == "x"` -> value string."""
    if isinstance(test, ast.Compare) and len(test.ops) == 1 \
            and isinstance(test.ops[0], ast.Eq):
        sides = [test.left, test.comparators[0]]
        for s in sides:
            if isinstance(s, ast.Attribute) and isinstance(s.value, ast.Name) \
                    and s.value.id == "Model" and s.attr in enum:
                return enum[s.attr]
            if isinstance(s, ast.Constant) and isinstance(s.value, str):
                v = s.value.lower()
                for k, val in enum.items():
                    if k.lower() == v or val == v:
                        return val
    return None


def model_dispatch(ctx):
    """partial evaluator specialised to hyperbolic.Model"""
    from ..dispatch import Dispatch
    enum = model_enum(ctx)

    def norm(x):
        if x in enum.values():
            return x
        for k, val in enum.items():
            if k.lower() == str(x).lower():
                return val
        return ALIAS5.get(str(x)[:5].lower(), str(x).lower())

    def same(a, b):
        na, nb = norm(a), norm(b)
        return na == nb or ALIAS5.get(na[:5], na) == ALIAS5.get(nb[:5], nb)
    return Dispatch(ctx.p, "Model", enum, same), enum


def rule_d1(ctx):
    r = ctx.r
    r.rule("D1", "every distinct value of hyperbolic.Model reaches a handler "
                 "in the Point.coords dispatch: Point.coords is partially "
                 "evaluated with `model` bound to each member (if / elif "
                 "chains, early returns, bound methods held in locals, "
                 "helper methods returning an accessor, getattr, literal "
                 "dispatch tables, delegation to HyperbolicObject.coords and "
                 "its GeometryError fallback are followed); the specialised "
                 "run must return self.<that model>_coords(...) forwarding "
                 "the data argument and **kwargs")
    disp, enum = model_dispatch(ctx)
    values = sorted(set(enum.values()))
    pc = ctx.p.get_function(HYP, "Point.coords")
    hc = ctx.p.get_function(HYP, "HyperbolicObject.coords")
    r.analysed(pc, hc)
    cls = ctx.p.get_class(HYP, "Point")
    mparam = pc.params[1] if len(pc.params) > 1 else "model"
    for v in values:
        inst = f"coords[{v}]"
        out = disp.resolve(cls, "coords", {mparam: v})
        if out is None:
            r.note("D1", loc(pc, pc.node), inst,
                   f"the dispatch for this value is written in a form the "
                   f"partial evaluator does not follow ({disp.why}): not "
                   "judged")
            continue
        if out[0] == "raise":
            r.violation(
                "D1", f"{pc.fq}|missing:{v}", loc(pc, pc.node),
                "Point.coords",
                f"with model = '{v}' the dispatch of Point.coords (and of "
                "HyperbolicObject.coords behind it) reaches no handler and "
                f"raises: Point(coords, model='{v}') / .coords('{v}') is a "
                "GeometryError", instance=inst)
            continue
        if out[0] != "call":
            r.violation(
                "D1", f"{pc.fq}|{v}|shape", loc(pc, pc.node), "Point.coords",
                f"with model = '{v}' Point.coords returns "
                f"{'None' if out[1] == 'none' else 'a bound method'} "
                "instead of the coordinates computed by the handler",
                instance=inst)
            continue
        _, hname, call, fn = out
        f = next((g for g in ctx.p.all_functions if g.node is fn.node), pc) \
            if hasattr(fn, "node") else pc
        dataparam = f.params[2] if len(f.params) > 2 else None
        okname = hname.endswith("_coords") \
            and ALIAS5.get(hname[:5]) == ALIAS5.get(v[:5])
        fwd_data = any(dotted(a) == dataparam for a in call.args) or any(
            dotted(k.value) == dataparam for k in call.keywords)
        fwd_kw = any(k.arg is None for k in call.keywords)
        if okname and fwd_data and fwd_kw:
            r.ok("D1", inst, loc(f, call), dotted(call)[:100],
                 f"reaches self.{hname} and forwards data + **kwargs")
        else:
            why = []
            if not okname:
                why.append(f"handler self.{hname} is not the '{v}' accessor")
            if not fwd_data:
                why.append(f"the data argument `{dataparam}` is not "
                           "forwarded (setting coordinates is silently "
                           "ignored)")
            if not fwd_kw:
                why.append("**kwargs is not forwarded")
            r.violation("D1", f"{f.fq}|{v}|forward", loc(f, call),
                        dotted(call)[:160], "; ".join(why), instance=inst)
    return enum


# ---------------------------------------------------------------------------
# I1


def _tok(s):
    return ALIAS5.get(s[:5], s[:5])


def _convs(node):
    """module-level a_to_b calls inside node -> list of (a, b, call)."""
    out = []
    for n in ast.walk(node):
        if isinstance(n, ast.Call) and isinstance(n.func, ast.Name) \
                and "_to_" in n.func.id:
            a, b = n.func.id.split("_to_", 1)
            out.append((_tok(a), _tok(b), n))
    return out


def _delegates(node):
    return [n for n in ast.walk(node) if isinstance(n, ast.Call)
            and dotted(n.func).startswith("self.")
            and dotted(n.func).endswith("_coords")]


def rule_i1(ctx):
    r = ctx.r
    r.rule("I1", "get path and set path of a model accessor use name-inverse "
                 "conversions (a_to_b <-> b_to_a) around the same delegate; "
                 "the set conversion leaves the accessor's own model and the "
                 "get conversion enters it")
    for acc, own in (("poincare_coords", "poinc"), ("halfspace_coords", "halfs")):
        f = ctx.p.get_function(HYP, f"Point.{acc}")
        r.analysed(f)
        dataparam = f.params[1]
        parents = f.module.parents

        def on_set_path(node):
            """Is node only evaluated when the data parameter is given?"""
            cur = node
            while cur is not f.node:
                par = parents[cur]
                if isinstance(par, (ast.If, ast.IfExp)):
                    t = eval_test(par.test, {dataparam: "notnone"})
                    body = par.body if isinstance(par.body, list) else [par.body]
                    orelse = par.orelse if isinstance(par.orelse, list) \
                        else [par.orelse]
                    if t is True and any(cur is b for b in body):
                        return True
                    if t is False and any(cur is b for b in orelse):
                        return True
                cur = par
            return False
        allc = _convs(f.node)
        if not allc:
            raise AnalysisError(f"Point.{acc}: no chart conversion found")
        # conversions per path: what runs when the data argument is given
        # and when it is not (an early return may repeat the get conversion)
        from ..paths import enumerate_paths

        def executed(flag):
            stmts = [st for st in ast.walk(f.node) if isinstance(st, ast.stmt)
                     and not isinstance(st, (ast.If, ast.For, ast.While,
                                             ast.Try, ast.With,
                                             ast.FunctionDef))
                     and any(c[2] in set(ast.walk(st)) for c in allc)]
            seqs = set()
            for pth in enumerate_paths(f.node, markers=stmts,
                                       flags={dataparam: flag}):
                seq = []
                for ev in pth.events:
                    if not any(ev is st for st in stmts):
                        continue
                    inside = set(ast.walk(ev))
                    for c in allc:
                        if c[2] not in inside:
                            continue
                        # inside a conditional expression: only the arm
                        # selected under this flag runs
                        cur, live = c[2], True
                        while cur is not ev:
                            par = parents[cur]
                            if isinstance(par, ast.IfExp):
                                t = eval_test(par.test, {dataparam: flag})
                                if (t is True and cur is par.orelse) or \
                                        (t is False and cur is par.body):
                                    live = False
                            cur = par
                        if live:
                            seq.append(c)
                seqs.add(tuple((a, b, id(n)) for a, b, n in seq))
            return seqs
        by_id = {id(n): (a, b, n) for a, b, n in allc}
        get_paths = executed("none")
        set_paths = executed("notnone")
        setc, getc = [], []
        shape_ok = True
        for sq in get_paths:
            if len(sq) != 1:
                shape_ok = False
            getc += [by_id[i] for _, _, i in sq]
        for sq in set_paths:
            if len(sq) != 2:
                shape_ok = False
            else:
                setc.append(by_id[sq[0][2]])
                getc.append(by_id[sq[1][2]])
        # de-duplicate by (from, to): the same map at two places is one map
        def uniq(cs):
            seen, out = set(), []
            for a, b, n in cs:
                if (a, b) not in seen:
                    seen.add((a, b))
                    out.append((a, b, n))
            return out
        if shape_ok and get_paths and set_paths:
            setc, getc = uniq(setc), uniq(getc)
        else:
            setc = [c for c in allc if on_set_path(c[2])]
            getc = [c for c in allc if not on_set_path(c[2])]
        dels = {dotted(d.func) for d in _delegates(f.node)}
        inst = f"Point.{acc}"
        where = loc(f, f.node)
        problems = []
        if len(setc) != 1 or len(getc) != 1:
            problems.append(f"expected one conversion on each path, found "
                            f"set={[(a, b) for a, b, _ in setc]} "
                            f"get={[(a, b) for a, b, _ in getc]}")
        else:
            (sa, sb, sn), (ga, gb, gn) = setc[0], getc[0]
            if not (sa == gb and sb == ga):
                problems.append(
                    f"set converts {dotted(sn.func)} but get converts "
                    f"{dotted(gn.func)}: they are not mutually inverse maps")
            if sa != own:
                problems.append(
                    f"the set path applies {dotted(sn.func)} to {own} "
                    "coordinates (wrong direction)")
            if gb != own:
                problems.append(
                    f"the get path returns {dotted(gn.func)}(..) as {own} "
                    "coordinates (wrong direction)")
            where = loc(f, sn)
        if len(dels) != 1:
            # the two paths go through different accessors (a setter written
            # as a closed form through another model): the name-inverse
            # pairing this rule reads does not apply -- not judged
            r.note("I1", loc(f, f.node), inst,
                   f"set and get paths use different delegates "
                   f"{sorted(dels)}: the conversion pairing is not "
                   "comparable (not judged)")
            continue
        else:
            d = next(iter(dels))
            if setc and _tok(d[5:]) != setc[0][1]:
                problems.append(
                    f"delegate {d} does not take the {setc[0][1]} coordinates "
                    "the set conversion produces")
        if problems:
            r.violation("I1", f"{f.fq}|pairing", where, inst,
                        "; ".join(problems) + " -- building a point from "
                        "its own coordinates returns a different point",
                        instance=inst)
        else:
            r.ok("I1", inst, where, "",
                 f"set: {dotted(setc[0][2].func)} -> {next(iter(dels))} ; "
                 f"get: {dotted(getc[0][2].func)}")
    # kleinian_coords: fixed chart on both paths
    f = ctx.p.get_function(HYP, "HyperbolicObject.kleinian_coords")
    r.analysed(f)
    calls = [n for n in ast.walk(f.node) if isinstance(n, ast.Call)
             and dotted(n.func) == "self.affine_coords"]
    ok = len(calls) == 1 and any(
        k.arg == "chart_index" and const_value(k.value) == 0
        for k in calls[0].keywords) and any(k.arg is None
                                             for k in calls[0].keywords)
    if ok:
        r.ok("I1", "HyperbolicObject.kleinian_coords", loc(f, calls[0]),
             dotted(calls[0]), "one affine_coords call, chart 0, for set and get")
    else:
        st = calls[0] if calls else f.node
        r.violation("I1", f"{f.fq}|chart", loc(f, st), dotted(st)[:120],
                    "kleinian_coords does not use the single call "
                    "self.affine_coords(data, chart_index=0, **kwargs) for "
                    "both setting and getting: the Klein chart differs "
                    "between paths", instance="kleinian_coords")
    # hyperboloid_coords get path normalises
    f = ctx.p.get_function(HYP, "Point.hyperboloid_coords")
    r.analysed(f)
    rets = [n for n in ast.walk(f.node) if isinstance(n, ast.Return)]
    if len(rets) == 1 and isinstance(rets[0].value, ast.Call) \
            and dotted(rets[0].value.func) == "hyperboloid_coords" \
            and rets[0].value.args \
            and dotted(rets[0].value.args[0]) == "self.proj_data":
        r.ok("I1", "Point.hyperboloid_coords", loc(f, rets[0]),
             norm_stmt(rets[0]), "returns the normalised own data")
    else:
        r.note("I1", loc(f, f.node), "Point.hyperboloid_coords",
               "get path idiom not recognised; not judged")


# ---------------------------------------------------------------------------
# X1 / X2


CP_IMPLS = [("Geodesic", True), ("Segment", True), ("HorosphereArc", False),
            ("BoundaryArc", False)]


def _ordering_table(f, enum):
    """model value -> ordering helper applied to the angle pair (the result
    of utils.circle_angles, whatever it is called)."""
    angle_names = {"thetas"}
    for n in ast.walk(f.node):
        if isinstance(n, ast.Assign) and isinstance(n.value, ast.Call) \
                and dotted(n.value.func).endswith("circle_angles") \
                and isinstance(n.targets[0], ast.Name):
            angle_names.add(n.targets[0].id)
    table = {}
    for n in ast.walk(f.node):
        if isinstance(n, ast.If):
            v = _model_of_test(n.test, enum)
            if v is None:
                continue
            for s in n.body:
                for c in ast.walk(s):
                    if isinstance(c, ast.Call) and dotted(c.func).startswith(
                            "utils.") and c.args \
                            and dotted(c.args[0]) in angle_names:
                        table[v] = dotted(c.func)
    return table


def _resolve_helper(ctx, f, call):
    """module-level function or self-method of f's class called by `call`."""
    fn = call.func
    try:
        if isinstance(fn, ast.Name):
            return ctx.p.get_function(f.module.rel, fn.id)
        if isinstance(fn, ast.Attribute) and dotted(fn.value) == "self" \
                and f.cls is not None:
            return ctx.p.find_method(f.cls, fn.attr)
    except AnalysisError:
        return None
    return None


def _degree_sites(f, flag):
    """[(function, stmt, guarded, form ok)] radians->degrees conversions in
    f; guarded: True = runs only when `flag` is true, False = only when
    false, None = unconditional."""
    out = []
    parents = f.module.parents
    for n in ast.walk(f.node):
        if not isinstance(n, (ast.AugAssign, ast.Assign)):
            continue
        txt = dotted(n.value)
        npdeg = any(isinstance(c, ast.Call) and dotted(c.func) in (
            "np.degrees", "np.rad2deg") for c in ast.walk(n.value))
        if not (("180" in txt and "pi" in txt.lower()) or npdeg):
            continue
        cur = n
        guarded = None
        while cur is not f.node:
            par = parents[cur]
            if isinstance(par, ast.If):
                t = eval_test(par.test, {flag: True})
                t2 = eval_test(par.test, {flag: False})
                if t is not None and t2 is not None and t != t2:
                    guarded = (cur in par.body) == t
            cur = par
        t = txt.replace(" ", "")
        mult = isinstance(n, ast.AugAssign) and isinstance(n.op, ast.Mult) \
            and (t.startswith("180/") or t.startswith("(180/"))
        alt = isinstance(n, ast.Assign) and ("*180/" in t or "*(180/" in t
                                             or npdeg)
        out.append((f, n, guarded, mult or alt))
    # conditional-expression form: x * 180 / pi if degrees else x
    return out


def rule_x1x2(ctx):
    r = ctx.r
    r.rule("X1", "Geodesic.circle_parameters and Segment.circle_parameters "
                 "agree on the model -> arc-ordering helper table")
    r.rule("X2", "every circle_parameters implementation converts radians "
                 "to degrees with 180/pi, control-dependent on `degrees`")
    enum = model_enum(ctx)
    tables = {}
    for cname, has_table in CP_IMPLS:
        f = ctx.p.get_function(HYP, f"{cname}.circle_parameters")
        r.analysed(f)
        if has_table:
            tables[cname] = (f, _ordering_table(f, enum))
        # X2
        inst = f"{cname}.circle_parameters:degrees"
        if "degrees" not in f.params:
            r.violation("X2", f"{f.fq}|param", loc(f, f.node), cname,
                        "no `degrees` parameter", instance=inst)
            continue
        sites = _degree_sites(f, "degrees")
        if not sites:
            # the conversion may live in a helper that receives the flag
            for c in ast.walk(f.node):
                if not isinstance(c, ast.Call):
                    continue
                passed = [i for i, a in enumerate(c.args)
                          if dotted(a) == "degrees"]
                kws = [k.arg for k in c.keywords
                       if dotted(k.value) == "degrees" and k.arg]
                if not passed and not kws:
                    continue
                g = _resolve_helper(ctx, f, c)
                if g is None:
                    continue
                static = any(dotted(d) == "staticmethod"
                             for d in g.node.decorator_list)
                off = 1 if (g.cls is not None and not static and isinstance(
                    c.func, ast.Attribute) and dotted(c.func.value) == "self") \
                    else 0
                names = [g.params[i + off] for i in passed
                         if i + off < len(g.params)] + kws
                for nm in names:
                    sites += _degree_sites(g, nm)
                if sites:
                    r.analysed(g)
                    break
        if not sites:
            r.violation("X2", f"{f.fq}|missing", loc(f, f.node),
                        f"{cname}.circle_parameters",
                        "no radians->degrees scaling (180/pi) exists: "
                        "degrees=True returns radians", instance=inst)
            continue
        # unit typestate: once the angles may be in degrees, no radian
        # constant is added to them (outside a test of `degrees`)
        for g, n, guarded, formok in sites:
            if g is not f:
                continue
            tgt = n.target if isinstance(n, ast.AugAssign) else n.targets[0]
            while isinstance(tgt, ast.Subscript):
                tgt = tgt.value
            var = dotted(tgt)
            conv_pos = (n.lineno, n.col_offset)
            for st in ast.walk(f.node):
                if not isinstance(st, (ast.Assign, ast.AugAssign)):
                    continue
                if (st.lineno, st.col_offset) <= conv_pos:
                    continue
                t2 = st.target if isinstance(st, ast.AugAssign) \
                    else st.targets[0]
                while isinstance(t2, ast.Subscript):
                    t2 = t2.value
                if dotted(t2) != var:
                    continue
                pi_names = {"pi"} | {
                    dotted(a.targets[0]) for a in ast.walk(g.node)
                    if isinstance(a, ast.Assign)
                    and isinstance(a.targets[0], ast.Name) and (
                        (isinstance(a.value, ast.Call)
                         and dotted(a.value.func).split(".")[-1] == "pi")
                        or (isinstance(a.value, ast.Attribute)
                            and a.value.attr == "pi"))}
                uses_pi = any(
                    (isinstance(x, ast.Name) and x.id in pi_names)
                    or (isinstance(x, ast.Attribute) and x.attr == "pi")
                    for x in ast.walk(st.value))
                if not uses_pi:
                    continue
                # under a test of the flag?
                cur, under = st, False
                while cur is not f.node:
                    par = f.module.parents[cur]
                    if isinstance(par, ast.If) and "degrees" in dotted(
                            par.test):
                        under = True
                    cur = par
                if under:
                    continue
                r.violation(
                    "X2", f"{f.fq}|radians-after-conversion", loc(f, st),
                    norm_stmt(st)[:140],
                    f"`{var}` has (for degrees=True) already been converted "
                    "to degrees when this statement combines it with a "
                    "multiple of pi: the reported angle pair is off by "
                    "2*pi degrees instead of a full turn",
                    instance=inst + ":unit")
        for g, n, guarded, formok in sites:
            if guarded is True and formok:
                r.ok("X2", inst, loc(g, n), norm_stmt(n),
                     "scaled by 180/pi only when degrees is true")
            elif guarded is None:
                r.violation("X2", f"{f.fq}|unguarded", loc(g, n),
                            norm_stmt(n),
                            "the 180/pi scaling is not control-dependent on "
                            "`degrees`: degrees=False still returns degrees",
                            instance=inst)
            elif guarded is False:
                r.violation("X2", f"{f.fq}|inverted", loc(g, n), norm_stmt(n),
                            "the 180/pi scaling runs when `degrees` is false",
                            instance=inst)
            else:
                r.violation("X2", f"{f.fq}|factor", loc(g, n), norm_stmt(n),
                            "the degree conversion is not a multiplication "
                            "by 180/pi", instance=inst)
    (fg, tg), (fs, ts) = tables["Geodesic"], tables["Segment"]
    if not tg or not ts:
        raise AnalysisError("circle_parameters: model->ordering table not "
                            f"recognised (Geodesic={tg}, Segment={ts})")
    if tg == ts:
        r.ok("X1", "Geodesic~Segment", loc(fs, fs.node), "",
             f"both use {sorted(tg.items())}")
    else:
        diff = {k: (tg.get(k), ts.get(k)) for k in set(tg) | set(ts)
                if tg.get(k) != ts.get(k)}
        r.violation("X1", f"{fs.fq}|table", loc(fs, fs.node),
                    "circle_parameters",
                    f"Geodesic and Segment disagree on the arc ordering per "
                    f"model: {diff} (Geodesic, Segment): one of them selects "
                    "the wrong one of the two arcs between the endpoints",
                    instance="Geodesic~Segment")
    want = {"poincare": "utils.short_arc", "halfspace": "utils.right_to_left"}
    for cname, (f, t) in tables.items():
        if t == want:
            r.ok("X1", f"{cname}:documented", loc(f, f.node), "",
                 "poincare -> short arc, halfspace -> right to left")
        else:
            r.violation("X1", f"{f.fq}|documented", loc(f, f.node),
                        f"{cname}.circle_parameters",
                        f"ordering table {t} differs from the documented "
                        f"{want}", instance=f"{cname}:documented")


# ---------------------------------------------------------------------------
# R1


def _paths_to_return(body, conds=()):
    """Enumerate (list of (node, taken?) decisions, terminal stmt) for simple
    structured code: if/try/with/for (loops taken 0 or 1 times)."""
    if not body:
        yield list(conds), None
        return
    st, rest = body[0], body[1:]
    if isinstance(st, ast.Return):
        yield list(conds), st
        return
    if isinstance(st, ast.Raise):
        yield list(conds), st
        return
    if isinstance(st, ast.If):
        for c, t in _paths_to_return(st.body + rest, conds + ((st, True),)):
            yield c, t
        for c, t in _paths_to_return(st.orelse + rest, conds + ((st, False),)):
            yield c, t
        return
    if isinstance(st, ast.Try):
        for c, t in _paths_to_return(st.body + st.orelse + st.finalbody + rest,
                                     conds):
            yield c, t
        for h in st.handlers:
            for c, t in _paths_to_return(h.body + st.finalbody + rest,
                                         conds + ((h, True),)):
                yield c, t
        return
    if isinstance(st, (ast.With,)):
        for c, t in _paths_to_return(st.body + rest, conds):
            yield c, t
        return
    if isinstance(st, (ast.For, ast.While)):
        for c, t in _paths_to_return(st.body + rest, conds + ((st, True),)):
            yield c, t
        for c, t in _paths_to_return(st.orelse + rest, conds + ((st, False),)):
            yield c, t
        return
    for c, t in _paths_to_return(rest, conds):
        yield c, t


def _raising_ifs(fnode, exc="GeometryError"):
    out = []
    for n in ast.walk(fnode):
        if isinstance(n, ast.If):
            for s in n.body:
                if isinstance(s, ast.Raise) and s.exc is not None \
                        and exc in dotted(s.exc):
                    out.append(n)
    return out


def _depends_on(test, names, defs, depth=0):
    for n in ast.walk(test):
        if isinstance(n, ast.Name):
            if n.id in names:
                return True
            if n.id in defs and depth < 5 and _depends_on(
                    defs[n.id], names, defs, depth + 1):
                return True
        if isinstance(n, ast.Attribute) and dotted(n) in names:
            return True
    return False


def rule_r1(ctx):
    r = ctx.r
    r.rule("R1", "every path to the success return passes a conditional "
                 "raise of GeometryError whose test depends on the checked "
                 "quantity (eigenvalues / dimension)")
    specs = [
        ("Hyperplane.from_reflection", {"evals"}, "the eigenvalues",
         "a non-reflection is accepted and a hyperplane is returned for it"),
        ("Geodesic.from_reflection", {"reflection.dimension", "dimension"},
         "the dimension",
         "a reflection of the wrong dimension is not rejected"),
        ("Subspace.reflection_across", {"self.dimension", "dual_data"},
         "the codimension",
         "a reflection is computed across a subspace that is not a "
         "hyperplane"),
    ]
    for q, names, what, effect in specs:
        f = ctx.p.get_function(HYP, q)
        r.analysed(f)
        defs = single_defs(f.node)
        # the checked quantity is found by where it comes from, not by the
        # name it is bound to: eigenvalues = first target of a tuple
        # assignment from an eigensolver; adapted basis = result of
        # self._data_with_dual()
        names = set(names)
        for x in ast.walk(f.node):
            if isinstance(x, ast.Assign) and isinstance(x.value, ast.Call):
                fn_ = dotted(x.value.func)
                if "evals" in names and fn_.split(".")[-1] in (
                        "eig", "eigh", "eigvals") and isinstance(
                            x.targets[0], ast.Tuple) and x.targets[0].elts:
                    names.add(dotted(x.targets[0].elts[0]))
                if "evals" in names and fn_.split(".")[-1] == "eigvals" \
                        and isinstance(x.targets[0], ast.Name):
                    names.add(x.targets[0].id)
                if "dual_data" in names and fn_.endswith("_data_with_dual") \
                        and isinstance(x.targets[0], ast.Name):
                    names.add(x.targets[0].id)
        if "dimension" in names:
            # the dimension by provenance: any local bound (in any arm) from
            # `<parameter>.dimension` or from the last axis of a `.shape`
            for x in ast.walk(f.node):
                if isinstance(x, ast.Assign) and len(x.targets) == 1 \
                        and isinstance(x.targets[0], ast.Name):
                    v = x.value
                    if any(isinstance(y, ast.Attribute)
                           and y.attr in ("dimension", "shape")
                           for y in ast.walk(v)):
                        names.add(x.targets[0].id)
        allpaths = list(_paths_to_return(f.node.body))
        ifs = {id(c): c for conds, _ in allpaths for c, _t in conds
               if isinstance(c, ast.If)
               and _depends_on(c.test, names, defs)}

        def rejects(c, outcome):
            """every path that takes `outcome` at c ends in raise
            GeometryError (the test may be written either way round)"""
            ends = [t for conds, t in allpaths
                    if any(x is c and tk == outcome for x, tk in conds)]
            return bool(ends) and all(
                isinstance(t, ast.Raise) and t.exc is not None
                and "GeometryError" in dotted(t.exc) for t in ends)
        npaths = 0
        bad = 0
        for conds, term in allpaths:
            if not isinstance(term, ast.Return):
                continue
            npaths += 1
            passed = [c for c, taken in conds if id(c) in ifs
                      and rejects(c, not taken)]
            if not passed:
                bad += 1
                badterm = term
        inst = f"{q}:guard"
        if npaths == 0:
            raise AnalysisError(f"{q}: no return path found")
        if bad == 0:
            r.ok("R1", inst, loc(f, f.node), "",
                 f"all {npaths} return path(s) pass a GeometryError guard on "
                 f"{what}")
        else:
            r.violation(
                "R1", f"{f.fq}|guard", loc(f, badterm), norm_stmt(badterm)[:120],
                f"{bad} of {npaths} path(s) reach this return without passing "
                f"a conditional `raise GeometryError` that tests {what}: "
                f"{effect}", instance=inst)
    # Geodesic.from_reflection delegates to Hyperplane.from_reflection
    f = ctx.p.get_function(HYP, "Geodesic.from_reflection")
    dcalls = [n for n in ast.walk(f.node) if isinstance(n, ast.Call)
              and dotted(n.func) == "Hyperplane.from_reflection"]
    if dcalls:
        r.ok("R1", "Geodesic.from_reflection:delegates", loc(f, f.node), "",
             "delegates the reflection test to Hyperplane.from_reflection")
        # ... and hands over the isometry itself: Hyperplane.from_reflection
        # converts to the column convention only for objects with .matrix
        c = dcalls[0]
        defs_f = single_defs(f.node)
        a = c.args[0] if c.args else None
        chain = [a]
        seen = 0
        while isinstance(chain[-1], ast.Name) and chain[-1].id in defs_f \
                and seen < 4:
            chain.append(defs_f[chain[-1].id])
            seen += 1
        bare = any(
            (isinstance(x, ast.Attribute) and x.attr in ("matrix",
                                                         "proj_data"))
            or (isinstance(x, ast.Call) and dotted(x.func) == "getattr"
                and len(x.args) >= 2 and isinstance(x.args[1], ast.Constant)
                and x.args[1].value in ("matrix", "proj_data"))
            for e in chain if e is not None for x in ast.walk(e))
        if bare:
            r.violation(
                "R1", f"{f.fq}|delegate-arg", loc(f, c), dotted(c)[:120],
                "the bare row-vector matrix of the isometry is handed to "
                "Hyperplane.from_reflection, whose ndarray branch does not "
                "transpose: the (-1)-eigenvector of the transposed matrix "
                "is J.n, so the geodesic returned is the wall mirrored "
                "through the origin",
                instance="Geodesic.from_reflection:delegate-arg")
        else:
            r.ok("R1", "Geodesic.from_reflection:delegate-arg", loc(f, c),
                 dotted(c)[:100], "the isometry object itself is handed on")
    else:
        r.violation("R1", f"{f.fq}|delegate", loc(f, f.node),
                    "Geodesic.from_reflection",
                    "does not delegate to Hyperplane.from_reflection and so "
                    "does not inherit its eigenvalue test",
                    instance="Geodesic.from_reflection:delegates")


# ---------------------------------------------------------------------------
# H1


REP_METHODS = {"hyperboloid_coords", "projective_coords"}
REP_FUNCS = {"hyperboloid_coords", "utils.normalize", "normalize"}


def _raw_rep_owner(e):
    """If e is a homogeneous representative of an object -- x.proj_data, a
    slice of it, x.hyperboloid_coords() / x.projective_coords() (normalised,
    but still carrying the sign of the stored representative), or a
    normalisation of one of those -- return the owner's source text."""
    while isinstance(e, ast.Subscript):
        e = e.value
    if isinstance(e, ast.Attribute) and e.attr == "proj_data":
        return dotted(e.value)
    if isinstance(e, ast.Call):
        if isinstance(e.func, ast.Attribute) and e.func.attr in REP_METHODS \
                and not e.args and isinstance(e.func.value, ast.Name):
            return dotted(e.func.value)
        if dotted(e.func) in REP_FUNCS and e.args:
            return _raw_rep_owner(e.args[0])
    return None


def _rep_info(e, defs, depth=0):
    """-> (owner text, [scaling factor exprs]) if e is a (scaled) raw
    homogeneous representative of an object, else None."""
    o = _raw_rep_owner(e)
    if o is not None:
        return o, []
    if isinstance(e, ast.Name) and e.id in defs and depth < 4:
        return _rep_info(defs[e.id], defs, depth + 1)
    if isinstance(e, ast.UnaryOp) and isinstance(e.op, (ast.USub, ast.UAdd)):
        return _rep_info(e.operand, defs, depth)
    if isinstance(e, ast.BinOp) and isinstance(e.op, (ast.Mult, ast.Div)):
        l = _rep_info(e.left, defs, depth)
        if l is not None:
            return l[0], l[1] + [e.right]
        if isinstance(e.op, ast.Mult):
            rr = _rep_info(e.right, defs, depth)
            if rr is not None:
                return rr[0], rr[1] + [e.left]
    return None


def _mentions(e, owner, defs, depth=0):
    """Does expression e (with locals inlined) read from object `owner`?"""
    root = owner.split(".")[0].split("[")[0]
    for n in ast.walk(e):
        if isinstance(n, ast.Name):
            if n.id == root:
                return True
            if n.id in defs and depth < 4 and _mentions(defs[n.id], owner,
                                                        defs, depth + 1):
                return True
    return False


def rule_h1(ctx, scope=None):
    r = ctx.r
    r.rule("H1", "no sum/difference a +- b of raw homogeneous "
                 "representatives (.proj_data) of two distinct objects unless "
                 "an operand is scaled by a factor whose expression depends "
                 "on both objects (sign/scale alignment)")
    m = ctx.p.module_by_rel(HYP)
    n_bad = 0
    for f in ctx.p.all_functions:
        if f.module is not m or f.parent is not None:
            continue
        if scope is not None and f not in scope:
            continue
        defs = single_defs(f.node)
        for n in ast.walk(f.node):
            if not (isinstance(n, ast.BinOp)
                    and isinstance(n.op, (ast.Add, ast.Sub))):
                continue
            li = _rep_info(n.left, defs)
            ri = _rep_info(n.right, defs)
            if li is None or ri is None or li[0] == ri[0]:
                continue
            r.analysed(f)
            con = dotted(n)
            parents = f.module.parents
            st = n
            while not isinstance(st, ast.stmt):
                st = parents[st]
            aligned = any(_mentions(fac, li[0], defs) and
                          _mentions(fac, ri[0], defs)
                          for fac in li[1] + ri[1])
            inst = f"{f.qualname}:{con[:70]}"
            if aligned:
                r.ok("H1", inst, loc(f, n), norm_stmt(st)[:140],
                     "one representative is rescaled by a factor computed "
                     "from both objects before the combination")
                continue
            n_bad += 1
            r.violation(
                "H1", f"{f.fq}|{norm_stmt(st)}", loc(f, n),
                norm_stmt(st)[:160],
                f"`{con}` combines the homogeneous representatives of two "
                f"different objects ({li[0]}, {ri[0]}) without aligning "
                "them; each has an independent non-zero scale, so the result "
                "depends on the sign/scale of the inputs (with q given as "
                "-3*q the unit tangent from p points away from q)",
                instance=inst)
    if n_bad == 0:
        r.ok("H1", "hyperbolic.py", HYP, "",
             "no unaligned sum/difference of raw representatives of "
             "distinct objects")
    return n_bad


# ---------------------------------------------------------------------------
# row convention of find_isometry results


def rule_row_convention(ctx, min_sites=3):
    r = ctx.r
    r.rule("RC", "every matrix completed by utils.find_isometry in "
                 "hyperbolic.py (its rows are the images of the standard "
                 "basis) is wrapped by Isometry(..., column_vectors=False)")
    m = ctx.p.module_by_rel(HYP)
    n_sites = 0
    for f in ctx.p.all_functions:
        if f.module is not m or f.parent is not None:
            continue
        fi_locals = set()
        for n in ast.walk(f.node):
            if isinstance(n, ast.Assign) and isinstance(n.value, ast.Call) \
                    and dotted(n.value.func) == "utils.find_isometry":
                for t in n.targets:
                    if isinstance(t, ast.Name):
                        fi_locals.add(t.id)
        # derived locals: p_iso = iso.copy(), make_orientation_preserving(x)
        changed = True
        while changed:
            changed = False
            for n in ast.walk(f.node):
                if isinstance(n, ast.Assign) and len(n.targets) == 1 \
                        and isinstance(n.targets[0], ast.Name) \
                        and n.targets[0].id not in fi_locals:
                    v = n.value
                    src = None
                    if isinstance(v, ast.Call):
                        if isinstance(v.func, ast.Attribute) \
                                and v.func.attr == "copy" \
                                and isinstance(v.func.value, ast.Name):
                            src = v.func.value.id
                        elif dotted(v.func) == \
                                "utils.make_orientation_preserving" and v.args \
                                and isinstance(v.args[0], ast.Name):
                            src = v.args[0].id
                    if src in fi_locals:
                        fi_locals.add(n.targets[0].id)
                        changed = True
        for n in ast.walk(f.node):
            if isinstance(n, ast.Call) and dotted(n.func) == "Isometry" \
                    and n.args:
                a = n.args[0]
                is_fi = (isinstance(a, ast.Name) and a.id in fi_locals) or (
                    isinstance(a, ast.Call)
                    and dotted(a.func) == "utils.find_isometry")
                if not is_fi:
                    continue
                n_sites += 1
                r.analysed(f)
                cv = None
                if len(n.args) > 1:
                    cv = const_value(n.args[1], "?")
                for k in n.keywords:
                    if k.arg == "column_vectors":
                        cv = const_value(k.value, "?")
                inst = f"{f.qualname}:Isometry(find_isometry)"
                if cv is None or cv is False:
                    r.ok("RC", inst, loc(f, n), dotted(n)[:100],
                         "row convention (column_vectors False)")
                else:
                    r.violation(
                        "RC", f"{f.fq}|{dotted(n)[:80]}", loc(f, n),
                        dotted(n)[:160],
                        "find_isometry returns the images of the standard "
                        "basis as ROWS, but the result is wrapped with "
                        f"column_vectors={cv}: the isometry sends the origin "
                        "to the first column instead of the target point",
                        instance=inst)
    r.require_count("RC", "Isometry(find_isometry(..)) sites", n_sites,
                    min_sites)


# ---------------------------------------------------------------------------
# H2 / G2 / ODD1: parity of the functions a sign-carrying quantity passes


EVEN_FUNCS = {"np.abs", "abs", "np.absolute", "np.fabs", "np.square",
              "np.cosh"}


def _is_even_wrap(parent, child):
    if isinstance(parent, ast.Call) and dotted(parent.func) in EVEN_FUNCS \
            and parent.args and parent.args[0] is child:
        return True
    if isinstance(parent, ast.BinOp) and isinstance(parent.op, ast.Pow) \
            and parent.left is child and const_value(parent.right) in (2, 4):
        return True
    return False


def rule_h2(ctx):
    """Point.distance: the cross-object Minkowski product enters through an
    even function."""
    r = ctx.r
    r.rule("H2", "in Point.distance the Minkowski product of the two "
                 "objects' representatives (sign = product of the two "
                 "arbitrary signs) is only used through an even function "
                 "(np.abs, **2): the distance must not depend on the sheet "
                 "of the hyperboloid a representative lies on")
    f = ctx.p.get_function(HYP, "Point.distance")
    r.analysed(f)
    defs = single_defs(f.node)
    parents = f.module.parents
    cross = []
    for n in ast.walk(f.node):
        if isinstance(n, ast.Call) and dotted(n.func).endswith(
                "apply_bilinear") and len(n.args) >= 2:
            a = _rep_info(n.args[0], defs)
            b = _rep_info(n.args[1], defs)
            if a and b and a[0] != b[0]:
                cross.append(n)
    if not cross:
        r.ok("H2", "Point.distance", loc(f, f.node), "",
             "no cross-object bilinear product (H1 covers differences)")
        return
    for c in cross:
        par = parents[c]
        uses = []
        if isinstance(par, ast.Assign) and len(par.targets) == 1 \
                and isinstance(par.targets[0], ast.Name):
            nm = par.targets[0].id
            for n in ast.walk(f.node):
                if isinstance(n, ast.Name) and n.id == nm \
                        and isinstance(n.ctx, ast.Load):
                    uses.append(n)
        else:
            uses = [c]
        bad = [u for u in uses if not _is_even_wrap(parents[u], u)]
        inst = "Point.distance:cross-product"
        if uses and not bad:
            r.ok("H2", inst, loc(f, c), dotted(c)[:100],
                 f"{len(uses)} use(s), all through an even function")
        else:
            u = bad[0] if bad else c
            st = u
            while not isinstance(st, ast.stmt):
                st = parents[st]
            r.violation(
                "H2", f"{f.fq}|{norm_stmt(st)}", loc(f, u),
                norm_stmt(st)[:160],
                "the product <x, y> of the two points' representatives is "
                "used with its sign here; representatives are only defined "
                "up to a non-zero scalar, so for two points stored on "
                "opposite sheets (a negative rescaling, an eigenvector "
                "routine's output) the reported distance is wrong (0 for "
                "distinct points)", instance=inst)


def rule_g2(ctx):
    r = ctx.r
    r.rule("G2", "the argument of np.arccos in TangentVector.angle does not "
                 "pass through an even function (np.abs, **2): the sign of "
                 "the product distinguishes acute from obtuse angles; "
                 "clamping must be two-sided (np.clip(x, -1, 1))")
    f = ctx.p.get_function(HYP, "TangentVector.angle")
    r.analysed(f)
    defs = single_defs(f.node)
    sites = [n for n in ast.walk(f.node) if isinstance(n, ast.Call)
             and dotted(n.func) == "np.arccos"]
    if not sites:
        r.ok("G2", "TangentVector.angle", loc(f, f.node), "",
             "no np.arccos call (nothing to check)")
        return
    for c in sites:
        bad = None

        def scan(e, depth=0):
            nonlocal bad
            for n in ast.walk(e):
                if isinstance(n, ast.Call) and dotted(n.func) in EVEN_FUNCS:
                    bad = bad or n
                if isinstance(n, ast.BinOp) and isinstance(n.op, ast.Pow) \
                        and const_value(n.right) in (2, 4):
                    bad = bad or n
                if isinstance(n, ast.Name) and n.id in defs and depth < 4:
                    d = defs[n.id]
                    # stop at the bilinear product itself
                    if isinstance(d, ast.Call) and dotted(d.func).endswith(
                            "apply_bilinear"):
                        continue
                    scan(d, depth + 1)
        scan(c.args[0])
        inst = "TangentVector.angle:arccos"
        if bad is None:
            r.ok("G2", inst, loc(f, c), dotted(c)[:100],
                 "argument keeps the sign of the product")
        else:
            r.violation(
                "G2", f"{f.fq}|arccos", loc(f, c), dotted(c)[:160],
                f"`{dotted(bad)[:60]}` discards the sign of the product "
                "before np.arccos: every obtuse angle theta is reported as "
                "pi - theta (the hyperbolic law of cosines fails at obtuse "
                "vertices)", instance=inst)


def rule_odd1(ctx):
    r = ctx.r
    r.rule("ODD1", "hyp_to_affine_dist (signed distance -> Klein radius, "
                   "tanh) stays an odd function of its argument: an even "
                   "function applied to the parameter must be compensated "
                   "by np.sign / np.copysign of the parameter")
    f = ctx.p.get_function(HYP, "hyp_to_affine_dist")
    r.analysed(f)
    p = f.params[0]
    even = [n for n in ast.walk(f.node) if isinstance(n, ast.Call)
            and dotted(n.func) in EVEN_FUNCS and n.args
            and any(isinstance(x, ast.Name) and x.id == p
                    for x in ast.walk(n.args[0]))]
    sign = [n for n in ast.walk(f.node) if isinstance(n, ast.Call)
            and dotted(n.func) in ("np.sign", "np.copysign", "np.tanh",
                                   "np.sinh", "np.expm1")]
    if not even:
        r.ok("ODD1", "hyp_to_affine_dist", loc(f, f.node), "",
             "no even function of the parameter")
    elif sign:
        r.ok("ODD1", "hyp_to_affine_dist", loc(f, even[0]),
             dotted(even[0]), "even part compensated by a sign factor")
    else:
        r.violation(
            "ODD1", f"{f.fq}|even", loc(f, even[0]), dotted(even[0])[:120],
            f"`{dotted(even[0])}` makes the Klein radius an even function "
            "of the signed distance and nothing restores the sign: "
            "point_along(-t) lands on the same side as point_along(t)",
            instance="hyp_to_affine_dist")
    # point_along passes the signed distance on unchanged
    g = ctx.p.get_function(HYP, "TangentVector.point_along")
    r.analysed(g)
    calls = [n for n in ast.walk(g.node) if isinstance(n, ast.Call)
             and dotted(n.func) == "hyp_to_affine_dist"]
    if calls and calls[0].args and dotted(calls[0].args[0]) == g.params[1]:
        r.ok("ODD1", "point_along:signed", loc(g, calls[0]),
             dotted(calls[0]), "the signed distance is passed unchanged")
    elif calls:
        r.violation("ODD1", f"{g.fq}|arg", loc(g, calls[0]),
                    dotted(calls[0])[:120],
                    "point_along does not pass its signed distance "
                    "parameter unchanged to hyp_to_affine_dist",
                    instance="point_along:signed")
