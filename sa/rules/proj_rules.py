"""Rules over projective.py: S1 (slot consistency), S2 (dirty => refresh),
S3 (aux provider), P1 (purity of copying operations), argument roles."""
import ast

from ..project import AnalysisError, ClassInfo, loc, norm_stmt
from ..flow import Interp, dotted, eval_test
from ..paths import enumerate_paths
from ..rules.common import const_value
from ..rules.rep_rules import ops_chain

PROJ = "geometry_tools/projective.py"
HYP = "geometry_tools/hyperbolic.py"

SLOT_OF_ATTR = {"proj_data": "proj", "unit_ndims": "proj",
                "aux_data": "aux", "aux_ndims": "aux",
                "dual_data": "dual", "dual_ndims": "dual"}
SINK_KW = {"proj_data": "proj", "unit_ndims": "proj", "aux_data": "aux",
           "aux_ndims": "aux", "dual_data": "dual", "dual_ndims": "dual"}
SINK_POS = ["proj", "aux", "dual"]


# ---------------------------------------------------------------------------
# S1


class _Slots:
    """Flow-sensitive slot typing of locals."""

    def __init__(self, f, r, opname):
        self.f = f
        self.r = r
        self.op = opname
        self.env = {}
        self.sinks = []          # (call/assign node, {slot: expr})
        self.problems = []       # (node, text)

    def slots(self, e):
        out = set()
        for n in ast.walk(e):
            if isinstance(n, ast.Attribute) and n.attr in SLOT_OF_ATTR:
                out.add(SLOT_OF_ATTR[n.attr])
            elif isinstance(n, ast.Name) and n.id in self.env:
                out |= self.env[n.id]
        return out

    def is_sink_call(self, c):
        if not isinstance(c, ast.Call):
            return False
        n = dotted(c.func)
        if n.endswith(".set") or n in ("ProjectiveObject", "cls",
                                       "HyperbolicObject",
                                       "projective.ProjectiveObject"):
            kws = {k.arg for k in c.keywords}
            return len(c.args) >= 2 or bool(kws & set(SINK_KW))
        return False

    def check_sink(self, c):
        got = {}
        off = 0
        n = dotted(c.func)
        if n.endswith(".set") and isinstance(c.func.value, ast.Name) and \
                c.func.value.id in ("ProjectiveObject", "HyperbolicObject"):
            off = 1          # Base.set(self, proj, aux, dual)
        for i, a in enumerate(c.args[off:off + 3]):
            got[SINK_POS[i]] = a
        for k in c.keywords:
            if k.arg in ("proj_data", "aux_data", "dual_data"):
                got[SINK_KW[k.arg]] = k.value
        for k in c.keywords:
            if k.arg in ("unit_ndims", "aux_ndims", "dual_ndims"):
                s = self.slots(k.value)
                if s and s != {SINK_KW[k.arg]}:
                    self.problems.append(
                        (c, f"keyword {k.arg}= receives a value of slot "
                            f"{sorted(s)} (`{dotted(k.value)}`)"))
        for slot, a in got.items():
            s = self.slots(a)
            if s and s != {slot}:
                self.problems.append(
                    (c, f"the {slot} position of `{dotted(c.func)}(..)` "
                        f"receives `{dotted(a)}`, which carries the "
                        f"{sorted(s)} slot"))
        self.sinks.append((c, {k: self.slots(v) for k, v in got.items()}))

    def block(self, body):
        for st in body:
            self.stmt(st)

    def stmt(self, st):
        if isinstance(st, ast.Assign):
            for c in ast.walk(st.value):
                if self.is_sink_call(c):
                    self.check_sink(c)
            if self.is_sink_call(st.value):
                s = set()
            else:
                s = self.slots(st.value)
                if len(s) > 1:
                    self.problems.append(
                        (st, f"`{norm_stmt(st)[:120]}` mixes the slots "
                             f"{sorted(s)} in one value"))
            for t in st.targets:
                if isinstance(t, ast.Name):
                    self.env[t.id] = set(s)
                elif isinstance(t, ast.Tuple):
                    for el in t.elts:
                        if isinstance(el, ast.Name):
                            self.env[el.id] = set(s)
                elif isinstance(t, ast.Attribute) and t.attr in (
                        "proj_data", "aux_data", "dual_data"):
                    want = SLOT_OF_ATTR[t.attr]
                    if s and s != {want}:
                        self.problems.append(
                            (st, f"`{dotted(t)}` is assigned a value of slot "
                                 f"{sorted(s)}"))
                    self.sinks.append((st, {want: s}))
            return
        if isinstance(st, ast.Expr):
            for c in ast.walk(st.value):
                if self.is_sink_call(c):
                    self.check_sink(c)
            return
        if isinstance(st, ast.Return):
            if st.value is not None:
                for c in ast.walk(st.value):
                    if self.is_sink_call(c):
                        self.check_sink(c)
            return
        if isinstance(st, ast.If):
            env0 = {k: set(v) for k, v in self.env.items()}
            self.block(st.body)
            env1 = self.env
            self.env = env0
            self.block(st.orelse)
            for k, v in env1.items():
                self.env[k] = self.env.get(k, set()) | v
            return
        if isinstance(st, (ast.For, ast.While)):
            self.block(st.body)
            self.block(st.body)
            return
        if isinstance(st, ast.Try):
            self.block(st.body)
            for h in st.handlers:
                self.block(h.body)
            self.block(st.orelse)
            self.block(st.finalbody)
            return
        if isinstance(st, ast.With):
            self.block(st.body)


S1_OPS = [
    (PROJ, "ProjectiveObject.reshape"),
    (PROJ, "ProjectiveObject.flatten_to_unit"),
    (PROJ, "ProjectiveObject.astype"),
    (PROJ, "ProjectiveObject.change_base_ring"),
    (PROJ, "ProjectiveObject.combine"),
    (PROJ, "ProjectiveObject._construct_from_object"),
    (PROJ, "Transformation.apply"),
]


def rule_s1(ctx, ops=None):
    r = ctx.r
    r.rule("S1", "in every shape/dtype/combine/apply operation each of the "
                 "three data slots (proj, aux, dual) is read from its own "
                 "*_data, sized with its own *_ndims and delivered to its "
                 "own position/keyword of the sink (ProjectiveObject(..), "
                 "cls(..), .set(..)); no value mixes slots; all three slots "
                 "reach a sink")
    for rel, q in (ops or S1_OPS):
        f = ctx.p.get_function(rel, q)
        r.analysed(f)
        s = _Slots(f, r, q)
        s.block(f.node.body)
        where = loc(f, f.node)
        delivered = {}
        for node, got in s.sinks:
            for slot, sl in got.items():
                if sl == {slot}:
                    delivered[slot] = True
        if not s.sinks:
            raise AnalysisError(f"{q}: no sink (constructor / set call) found")
        for node, text in s.problems:
            con = norm_stmt(node) if isinstance(node, ast.stmt) else dotted(node)
            r.violation(
                "S1", f"{f.fq}|{con[:100]}|{text[:60]}", loc(f, node),
                con[:160],
                text + f" in {q}: the {q.split('.')[-1]} result carries data "
                "of one slot in another (derived data no longer corresponds "
                "to the primary data)", instance=f"{q}:mix")
        missing = [sl for sl in SINK_POS if not delivered.get(sl)]
        if missing:
            node = s.sinks[-1][0]
            con = norm_stmt(node) if isinstance(node, ast.stmt) else dotted(node)
            r.violation(
                "S1", f"{f.fq}|missing:{','.join(missing)}", loc(f, node),
                con[:160],
                f"no value of the {missing} slot(s) reaches the sink of {q}: "
                "that part of the object's data is dropped or replaced by "
                "another slot's data", instance=f"{q}:complete")
        if not s.problems and not missing:
            r.ok("S1", q, where, "",
                 f"{len(s.sinks)} sink(s); proj, aux and dual each delivered "
                 "to their own slot")


# ---------------------------------------------------------------------------
# S2


def _is_proj_write(n):
    """Assign/AugAssign node writing self.proj_data (whole or element)."""
    tgts = []
    if isinstance(n, ast.Assign):
        tgts = n.targets
    elif isinstance(n, ast.AugAssign):
        tgts = [n.target]
    for t in tgts:
        base = t
        while isinstance(base, ast.Subscript):
            base = base.value
        if isinstance(base, ast.Attribute) and base.attr == "proj_data" \
                and isinstance(base.value, ast.Name) and base.value.id == "self":
            return True
    return False


def _is_refresh(n):
    """Statement that (re)establishes aux from proj."""
    for c in ast.walk(n):
        if isinstance(c, ast.Call):
            nm = dotted(c.func)
            if nm == "self.set" or (nm.endswith(".set") and c.args
                                    and dotted(c.args[0]) == "self"):
                return True
    if isinstance(n, ast.Assign):
        for t in n.targets:
            if isinstance(t, ast.Attribute) and t.attr == "aux_data" \
                    and isinstance(t.value, ast.Name) and t.value.id == "self":
                return True
    return False


def _aux_guard(test):
    t = dotted(test)
    return "aux_ndims" in t or "aux_data" in t


def _says_no_aux(test, outcome):
    """Does `test` evaluating to `outcome` establish that the object has no
    auxiliary data (aux_ndims <= 0 / aux_data is None)?"""
    while isinstance(test, ast.UnaryOp) and isinstance(test.op, ast.Not):
        test, outcome = test.operand, not outcome
    if isinstance(test, ast.Compare) and len(test.ops) == 1:
        left, op, right = test.left, test.ops[0], test.comparators[0]
        ls, rs = dotted(left), dotted(right)
        if ls.endswith("aux_ndims") and isinstance(right, ast.Constant):
            k = right.value
            if isinstance(op, ast.Gt) and k == 0 or \
                    isinstance(op, ast.GtE) and k == 1 or \
                    isinstance(op, ast.NotEq) and k == 0:
                return not outcome
            if isinstance(op, ast.LtE) and k == 0 or \
                    isinstance(op, ast.Lt) and k == 1 or \
                    isinstance(op, ast.Eq) and k == 0:
                return outcome
        if rs.endswith("aux_ndims") and isinstance(left, ast.Constant):
            k = left.value
            if isinstance(op, ast.Lt) and k == 0 or \
                    isinstance(op, ast.LtE) and k == 1:
                return not outcome
            if isinstance(op, ast.GtE) and k == 0 or \
                    isinstance(op, ast.Eq) and k == 0:
                return outcome
        if ls.endswith("aux_data") and isinstance(right, ast.Constant) \
                and right.value is None:
            if isinstance(op, ast.Is):
                return outcome
            if isinstance(op, ast.IsNot):
                return not outcome
    if isinstance(test, ast.Attribute) and test.attr in ("aux_ndims",):
        return not outcome
    return False


def rule_s2(ctx, min_writers=4):
    r = ctx.r
    r.rule("S2", "after a write to self.proj_data (assignment, element "
                 "store, augmented store) every path to the function exit "
                 "passes an aux refresh (self.set(..), Base.set(self, ..) or "
                 "self.aux_data = ..); an `if self.aux_ndims > 0` guard "
                 "around the refresh is accepted")
    base = ctx.p.get_class(PROJ, "ProjectiveObject")
    classes = [base] + ctx.p.subclasses(base)
    n_writers = 0
    for c in classes:
        for f in c.methods.values():
            writes = [n for n in ast.walk(f.node) if _is_proj_write(n)]
            if not writes:
                continue
            n_writers += 1
            r.analysed(f)
            refreshes = [n for n in ast.walk(f.node)
                         if isinstance(n, ast.stmt) and _is_refresh(n)
                         and not isinstance(n, (ast.If, ast.For, ast.While,
                                                ast.Try, ast.With,
                                                ast.FunctionDef))]
            markers = writes + refreshes
            paths = enumerate_paths(f.node, markers=markers)
            bad = None
            npaths = 0
            for p in paths:
                if isinstance(p.terminal, ast.Raise):
                    continue
                ev = p.events
                idx = [i for i, e in enumerate(ev)
                       if any(e is w for w in writes)]
                if not idx:
                    continue
                npaths += 1
                last = idx[-1]
                ok = any(any(e is rf for rf in refreshes)
                         for e in ev[last:])
                # the write statement may itself be a refresh (co-assign)
                if not ok:
                    # skipped only because an aux guard was false?
                    guards = [t for t, o, s in p.conds
                              if isinstance(t, ast.expr) and not o
                              and _aux_guard(t)
                              and any(_is_refresh(x) for b in s.body
                                      for x in ast.walk(b)
                                      if isinstance(x, ast.stmt))]
                    if guards:
                        ok = True
                    elif any(isinstance(t, ast.expr) and _says_no_aux(t, o)
                             for t, o, s in p.conds):
                        ok = True
                if not ok:
                    bad = (ev[last], p)
            inst = f"{c.name}.{f.name}"
            if bad is None:
                r.ok("S2", inst, loc(f, writes[0]), norm_stmt(writes[0])[:100],
                     f"{npaths} path(s) from the write to exit all refresh "
                     "the derived data")
            else:
                w, p = bad
                r.violation(
                    "S2", f"{f.fq}|{norm_stmt(w)}", loc(f, w),
                    norm_stmt(w)[:160],
                    f"{inst} writes the primary data and can return without "
                    "recomputing the derived data: a polygon's stored edges "
                    "(a segment's ideal endpoints, a tangent vector's "
                    "projected vector) are then stale", instance=inst)
    r.require_count("S2", "writers of self.proj_data", n_writers, min_writers)


# ---------------------------------------------------------------------------
# S3


def _fixed_aux_ndims(ctx, c):
    """aux_ndims a class's constructor fixes (>0), or 0/None."""
    init = c.methods.get("__init__")
    if init is None:
        return None
    best = None
    d = init.defaults().get("aux_ndims")
    if d is not None and isinstance(const_value(d), int):
        best = const_value(d)
    for n in ast.walk(init.node):
        if isinstance(n, ast.Call):
            for k in n.keywords:
                if k.arg == "aux_ndims" and isinstance(const_value(k.value), int):
                    best = const_value(k.value)
        if isinstance(n, ast.Assign):
            for t in n.targets:
                if dotted(t) == "self.aux_ndims" \
                        and isinstance(const_value(n.value), int):
                    best = const_value(n.value)
    return best


def rule_s3(ctx, min_classes=4):
    r = ctx.r
    r.rule("S3", "a class whose constructor fixes aux_ndims > 0 resolves "
                 "_compute_aux_data (MRO) to a non-base implementation")
    base = ctx.p.get_class(PROJ, "ProjectiveObject")
    n = 0
    for c in ctx.p.subclasses(base):
        k = _fixed_aux_ndims(ctx, c)
        if not k or k <= 0:
            continue
        n += 1
        m = ctx.p.find_method(c, "_compute_aux_data")
        inst = f"{c.module.rel.split('/')[-1]}:{c.name}"
        if m is not None and m.cls is not base:
            r.ok("S3", inst, loc(c, c.node), "",
                 f"aux_ndims={k}; _compute_aux_data from {m.cls.name}")
            r.analysed(m)
        else:
            r.violation(
                "S3", f"{c.fq}|provider", loc(c, c.node), c.name,
                f"{c.name} fixes aux_ndims={k} but _compute_aux_data "
                "resolves to the base implementation (returns None): "
                "constructing or setting the object leaves no derived data "
                "(or fails in _assert_aux_valid)", instance=inst)
    r.require_count("S3", "classes with derived data", n, min_classes)


# ---------------------------------------------------------------------------
# P1


SETTERS = {"set", "set_endpoints", "set_center_ref", "set_center_endpoints",
           "set_ndims", "_set_optional", "_convexify", "flip_orientation",
           "_compute_ideal_basis", "_build_orientation_point"}

P1_OPS = [
    (PROJ, "Transformation.apply", {}),
    (PROJ, "Transformation.inv", {}),
    (PROJ, "Transformation.__matmul__", {}),
    (PROJ, "Transformation._apply_to_data", {}),
    (PROJ, "ProjectiveObject.flatten_to_unit", {}),
    (PROJ, "ProjectiveObject.reshape", {}),
    (PROJ, "ProjectiveObject.astype", {}),
    (PROJ, "ProjectiveObject.__getitem__", {}),
    (PROJ, "ProjectiveObject.change_base_ring", {"inplace": False}),
]


def _summ(call, name):
    if isinstance(call.func, ast.Attribute):
        if call.func.attr in SETTERS:
            return {"mutates_receiver": True}
    if name in ("utils.normalize", "normalize"):
        return {"mutates_args": [0], "returns": "arg0"}
    if name in ("utils.indefinite_orthogonalize", "utils.find_isometry"):
        return {"mutates_args": [1], "returns": "fresh"}
    if name in ("utils.matrix_product", "utils.invert", "np.reshape",
                "utils.apply_bilinear"):
        if name == "np.reshape":
            return {"returns": "arg0"}
        return {"returns": "fresh"}
    if name.startswith("sagewrap."):
        return {"returns": "fresh"}
    return None


def rule_p1(ctx, ops=None):
    r = ctx.r
    r.rule("P1", "designated non-mutating operations never store into the "
                 "data of self or of an argument and never call a setter on "
                 "them; setters and stores may only target a fresh object "
                 "(constructor result) or rebind attributes of a shallow "
                 "copy")
    ctor = {c.name for c in ctx.p.all_classes}
    for rel, q, flags in (ops or P1_OPS):
        f = ctx.p.get_function(rel, q)
        r.analysed(f)
        it = Interp(f.node, flags=flags, summaries=_summ,
                    ctor_names=ctor).run()
        bad = []
        for m in it.mutations:
            roots = m.roots
            direct = [x for x in roots
                      if x == "self" or x.startswith("param:")]
            if not direct:
                continue
            if m.kind == "augstore" and isinstance(m.node, ast.Name):
                continue
            bad.append((m, direct))
        inst = q + ("" if not flags else
                    "(" + ",".join(f"{k}={v}" for k, v in flags.items()) + ")")
        if not bad:
            r.ok("P1", inst, loc(f, f.node), "",
                 f"{len(it.mutations)} mutation site(s); receivers are "
                 "fresh objects or shallow copies")
        for m, direct in bad:
            con = norm_stmt(m.stmt)
            r.violation(
                "P1", f"{f.fq}|{con}", loc(f, m.stmt), con[:160],
                f"{inst} must leave its operands unchanged, but `{m.target}` "
                f"({m.kind}) is rooted at {direct}: the caller's object is "
                "modified by what is documented as a query / pure "
                "operation", instance=inst)


# ---------------------------------------------------------------------------
# argument roles at the kernel boundary


def rule_roles(ctx, with_inverse=True):
    from ..norm import forward_subst
    r = ctx.r
    r.rule("RO", "_apply_to_data passes the object's data as the left "
                 "factor and the matrix as the right factor to "
                 "utils.matrix_product with (object unit ndims, "
                 "self.unit_ndims) in that order and forwards `broadcast`; "
                 "the dual action uses inverse-transpose; inv() returns "
                 "the class of self built from utils.invert(self.matrix); "
                 "__matmul__ is apply (locals are substituted forward and "
                 "the `dual` flag specialised, so the statement form does "
                 "not matter)")
    f = ctx.p.get_function(PROJ, "Transformation._apply_to_data")
    r.analysed(f)
    data_p, bc_p, und_p = f.params[1], f.params[2], f.params[3]
    dual_p = f.params[4] if len(f.params) > 4 else "dual"
    order = ["array1", "array2", "unit_axis_1", "unit_axis_2", "broadcast"]
    for dual in (False, True):
        rets, _ = forward_subst(f.node, {dual_p: dual})
        calls = [n for e in rets if e is not None for n in ast.walk(e)
                 if isinstance(n, ast.Call)
                 and dotted(n.func).endswith("matrix_product")]
        if len(calls) != 1:
            raise AnalysisError("_apply_to_data: matrix_product call not "
                                f"found on the return path (dual={dual})")
        c = calls[0]
        args = list(c.args)
        kw = {k.arg: k.value for k in c.keywords}
        for i, nm in enumerate(order):
            if len(args) == i and nm in kw:
                args.append(kw[nm])
        problems = []
        inst = "_apply_to_data:dual" if dual else "_apply_to_data:roles"
        if len(args) < 4:
            problems.append("matrix_product is not given both factors and "
                            "both unit ranks")
        else:
            if dotted(args[0]) != data_p:
                problems.append(f"left factor is `{dotted(args[0])}`, not "
                                f"the object's data `{data_p}`")
            ops = ops_chain(args[1], "self.matrix")
            if ops is None:
                problems.append("right factor is not derived from "
                                "self.matrix by inverse / transpose")
            elif not dual and sorted(ops) != []:
                problems.append("right factor is not self.matrix itself "
                                f"(operations {ops})")
            elif dual and sorted(ops) != ["T", "inv"]:
                problems.append("dual (covariant) data must transform by "
                                "the inverse transpose of the matrix "
                                f"(operations applied: {ops})")
            if not (dotted(args[2]) == und_p
                    and dotted(args[3]) == "self.unit_ndims"):
                problems.append(
                    f"unit ndims are passed as ({dotted(args[2])}, "
                    f"{dotted(args[3])}) instead of ({und_p}, "
                    "self.unit_ndims)")
            mk = dotted(args[4]) if len(args) > 4 else None
            if mk != bc_p:
                problems.append(f"broadcast mode is not forwarded (got {mk})")
        if problems:
            r.violation("RO", f"{f.fq}|{'dual' if dual else 'roles'}",
                        loc(f, f.node), dotted(c)[:160],
                        "; ".join(problems) + ": rows of the object are no "
                        "longer multiplied by the row matrix of the "
                        "transformation with the documented axis order",
                        instance=inst)
        else:
            r.ok("RO", inst, loc(f, f.node), dotted(c)[:120],
                 "data @ matrix with (unit_ndims, self.unit_ndims), "
                 "broadcast forwarded" if not dual else
                 "dual data acts by the inverse transpose")
    if not with_inverse:
        return
    # inv
    g = ctx.p.get_function(PROJ, "Transformation.inv")
    r.analysed(g)
    rets, _ = forward_subst(g.node)
    ok = False
    if len(rets) == 1 and isinstance(rets[0], ast.Call) \
            and dotted(rets[0].func) in ("self.__class__", "type(self)") \
            and rets[0].args:
        a = rets[0].args[0]
        if ops_chain(a, "self.matrix") == ["inv"]:
            ok = True
        cv = [k for k in rets[0].keywords if k.arg == "column_vectors"
              and const_value(k.value) is True]
        if cv:
            ok = False
    if ok:
        r.ok("RO", "Transformation.inv", loc(g, g.node),
             dotted(rets[0])[:120],
             "same class, inverse of the stored row matrix, row convention")
    else:
        r.violation("RO", f"{g.fq}|inv", loc(g, g.node),
                    dotted(rets[0])[:160] if rets and rets[0] is not None
                    else "inv",
                    "inv() does not return self.__class__(utils.invert("
                    "self.matrix)) in the row convention: A.inv() @ (A @ X) "
                    "is not X", instance="Transformation.inv")
    h = ctx.p.get_function(PROJ, "Transformation.__matmul__")
    r.analysed(h)
    rets, _ = forward_subst(h.node)
    if len(rets) == 1 and isinstance(rets[0], ast.Call) \
            and dotted(rets[0].func) == "self.apply" \
            and rets[0].args \
            and dotted(rets[0].args[0]) == h.params[1] \
            and not rets[0].keywords and len(rets[0].args) == 1:
        r.ok("RO", "Transformation.__matmul__", loc(h, h.node),
             dotted(rets[0]), "T @ X is T.apply(X)")
    else:
        r.violation("RO", f"{h.fq}|matmul", loc(h, h.node),
                    dotted(rets[0])[:120] if rets and rets[0] is not None
                    else "",
                    "T @ X is not self.apply(X) with default elementwise "
                    "broadcasting", instance="Transformation.__matmul__")


# ---------------------------------------------------------------------------
# BM1: broadcast-matched operands replace their sources


def rule_bm1(ctx):
    r = ctx.r
    r.rule("BM1", "in Subspace.intersect, once the operands have been bound "
                  "(and possibly tiled by utils.broadcast_match), their "
                  "source arrays (self.proj_data, other.proj_data) are not "
                  "read again: the kernel coefficients index the rows of "
                  "the concatenated, broadcast-matched spans")
    f = ctx.p.get_function(PROJ, "Subspace.intersect")
    r.analysed(f)
    binds = []
    for n in ast.walk(f.node):
        if isinstance(n, ast.Assign) and isinstance(n.targets[0], ast.Tuple) \
                and len(n.targets[0].elts) == 2:
            v = n.value
            if isinstance(v, ast.Call) and dotted(v.func).endswith(
                    "broadcast_match"):
                binds.append((n, [dotted(a) for a in v.args[:2]]))
            elif isinstance(v, ast.Tuple) and len(v.elts) == 2:
                binds.append((n, [dotted(a) for a in v.elts]))
    if not binds:
        raise AnalysisError("Subspace.intersect: operand binding not found")
    targets = {dotted(t) for n, _ in binds for t in n.targets[0].elts}
    # an arm may also bind the operands one by one: p1 = self.proj_data
    for n in ast.walk(f.node):
        if isinstance(n, ast.Assign) and len(n.targets) == 1 \
                and dotted(n.targets[0]) in targets \
                and not isinstance(n.value, ast.Call):
            binds.append((n, [dotted(n.value)]))
    sources = {s for _, ss in binds for s in ss} - targets
    # reads inside the binding statements themselves (one per broadcast
    # arm, in any order) are the binding; everything after the first
    # binding statement must use the bound names
    first = min((n.lineno, n.col_offset) for n, _ in binds)
    inside = {id(x) for n, _ in binds for x in ast.walk(n)}
    stale = []
    sources = {x for x in sources if "proj_data" in x or "." not in x}
    for n in ast.walk(f.node):
        if isinstance(n, (ast.Attribute, ast.Name)) \
                and isinstance(getattr(n, "ctx", None), ast.Load) \
                and dotted(n) in sources \
                and id(n) not in inside \
                and (n.lineno, n.col_offset) > first:
            stale.append(n)
    if not stale:
        r.ok("BM1", "Subspace.intersect", loc(f, binds[0][0]), "",
             f"operands {sorted(targets)} replace {sorted(sources)} "
             "everywhere after binding")
    else:
        x = stale[0]
        st = x
        parents = f.module.parents
        while not isinstance(st, ast.stmt):
            st = parents[st]
        r.violation(
            "BM1", f"{f.fq}|{norm_stmt(st)[:100]}", loc(f, x),
            norm_stmt(st)[:160],
            f"`{dotted(x)}` is read after the operands were bound to "
            f"{sorted(targets)} (tiled by broadcast_match in pairwise "
            "mode): the kernel coefficients computed from the tiled spans "
            "are applied to the un-tiled array, so in pairwise mode entry "
            "[i, j] is built from the wrong subspace (or the shapes "
            "mismatch)", instance="Subspace.intersect")
    # the product uses the first operand (rows [:self.n] of the kernel)
    prods = [n for n in ast.walk(f.node) if isinstance(n, ast.Call)
             and dotted(n.func).endswith("matrix_product")]
    cat = [n for n in ast.walk(f.node) if isinstance(n, ast.Call)
           and dotted(n.func) == "np.concatenate"]
    if prods and cat and isinstance(cat[0].args[0], (ast.Tuple, ast.List)):
        first = dotted(cat[0].args[0].elts[0])
        _pa = ctx.p.positional_args(prods[-1])
        used = dotted(_pa[1]) if len(_pa) > 1 else None
        if used == first:
            r.ok("BM1", "Subspace.intersect:product", loc(f, prods[-1]),
                 dotted(prods[-1])[:100],
                 "coefficients of the first block multiply the first "
                 "operand")
        elif used not in sources:
            r.violation(
                "BM1", f"{f.fq}|product", loc(f, prods[-1]),
                dotted(prods[-1])[:140],
                f"the first-block kernel coefficients multiply `{used}` but "
                f"the first block of the concatenation is `{first}`",
                instance="Subspace.intersect:product")


# ---------------------------------------------------------------------------
# FR1: stored data is owned, handed-out coordinates are fresh

FR1_ACCESSORS = [
    (PROJ, "affine_coords", "points"),
    (PROJ, "projective_coords", "points"),
    ("geometry_tools/hyperbolic.py", "kleinian_to_poincare", "points"),
    ("geometry_tools/hyperbolic.py", "poincare_to_kleinian", "points"),
    ("geometry_tools/hyperbolic.py", "poincare_to_halfspace", "points"),
    ("geometry_tools/hyperbolic.py", "halfspace_to_poincare", "points"),
]


def rule_fr1(ctx, accessors=True, setter=True):
    from itertools import product
    r = ctx.r
    r.rule("FR1", "ProjectiveObject.set stores private copies of the primary "
                  "and dual data it is given (so that objects derived from "
                  "one another never share a buffer that item assignment "
                  "writes through), and the coordinate maps return arrays "
                  "that do not alias their argument (so coordinates read "
                  "earlier do not move when the object is normalised in "
                  "place later)")
    if setter:
        f = ctx.p.get_function(PROJ, "ProjectiveObject.set")
        r.analysed(f)
        flags = {p: "notnone" for p in f.params[1:4]}
        it = Interp(f.node, flags=flags).run()
        seen = 0
        for t, st, rts in it.attr_stores:
            a = dotted(t)
            if a not in ("self.proj_data", "self.dual_data"):
                continue
            seen += 1
            shared = sorted(x for x in rts if x.startswith("param:"))
            inst = f"set:{a}"
            if not shared:
                r.ok("FR1", inst, loc(f, st), norm_stmt(st),
                     "stores a fresh array")
            else:
                r.violation(
                    "FR1", f"{f.fq}|{a}", loc(f, st), norm_stmt(st)[:140],
                    f"`{a}` may be the caller's own array ({shared}): "
                    "Class(obj), obj[a:b], reshape and flatten_to_unit then "
                    "share the primary buffer with their source, and item "
                    "assignment on one silently moves the other while its "
                    "derived data stays put", instance=inst)
        if seen == 0:
            raise AnalysisError("ProjectiveObject.set: no store to "
                                "self.proj_data / self.dual_data found")
    if not accessors:
        return
    for rel, name, param in FR1_ACCESSORS:
        f = ctx.p.get_function(rel, name)
        r.analysed(f)
        flagnames = [p for p in f.params if p in ("column_vectors",)]
        nonenames = [p for p in f.params if p in ("chart_index",)]
        bad = None
        nret = 0
        for vals in product(*([[True, False]] * len(flagnames)
                              + [["none", "notnone"]] * len(nonenames))):
            flags = dict(zip(flagnames + nonenames, vals))
            it = Interp(f.node, flags=flags).run()
            for st, rts in it.returns:
                nret += 1
                if f"param:{param}" in rts:
                    bad = (st, flags)
        inst = f"{name}:fresh"
        if bad is None:
            r.ok("FR1", inst, loc(f, f.node), "",
                 f"{nret} return path(s): the result never aliases "
                 f"`{param}`")
        else:
            st, flags = bad
            r.violation(
                "FR1", f"{f.fq}|alias", loc(f, st), norm_stmt(st)[:140],
                f"the returned array can be a view of `{param}` "
                f"(flags {flags}): for an object this is its stored "
                "proj_data, which utils.normalize rescales in place on the "
                "next distance / hyperboloid call, so coordinates read "
                "earlier change under the caller", instance=inst)



# ---------------------------------------------------------------------------
# TS1: in apply(), the copy is only written once, after all slots were read


def rule_ts1(ctx):
    r = ctx.r
    r.rule("TS1", "Transformation.apply reads every slot of the copied "
                  "object before it writes the copy: after a "
                  "`new_obj.set(...)` the derived slots have been "
                  "recomputed from the already transformed primary data, so "
                  "reading them back and transforming them transforms them "
                  "twice")
    f = ctx.p.get_function(PROJ, "Transformation.apply")
    r.analysed(f)
    copies = {dotted(n.targets[0]) for n in ast.walk(f.node)
              if isinstance(n, ast.Assign) and len(n.targets) == 1
              and isinstance(n.value, ast.Call)
              and dotted(n.value.func) in ("copy", "copy.copy",
                                           "copy.deepcopy", "deepcopy")}
    if not copies:
        raise AnalysisError("Transformation.apply: the copy of the argument "
                            "was not found")
    sets = [n for n in ast.walk(f.node) if isinstance(n, ast.Call)
            and isinstance(n.func, ast.Attribute) and n.func.attr == "set"
            and dotted(n.func.value) in copies]
    if not sets:
        tries = [n for n in ast.walk(f.node) if isinstance(n, ast.Try)]
        inner = [x for t in tries for b in t.body for x in ast.walk(b)
                 if isinstance(x, ast.Return) and x.value is not None
                 and dotted(x.value) not in copies]
        if inner:
            x = inner[0]
            r.violation(
                "TS1", f"{f.fq}|returns-rebuilt", loc(f, x),
                norm_stmt(x)[:140],
                f"apply returns `{dotted(x.value)[:60]}` instead of the "
                "copy of its argument (and never writes the copy): a "
                "constructor resets unit_ndims / aux_ndims / dual_ndims to "
                "the class defaults, so objects built with non-default "
                "ndims change composite shape under T @ X",
                instance="apply:returns-copy")
            return
        raise AnalysisError("Transformation.apply: no <copy>.set(...) call")
    first = min((n.lineno, n.col_offset) for n in sets)
    late = [n for n in ast.walk(f.node) if isinstance(n, ast.Attribute)
            and isinstance(n.ctx, ast.Load)
            and n.attr in ("proj_data", "aux_data", "dual_data")
            and dotted(n.value) in copies
            and (n.lineno, n.col_offset) > first
            and not any(n in list(ast.walk(s)) for s in sets)]
    # the result is that copy (type, per-instance unit/aux/dual ndims and
    # base ring travel with it); re-constructing through the class resets
    # the ndims to the class defaults
    tries = [n for n in ast.walk(f.node) if isinstance(n, ast.Try)]
    inner = [x for t in tries for b in t.body for x in ast.walk(b)
             if isinstance(x, ast.Return) and x.value is not None]
    rebuilt = [x for x in inner if dotted(x.value) not in copies]
    if rebuilt:
        x = rebuilt[0]
        r.violation(
            "TS1", f"{f.fq}|returns-rebuilt", loc(f, x), norm_stmt(x)[:140],
            f"apply returns `{dotted(x.value)[:60]}` instead of the copy of "
            "its argument: a constructor resets unit_ndims / aux_ndims / "
            "dual_ndims to the class defaults, so for an object built with "
            "non-default ndims (PointCollection(data, unit_ndims=3), "
            "ProjectiveObject(data, unit_ndims=2)) T @ X has another "
            "composite shape than X and (A @ B) @ X != A @ (B @ X)",
            instance="apply:returns-copy")
    elif inner:
        r.ok("TS1", "apply:returns-copy", loc(f, inner[0]),
             norm_stmt(inner[0]), "the transformed copy itself is returned")
    if not late:
        r.ok("TS1", "apply:read-before-write", loc(f, sets[0]),
             dotted(sets[0])[:100],
             "all slots are read before the copy is written")
    else:
        x = late[0]
        r.violation(
            "TS1", f"{f.fq}|late-read:{x.attr}", loc(f, x),
            norm_stmt(_stmt_of_node(f, x))[:140],
            f"`{dotted(x)}` is read after `{dotted(sets[0])[:60]}`: set() "
            "has already recomputed the derived data from the transformed "
            "primary data, so this value is transformed a second time "
            "((A@B)@X and A@(B@X) then differ in the auxiliary data)",
            instance="apply:read-before-write")


def _stmt_of_node(f, node):
    parents = f.module.parents
    cur = node
    while not isinstance(cur, ast.stmt):
        cur = parents[cur]
    return cur



# ---------------------------------------------------------------------------
# P1g: the coordinate getters leave the caller's array alone (up to the one
# tolerated in-place positive rescaling by utils.normalize)

P1G_GETTERS = [
    ("geometry_tools/hyperbolic.py", "hyperboloid_coords"),
    ("geometry_tools/hyperbolic.py", "kleinian_to_poincare"),
    ("geometry_tools/hyperbolic.py", "poincare_to_kleinian"),
    ("geometry_tools/hyperbolic.py", "poincare_to_halfspace"),
    ("geometry_tools/hyperbolic.py", "halfspace_to_poincare"),
    (PROJ, "affine_coords"),
    (PROJ, "projective_coords"),
]


def rule_p1g(ctx):
    r = ctx.r
    r.rule("P1g", "the module-level coordinate maps never store into the "
                  "array they are given (item / masked / augmented stores, "
                  "out= arguments); the only tolerated in-place effect is "
                  "utils.normalize's rescaling of each row by a positive "
                  "factor, which changes no point, segment endpoint order "
                  "or tangent direction -- a sign flip or a permutation "
                  "written back does")

    def summ(call, name):
        if name in ("utils.normalize", "normalize"):
            return {"returns": "arg0"}          # tolerated, see rule text
        return _summ(call, name)
    for rel, q in P1G_GETTERS:
        f = ctx.p.get_function(rel, q)
        r.analysed(f)
        bad = []
        n_mut = 0
        for fl in ({"column_vectors": False}, {"column_vectors": True}):
            it = Interp(f.node, flags=fl, summaries=summ).run()
            n_mut = max(n_mut, len(it.mutations))
            for m in it.mutations:
                direct = [x for x in m.roots if x.startswith("param:")]
                if direct and not (m.kind == "augstore"
                                   and isinstance(m.node, ast.Name)
                                   and False):
                    bad.append((m, direct))
        inst = f"{q}:argument-untouched"
        if not bad:
            r.ok("P1g", inst, loc(f, f.node), "",
                 f"{n_mut} store(s), none into the argument")
            continue
        m, direct = bad[0]
        con = norm_stmt(m.stmt)
        r.violation(
            "P1g", f"{f.fq}|{con}", loc(f, m.stmt), con[:160],
            f"`{m.target}` ({m.kind}) is (a view of) the caller's array "
            f"{direct}: for an object this is its stored proj_data, so a "
            "read-only query (coords, distance) rewrites the primary data "
            "while the derived data (ideal endpoints, polygon edges, the "
            "tangent vector) keeps describing the old rows",
            instance=inst)



# ---------------------------------------------------------------------------
# FR2: restructuring methods hand out objects that went through set()


def rule_fr2(ctx):
    r = ctx.r
    r.rule("FR2", "flatten_to_unit returns its shallow copy only after the "
                  "copy was given data through set() (which stores a "
                  "private array): a path that returns the bare copy shares "
                  "the primary buffer with the original, and item "
                  "assignment on one moves the other while its derived "
                  "data stays put")
    f = ctx.p.get_function(PROJ, "ProjectiveObject.flatten_to_unit")
    r.analysed(f)
    copies = {dotted(n.targets[0]) for n in ast.walk(f.node)
              if isinstance(n, ast.Assign) and len(n.targets) == 1
              and isinstance(n.value, ast.Call)
              and dotted(n.value.func) in ("copy", "copy.copy")}
    sets = [n for n in ast.walk(f.node) if isinstance(n, ast.Expr)
            and isinstance(n.value, ast.Call)
            and isinstance(n.value.func, ast.Attribute)
            and n.value.func.attr == "set"
            and dotted(n.value.func.value) in copies]
    rets = [n for n in ast.walk(f.node) if isinstance(n, ast.Return)
            and n.value is not None and dotted(n.value) in copies]
    if not copies or not rets:
        r.note("FR2", loc(f, f.node), "flatten_to_unit",
               "the copy-then-set idiom is not present (not judged)")
        return
    bad = None
    npaths = 0
    for p in enumerate_paths(f.node, markers=sets + rets):
        if not (isinstance(p.terminal, ast.Return)
                and any(p.terminal is x for x in rets)):
            continue
        npaths += 1
        if not any(any(e is s for s in sets) for e in p.events):
            bad = p.terminal
    if bad is None:
        r.ok("FR2", "flatten_to_unit:set-before-return", loc(f, rets[0]),
             norm_stmt(rets[0]),
             f"{npaths} return path(s), all after <copy>.set(...)")
    else:
        r.violation(
            "FR2", f"{f.fq}|bare-copy", loc(f, bad), norm_stmt(bad),
            "a path returns the shallow copy without calling set() on it: "
            "the result shares proj_data with the original (for objects "
            "that are already flat), so `flat[i] = x` silently rewrites "
            "the original's vertices / endpoints while its edges / ideal "
            "endpoints / projected vector are not recomputed",
            instance="flatten_to_unit:set-before-return")


def rule_dual1(ctx):
    r = ctx.r
    r.rule("DUAL1", "dual data (a linear functional, e.g. the affine chart "
                    "stored with a ConvexPolygon) transforms "
                    "CONTRAGREDIENTLY: in Transformation.apply the "
                    "`_apply_to_data` call that moves `dual_data` selects "
                    "the inverse-transpose branch (dual=True), the calls for "
                    "proj_data / aux_data do not. Moving a functional like a "
                    "point loses the pairing <dual, point>: the stored chart "
                    "of A @ polygon cuts through the polygon")
    f = ctx.p.get_function(PROJ, "Transformation.apply")
    h = ctx.p.get_function(PROJ, "Transformation._apply_to_data")
    r.analysed(f)
    r.analysed(h)
    hp = [p for p in h.params if p != "self"]
    if "dual" not in hp:
        r.note("DUAL1", loc(h, h.node), "_apply_to_data",
               "no `dual` parameter any more (not judged)")
        return
    # the branch exists: `if dual:` rebinding the matrix to an inverse
    has_branch = any(isinstance(n, ast.If) and any(
        isinstance(x, ast.Name) and x.id == "dual" for x in ast.walk(n.test))
        for n in ast.walk(h.node))
    if not has_branch:
        r.note("DUAL1", loc(h, h.node), "_apply_to_data",
               "`dual` no longer selects a branch (not judged)")
        return
    n = 0
    for c in ast.walk(f.node):
        if not (isinstance(c, ast.Call) and isinstance(c.func, ast.Attribute)
                and c.func.attr == "_apply_to_data" and c.args):
            continue
        what = {x.attr for x in ast.walk(c.args[0])
                if isinstance(x, ast.Attribute)} | {
            x.id for x in ast.walk(c.args[0]) if isinstance(x, ast.Name)}
        role = "dual" if "dual_data" in what else (
            "point" if what & {"proj_data", "aux_data"} else None)
        if role is None:
            continue
        n += 1
        val = None
        idx = hp.index("dual")
        if len(c.args) > idx:
            val = c.args[idx]
        for k in c.keywords:
            if k.arg == "dual":
                val = k.value
        truth = const_value(val) if val is not None else False
        inst = f"Transformation.apply:{role}@{sorted(what & {'dual_data', 'proj_data', 'aux_data'})[0]}"
        if role == "dual" and truth is not True:
            r.violation(
                "DUAL1", f"{f.fq}|dual_data", loc(f, c), dotted(c)[:100],
                "the dual data is sent through `_apply_to_data` without "
                "dual=True, i.e. multiplied by M like a point; the "
                "inverse-transpose branch of the helper is dead code. For a "
                "ConvexPolygon (unit square, dual [1,0,0]) under "
                "[[1,-2,-2],[0,1,-2],[-2,0,1]] the stored functional pairs "
                "[5,3,-1,1] with the moved vertices instead of [1,1,1,1]",
                instance=inst)
        elif role == "point" and truth is True:
            r.violation(
                "DUAL1", f"{f.fq}|{inst}", loc(f, c), dotted(c)[:100],
                "point / auxiliary data is moved with the inverse "
                "transpose", instance=inst)
        else:
            r.ok("DUAL1", inst, loc(f, c), dotted(c)[:80],
                 f"{role} data: dual={truth}")
    if n == 0:
        r.note("DUAL1", loc(f, f.node), "Transformation.apply",
               "no `_apply_to_data` call on proj/aux/dual data (not judged)")
