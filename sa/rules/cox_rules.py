"""Structural necessary conditions of C07 (Coxeter automata): flag threading,
the infinity convention shared with coxeter.py, the generator order, the
reducedness guard of the transition loop and the lexicographic pruning."""
import ast
from ..norm import single_defs

from ..project import AnalysisError, loc, norm_stmt
from ..flow import dotted
from .common import const_value, path_conditions, stmt_of

COX = "geometry_tools/coxeter.py"
CA = "geometry_tools/automata/coxeter_automaton.py"


def _arg_for(ctx, call, callee, pname):
    """the argument `call` passes for parameter `pname` of function callee"""
    for k in call.keywords:
        if k.arg == pname:
            return k.value
    names = [a.arg for a in callee.node.args.args]
    if pname not in names:
        return None
    i = names.index(pname)
    if callee.cls is not None:
        i -= 1
    pos = ctx.p.positional_args(call)
    if any(isinstance(a, ast.Starred) for a in pos):
        return "?"
    return pos[i] if 0 <= i < len(pos) else None


def _is_flag(e, name):
    """e is the flag itself or bool(flag)"""
    if isinstance(e, ast.Name) and e.id == name:
        return True
    return isinstance(e, ast.Call) and dotted(e.func) == "bool" \
        and len(e.args) == 1 and isinstance(e.args[0], ast.Name) \
        and e.args[0].id == name


def rule_thr1(ctx):
    r = ctx.r
    r.rule("THR1", "the `shortlex` request of CoxeterGroup.automaton reaches "
                   "the lexicographic pruning: automaton -> "
                   "generate_automaton_coxeter_matrix(lex_reduced) -> "
                   "generate_automaton(lex_reduced) -> every "
                   "apply_gen_to_node(lex_reduced=..) call, each link "
                   "passing the flag itself (not a constant, not dropped). "
                   "A broken link makes the 'shortlex' automaton accept "
                   "every geodesic word, or the geodesic one only the "
                   "shortlex words")
    chain = [
        ((COX, "CoxeterGroup.automaton"), "shortlex",
         (CA, "generate_automaton_coxeter_matrix"), "lex_reduced"),
        ((CA, "generate_automaton_coxeter_matrix"), "lex_reduced",
         (CA, "generate_automaton"), "lex_reduced"),
        ((CA, "generate_automaton"), "lex_reduced",
         (CA, "apply_gen_to_node"), "lex_reduced"),
    ]
    for (frel, fq), flag, (grel, gq), gparam in chain:
        f = ctx.p.get_function(frel, fq)
        g = ctx.p.get_function(grel, gq)
        r.analysed(f, g)
        if flag not in f.params:
            raise AnalysisError(f"THR1: {fq} has no parameter `{flag}` "
                                "(stale table)")
        if gparam not in g.params:
            raise AnalysisError(f"THR1: {gq} has no parameter `{gparam}` "
                                "(stale table)")
        calls = [c for c in ast.walk(f.node) if isinstance(c, ast.Call)
                 and dotted(c.func).split(".")[-1] == g.name]
        inst = f"{f.name}->{g.name}"
        if not calls:
            r.note("THR1", loc(f, f.node), inst,
                   f"{f.name} does not call {g.name} directly (not judged)")
            continue
        for c in calls:
            a = _arg_for(ctx, c, g, gparam)
            if a == "?":
                r.note("THR1", loc(f, c), dotted(c)[:80],
                       "starred arguments (not judged)")
            elif a is not None and _is_flag(a, flag):
                r.ok("THR1", inst, loc(f, c), dotted(c)[:80],
                     f"passes `{flag}` as `{gparam}`")
            else:
                what = "does not pass it (the default is used)" \
                    if a is None else f"passes `{ast.unparse(a)[:40]}`"
                r.violation(
                    "THR1", f"{f.fq}|{g.name}|{gparam}", loc(f, c),
                    dotted(c)[:120],
                    f"{f.name} receives `{flag}` but {what} for "
                    f"`{gparam}` of {g.name}: the request for shortlex / "
                    "all geodesics never reaches the pruning in "
                    "apply_gen_to_node, so one of the two automata accepts "
                    "the other's language", instance=inst)


def rule_even2(ctx):
    r = ctx.r
    r.rule("EVEN2", "CoxeterGroup.automaton returns the even-length "
                    "sub-automaton of the SAME automaton exactly when "
                    "even_length is set: the return reached under "
                    "`even_length` is `<aut>.even_automaton()` on the local "
                    "that the other return hands out, and the other return "
                    "is not under it")
    f = ctx.p.get_function(COX, "CoxeterGroup.automaton")
    r.analysed(f)
    pc = path_conditions(f.node)
    rets = [s for s in ast.walk(f.node) if isinstance(s, ast.Return)
            and s.value is not None]
    even, plain = [], []
    for s in rets:
        conds = pc.get(id(s), [])
        pol = [p for t, p in conds if isinstance(t, ast.Name)
               and t.id == "even_length"]
        neg = [not p for t, p in conds if isinstance(t, ast.UnaryOp)
               and isinstance(t.op, ast.Not) and isinstance(
                   t.operand, ast.Name) and t.operand.id == "even_length"]
        flags = pol + neg
        if flags and flags[-1]:
            even.append(s)
        else:
            plain.append(s)
    inst = "automaton:even_length"
    if not even or not plain:
        r.note("EVEN2", loc(f, f.node), inst,
               "the two returns are not separated by a test of "
               "`even_length` in a form this rule reads (not judged)")
        return
    base = {dotted(s.value) for s in plain if isinstance(s.value, ast.Name)}
    bad = None
    for s in even:
        v = s.value
        if not (isinstance(v, ast.Call) and isinstance(v.func, ast.Attribute)
                and v.func.attr == "even_automaton"):
            bad = (s, "does not return `.even_automaton()`")
        elif base and dotted(v.func.value) not in base:
            bad = (s, f"takes the even automaton of "
                      f"`{dotted(v.func.value)}`, not of the automaton the "
                      "other return hands out")
    for s in plain:
        if isinstance(s.value, ast.Call) and isinstance(
                s.value.func, ast.Attribute) \
                and s.value.func.attr == "even_automaton":
            bad = (s, "returns the even automaton although even_length is "
                      "not set")
    if bad:
        r.violation("EVEN2", f"{f.fq}|even", loc(f, bad[0]),
                    norm_stmt(bad[0])[:120],
                    f"the return under `even_length` {bad[1]}: the "
                    "even-length variant no longer accepts exactly the "
                    "accepted words of even length", instance=inst)
    else:
        r.ok("EVEN2", inst, loc(f, even[0]), norm_stmt(even[0])[:80],
             "even_automaton() of the same automaton under the flag")


def rule_ord2(ctx):
    r = ctx.r
    r.rule("ORD2", "the automaton's integer letters are renamed with "
                   "`self.ordered_gens`, the list whose order indexes the "
                   "rows of the Coxeter matrix the automaton was built "
                   "from; any other order (the dict of generators, a sorted "
                   "copy) labels the edges with the wrong generators and "
                   "changes which word is lexicographically least")
    f = ctx.p.get_function(COX, "CoxeterGroup.automaton")
    r.analysed(f)
    calls = [c for c in ast.walk(f.node) if isinstance(c, ast.Call)
             and isinstance(c.func, ast.Attribute)
             and c.func.attr == "rename_generators"]
    if not calls:
        r.note("ORD2", loc(f, f.node), "automaton",
               "no rename_generators call (not judged)")
        return
    defs = single_defs(f.node)

    def resolve(e, depth=0):
        while isinstance(e, ast.Name) and e.id in defs and depth < 4:
            e = defs[e.id]
            depth += 1
        return e

    def order_source(e):
        """The expression whose ORDER decides which letter gets which name:
        X for X, list(X), tuple(X), dict(enumerate(X)),
        {i: g for i, g in enumerate(X)}; None when not of these forms."""
        e = resolve(e)
        if isinstance(e, ast.Call) and dotted(e.func) in ("list", "tuple") \
                and len(e.args) == 1:
            return order_source(e.args[0])
        if isinstance(e, ast.Call) and dotted(e.func) == "dict" \
                and len(e.args) == 1 and isinstance(e.args[0], ast.Call) \
                and dotted(e.args[0].func) == "enumerate" \
                and e.args[0].args:
            return order_source(e.args[0].args[0])
        if isinstance(e, ast.DictComp) and len(e.generators) == 1:
            g = e.generators[0]
            if isinstance(g.iter, ast.Call) and dotted(g.iter.func) == \
                    "enumerate" and g.iter.args \
                    and isinstance(g.target, ast.Tuple) \
                    and len(g.target.elts) == 2 \
                    and dotted(e.key) == dotted(g.target.elts[0]) \
                    and dotted(e.value) == dotted(g.target.elts[1]):
                return order_source(g.iter.args[0])
            return None
        return e
    for c in calls:
        a = c.args[0] if c.args else next(
            (k.value for k in c.keywords), None)
        inst = "automaton:rename"
        src = order_source(a) if a is not None else None
        if src is not None and dotted(src) == "self.ordered_gens":
            r.ok("ORD2", inst, loc(f, c), dotted(c)[:80],
                 "renamed in the order of self.ordered_gens")
        elif src is None:
            r.note("ORD2", loc(f, c), inst,
                   f"the order of `{ast.unparse(a)[:40] if a is not None else 'nothing'}` "
                   "is not read (not judged)")
        else:
            r.violation(
                "ORD2", f"{f.fq}|rename", loc(f, c), dotted(c)[:120],
                f"letters are renamed in the order of "
                f"`{ast.unparse(src)[:50]}` "
                "instead of `self.ordered_gens`: letter k of the automaton "
                "is row k of the Coxeter matrix, i.e. "
                "self.ordered_gens[k]", instance=inst)


def rule_infc(ctx):
    r = ctx.r
    r.rule("INFC", "one infinity convention: "
                   "generate_automaton_coxeter_matrix gives the root form "
                   "the entry -1 exactly for the labels coxeter.py treats "
                   "as infinite (label <= 0, INF1) and -cos(pi/m) for "
                   "m > 0; the two modules must agree or the automaton is "
                   "built for a different group than the representation")
    f = ctx.p.get_function(CA, "generate_automaton_coxeter_matrix")
    r.analysed(f)
    ife = [n for n in ast.walk(f.node) if isinstance(n, ast.IfExp)]
    inst = "generate_automaton_coxeter_matrix:infinity"
    if not ife:
        # vectorised form: the infinite labels are selected by a mask,
        # `orders[orders <op> c] = np.inf` or np.where(orders <op> c, ..)
        masks = []
        for n in ast.walk(f.node):
            t = None
            if isinstance(n, ast.Assign) and len(n.targets) == 1 \
                    and isinstance(n.targets[0], ast.Subscript) \
                    and isinstance(n.targets[0].slice, ast.Compare):
                t = n.targets[0].slice
            if isinstance(n, ast.Call) and dotted(n.func) == "np.where" \
                    and n.args and isinstance(n.args[0], ast.Compare):
                t = n.args[0]
            if t is not None and len(t.ops) == 1:
                cv = const_value(t.comparators[0])
                if isinstance(cv, (int, float)) and not isinstance(cv, bool):
                    masks.append((n, t, cv))
        if not masks:
            r.note("INFC", loc(f, f.node), inst,
                   "the form is built neither with a conditional "
                   "expression nor with a mask on the labels (not judged)")
            return
        for n, t, cv in masks:
            op = type(t.ops[0])
            # the set of integer labels the mask selects as infinite must be
            # exactly {m : m <= 0}
            selects_nonpos = (op is ast.LtE and cv == 0) or (
                op is ast.Lt and cv == 1)
            selects_pos = (op is ast.Gt and cv == 0) or (
                op is ast.GtE and cv == 1)       # the finite side (np.where)
            if selects_nonpos or selects_pos:
                r.ok("INFC", inst, loc(f, n), ast.unparse(t)[:60],
                     "the mask separates the labels <= 0 from the labels >= 1")
            else:
                r.violation(
                    "INFC", f"{f.fq}|test", loc(f, n), ast.unparse(n)[:120],
                    f"the infinite labels are selected by `{ast.unparse(t)}`; "
                    "coxeter.py treats exactly the labels <= 0 as infinite "
                    "(cartan_matrix even requires the negative spelling "
                    "for its free parameters), so a label -1 gets "
                    "-cos(pi / -1) = +1 here: the automaton is built for "
                    "a different group than the representation "
                    "([[1,3,-1],[3,1,3],[-1,3,1]]: `baba` accepted, `abc` "
                    "rejected)", instance=inst)
        return
    for e in ife:
        t = e.test
        cv = const_value(t.comparators[0]) if isinstance(
            t, ast.Compare) and len(t.ops) == 1 else None
        if not (isinstance(t, ast.Compare) and len(t.ops) == 1
                and isinstance(cv, int) and not isinstance(cv, bool)
                and isinstance(t.left, ast.Name)):
            r.note("INFC", loc(f, e), ast.unparse(e)[:80],
                   "test form not recognised (not judged)")
            continue

        def is_cos(x):
            return any(isinstance(c, ast.Call)
                       and dotted(c.func).split(".")[-1] == "cos"
                       for c in ast.walk(x))
        # integer labels: the least label treated as finite
        op = type(t.ops[0])
        least_finite = {ast.Gt: cv + 1, ast.GtE: cv, ast.Lt: cv,
                        ast.LtE: cv + 1}.get(op)
        finite_arm, inf_arm = (e.body, e.orelse) if op in (
            ast.Gt, ast.GtE) else ((e.orelse, e.body) if op in (
                ast.Lt, ast.LtE) else (None, None))
        if least_finite != 1:
            finite_arm = None
        if finite_arm is None:
            r.violation(
                "INFC", f"{f.fq}|test", loc(f, e), ast.unparse(e)[:120],
                f"the label test is `{ast.unparse(t)}`; coxeter.py treats "
                "exactly the labels <= 0 as infinite (the least finite "
                "label is 1), so a label on the boundary gets a different "
                "form entry here than in the representation", instance=inst)
        elif is_cos(finite_arm) and const_value(inf_arm) in (-1, -1.0):
            r.ok("INFC", inst, loc(f, e), ast.unparse(e)[:80],
                 "m > 0: -cos(pi/m); otherwise -1")
        else:
            r.violation(
                "INFC", f"{f.fq}|arms", loc(f, e), ast.unparse(e)[:120],
                "the arms are not (-cos(pi/m) for m > 0, -1 for an "
                "infinite label)", instance=inst)


def rule_geo1(ctx):
    r = ctx.r
    r.rule("GEO1", "generate_automaton creates an edge labelled k from a "
                   "state only where `node[k] != 1` is in force (the simple "
                   "root of k is not yet inverted, so appending k keeps the "
                   "word reduced): the guard is read from the path "
                   "conditions at the statement that records the edge. "
                   "Without it non-reduced words are accepted")
    f = ctx.p.get_function(CA, "generate_automaton")
    r.analysed(f)
    pc = path_conditions(f.node)
    # the loop over the generators and the statements that record an edge
    # labelled with its loop variable (a store / append whose value or key
    # mentions that variable)
    sites = []
    for lp in ast.walk(f.node):
        if not (isinstance(lp, ast.For) and isinstance(lp.target, ast.Name)
                and isinstance(lp.iter, ast.Call)
                and dotted(lp.iter.func) == "range"):
            continue
        k = lp.target.id
        for c in ast.walk(lp):
            if isinstance(c, ast.Call) and isinstance(c.func, ast.Attribute) \
                    and c.func.attr in ("append", "add") and any(
                        isinstance(x, ast.Name) and x.id == k
                        for a in c.args for x in ast.walk(a)):
                sites.append((c, k))
            if isinstance(c, ast.Assign) and len(c.targets) == 1 \
                    and isinstance(c.targets[0], ast.Subscript) \
                    and isinstance(c.targets[0].value, ast.Subscript) \
                    and isinstance(c.targets[0].slice, ast.Name) \
                    and c.targets[0].slice.id == k:
                sites.append((c, k))        # graph[node][k] = target
    if not sites:
        r.note("GEO1", loc(f, f.node), "generate_automaton",
               "no statement recording an edge labelled with the loop "
               "variable found (not judged)")
        return
    for c, k in sites:
        st = c if isinstance(c, ast.stmt) else stmt_of(c, f.module.parents)
        ok = False
        for t, pol in pc.get(id(st), []):
            if isinstance(t, ast.Compare) and len(t.ops) == 1 \
                    and isinstance(t.left, ast.Subscript) \
                    and isinstance(t.left.slice, ast.Name) \
                    and t.left.slice.id == k \
                    and const_value(t.comparators[0]) == 1:
                if (isinstance(t.ops[0], ast.Eq) and not pol) or (
                        isinstance(t.ops[0], ast.NotEq) and pol):
                    ok = True
        inst = "generate_automaton:edge"
        if ok:
            r.ok("GEO1", inst, loc(f, c), dotted(c)[:80]
                 if isinstance(c, ast.Call) else norm_stmt(c)[:80],
                 f"`<state>[{k}] != 1` holds where the edge is recorded")
        else:
            r.violation(
                "GEO1", f"{f.fq}|edge", loc(f, c),
                (dotted(c) if isinstance(c, ast.Call) else norm_stmt(c))[:120],
                f"the edge labelled `{k}` is recorded without "
                f"`<state>[{k}] != 1` in force: a letter whose simple root "
                "is already inverted shortens the word, so the automaton "
                "accepts non-reduced words", instance=inst)


def rule_lex1(ctx):
    r = ctx.r
    r.rule("LEX1", "the lexicographic pruning of apply_gen_to_node runs "
                   "only under `lex_reduced` and only over the generators "
                   "that precede k in the order (`range(k)`): run "
                   "unconditionally it prunes the geodesic automaton, run "
                   "over other letters it rejects the least word or accepts "
                   "a greater one")
    f = ctx.p.get_function(CA, "apply_gen_to_node")
    r.analysed(f)
    if len(f.params) < 2:
        raise AnalysisError("LEX1: apply_gen_to_node signature changed")
    kparam = f.params[1]
    pc = path_conditions(f.node)
    loops = [n for n in ast.walk(f.node) if isinstance(n, ast.For)]
    inst = "apply_gen_to_node:pruning"
    if not loops:
        r.note("LEX1", loc(f, f.node), inst,
               "no pruning loop found (not judged)")
        return
    for lp in loops:
        conds = pc.get(id(lp), [])
        under = any(isinstance(t, ast.Name) and t.id == "lex_reduced" and p
                    for t, p in conds)
        it = lp.iter
        rng = isinstance(it, ast.Call) and dotted(it.func) == "range" \
            and len(it.args) == 1 and dotted(it.args[0]) == kparam
        brk = next((x for x in ast.walk(lp) if isinstance(x, ast.Break)),
                   None)
        if under and rng and brk is not None:
            r.violation(
                "LEX1", f"{f.fq}|break", loc(f, brk), norm_stmt(lp)[:100],
                "the pruning loop is left with `break`: the generators "
                f"after the first one that breaks are never examined, so a "
                "mark for a later j < k is lost and two words of one "
                "element are accepted by the shortlex automaton",
                instance=inst)
        elif under and rng:
            r.ok("LEX1", inst, loc(f, lp), norm_stmt(lp)[:60],
                 f"under lex_reduced, over range({kparam})")
        elif not under:
            r.violation(
                "LEX1", f"{f.fq}|flag", loc(f, lp), norm_stmt(lp)[:100],
                "the pruning loop is not under `lex_reduced`: the automaton "
                "of all geodesics is pruned as well and accepts only the "
                "shortlex words", instance=inst)
        elif isinstance(it, ast.Call) and dotted(it.func) == "range":
            r.violation(
                "LEX1", f"{f.fq}|range", loc(f, lp), norm_stmt(lp)[:100],
                f"the pruning loop runs over `{ast.unparse(it)}`, not over "
                f"the generators before `{kparam}`: which reduced word is "
                "kept is no longer the lexicographically least",
                instance=inst)
        else:
            r.note("LEX1", loc(f, lp), norm_stmt(lp)[:60],
                   "loop form not recognised (not judged)")


def rule_tol2(ctx):
    r = ctx.r
    r.rule("TOL2", "the small-root enumeration works in floating point "
                   "(cosines of pi/m): every sign / threshold test of a root "
                   "coordinate or of a pairing <root, alpha_k> carries the "
                   "module's tolerance (`x < -1e-6`, `f > 1e-6`, "
                   "`-1 + 1e-6 < f < -1e-6`; 4 tests on the pinned tree, "
                   "unanimous). A test against exactly 0 / -1 / 1 "
                   "(`min(root) >= 0`) treats a coordinate that is -1e-16 by "
                   "rounding as negative: roots are matched to the wrong "
                   "known root, small roots are lost and non-reduced words "
                   "are accepted (m = 5, 7, ...)")
    mod = ctx.p.module_by_rel(CA)
    n = 0
    for q in ("find_word_to_negative", "find_small_roots",
              "find_root_from_vector"):
        f = ctx.p.get_function(CA, q)
        r.analysed(f)
        floats = {p for p in f.params if p.startswith(("root", "vector"))
                  or p in ("v",)}
        grew = True
        while grew:
            grew = False
            for st in ast.walk(f.node):
                if isinstance(st, ast.Assign) and len(st.targets) == 1 \
                        and isinstance(st.targets[0], ast.Name) \
                        and st.targets[0].id not in floats:
                    v = st.value
                    src = False
                    if isinstance(v, ast.Call):
                        fn = dotted(v.func).split(".")[-1]
                        if fn == "form_gen_root":
                            src = True
                        if fn in ("copy", "min", "max", "sum", "list",
                                  "abs") and any(
                                isinstance(x, ast.Name) and x.id in floats
                                for x in ast.walk(v)):
                            src = True
                    if isinstance(v, ast.Attribute) and v.attr == "v":
                        src = True
                    if isinstance(v, ast.Subscript) and isinstance(
                            v.value, ast.Name) and v.value.id in floats:
                        src = True
                    if src:
                        floats.add(st.targets[0].id)
                        grew = True

        def is_float(e, extra=()):
            if isinstance(e, ast.Name):
                return e.id in floats or e.id in extra
            if isinstance(e, ast.Subscript):
                return is_float(e.value, extra)
            if isinstance(e, ast.Attribute) and e.attr == "v":
                return True
            if isinstance(e, ast.Call):
                fn = dotted(e.func).split(".")[-1]
                if fn == "form_gen_root":
                    return True
                if fn in ("min", "max", "sum", "abs"):
                    return any(is_float(a, extra) for a in e.args)
            if isinstance(e, ast.UnaryOp):
                return is_float(e.operand, extra)
            return False

        def visit(node, extra):
            nonlocal n
            for c in ast.iter_child_nodes(node):
                ex = extra
                if isinstance(c, ast.Lambda):
                    # lambda x: ... mapped / filtered over float data
                    ex = extra | {a.arg for a in c.args.args}
                if isinstance(c, ast.Compare):
                    sides = [c.left] + list(c.comparators)
                    for a, op, b in zip(sides, c.ops, sides[1:]):
                        for data, bound in ((a, b), (b, a)):
                            if not is_float(data, ex):
                                continue
                            if isinstance(op, (ast.Is, ast.IsNot, ast.In,
                                               ast.NotIn)):
                                continue
                            n += 1
                            cv = const_value(bound)
                            inst = f"{q}:{ast.unparse(c)[:40]}"
                            if isinstance(cv, (int, float)) and not \
                                    isinstance(cv, bool) and cv in (0, 1, -1):
                                r.violation(
                                    "TOL2", f"{f.fq}|{ast.unparse(c)[:50]}",
                                    loc(f, c), ast.unparse(c)[:120],
                                    f"`{ast.unparse(data)[:40]}` is a "
                                    "floating-point root coordinate / "
                                    "pairing and is compared with exactly "
                                    f"{cv}: the other tests of this module "
                                    "allow 1e-6 for rounding; without it a "
                                    "coordinate of -1e-16 counts as "
                                    "negative, the descent stops early and "
                                    "small roots are lost", instance=inst)
                            else:
                                r.ok("TOL2", inst, loc(f, c),
                                     ast.unparse(c)[:80],
                                     "compared with a tolerance")
                visit(c, ex)
        visit(f.node, frozenset())
    if n < 3:
        r.note("TOL2", CA, "tolerance tests",
               f"{n} float threshold test(s) found, 4 confirmed by hand on "
               "the pinned tree: the others are written in a form this rule "
               "does not read (not judged)")


def _has_minus_one_arm(e):
    """an element expression one of whose alternatives is the constant -1"""
    for x in ast.walk(e):
        if isinstance(x, ast.IfExp) and (const_value(x.body) == -1
                                         or const_value(x.orelse) == -1):
            return True
        if isinstance(x, ast.Call) and isinstance(x.func, ast.Attribute) \
                and x.func.attr == "get" and len(x.args) == 2 \
                and const_value(x.args[1]) == -1:
            return True
    return False


def rule_sent1(ctx, rels):
    r = ctx.r
    r.rule("SENT1", "a table that marks 'no such entry' with -1 (a "
                    "comprehension / list whose element is `<index> if .. "
                    "else -1`, `[-1] * n`, `.get(k, -1)`) is never used as "
                    "a subscript into another sequence without a test that "
                    "excludes the marker (`j != -1`, `j >= 0`) in force: in "
                    "Python `seq[-1]` silently addresses the LAST element, "
                    "so the 'missing' case writes to / reads from an "
                    "unrelated entry")
    n = 0
    for rel in rels:
        mod = ctx.p.module_by_rel(rel)
        for f in ctx.p.all_functions:
            if f.module is not mod:
                continue
            tables = {}
            for st in ast.walk(f.node):
                if not (isinstance(st, ast.Assign) and len(st.targets) == 1
                        and isinstance(st.targets[0], ast.Name)):
                    continue
                v = st.value
                sentinel = False
                if isinstance(v, (ast.ListComp, ast.GeneratorExp, ast.List,
                                  ast.DictComp)):
                    elts = [v.elt] if isinstance(
                        v, (ast.ListComp, ast.GeneratorExp)) else (
                        [v.value] if isinstance(v, ast.DictComp) else v.elts)
                    sentinel = any(_has_minus_one_arm(e) or (
                        isinstance(e, (ast.ListComp, ast.List))
                        and _has_minus_one_arm(e)) for e in elts)
                if isinstance(v, ast.BinOp) and isinstance(v.op, ast.Mult) \
                        and isinstance(v.left, ast.List) and any(
                            const_value(e) == -1 for e in v.left.elts):
                    sentinel = True
                if sentinel:
                    tables[st.targets[0].id] = st
            # the loop form of the same table: `T = []` ... `T.append(<index>
            # if .. else -1)` / `T.append(-1)` next to other appends
            for c in ast.walk(f.node):
                if isinstance(c, ast.Call) and isinstance(
                        c.func, ast.Attribute) and c.func.attr == "append" \
                        and isinstance(c.func.value, ast.Name) and c.args \
                        and (_has_minus_one_arm(c.args[0])
                             or const_value(c.args[0]) == -1):
                    nm = c.func.value.id
                    init = [st for st in ast.walk(f.node)
                            if isinstance(st, ast.Assign)
                            and len(st.targets) == 1
                            and isinstance(st.targets[0], ast.Name)
                            and st.targets[0].id == nm
                            and isinstance(st.value, ast.List)
                            and not st.value.elts]
                    if init and nm not in tables:
                        tables[nm] = init[0]
            if not tables:
                continue
            r.analysed(f)
            pc = path_conditions(f.node)
            parents = f.module.parents

            def from_table(e):
                """e is an element of a sentinel table (T[..], T[..][..])"""
                while isinstance(e, ast.Subscript):
                    e = e.value
                return isinstance(e, ast.Name) and e.id in tables
            # loop / comprehension variables that run over table entries
            carriers = {}
            for x in ast.walk(f.node):
                gens = []
                if isinstance(x, ast.For):
                    gens = [(x.target, x.iter)]
                elif isinstance(x, (ast.ListComp, ast.GeneratorExp,
                                    ast.SetComp, ast.DictComp)):
                    gens = [(g.target, g.iter) for g in x.generators]
                for tg, it in gens:
                    if isinstance(tg, ast.Name) and from_table(it) \
                            and isinstance(it, ast.Subscript):
                        carriers[tg.id] = it

            def excludes_marker(test, var_text, pol=True):
                if isinstance(test, ast.UnaryOp) and isinstance(
                        test.op, ast.Not):
                    return excludes_marker(test.operand, var_text, not pol)
                if isinstance(test, ast.BoolOp) and isinstance(
                        test.op, ast.And) and pol:
                    return any(excludes_marker(v, var_text, True)
                               for v in test.values)
                if not (isinstance(test, ast.Compare)
                        and len(test.ops) == 1):
                    return False
                a, op, b = test.left, type(test.ops[0]), test.comparators[0]
                if ast.unparse(a) != var_text:
                    if ast.unparse(b) != var_text:
                        return False
                    a, b = b, a
                    op = {ast.Lt: ast.Gt, ast.Gt: ast.Lt, ast.LtE: ast.GtE,
                          ast.GtE: ast.LtE}.get(op, op)
                c = const_value(b)
                if not isinstance(c, int):
                    return False
                if pol:
                    return (op is ast.NotEq and c == -1) or (
                        op is ast.GtE and c == 0) or (op is ast.Gt
                                                      and c == -1)
                return (op is ast.Eq and c == -1) or (
                    op is ast.Lt and c == 0) or (op is ast.LtE and c == -1)
            for sub in ast.walk(f.node):
                if not isinstance(sub, ast.Subscript):
                    continue
                base = sub.value
                while isinstance(base, ast.Subscript):
                    base = base.value
                if isinstance(base, ast.Name) and base.id in tables:
                    continue          # indexing the table itself
                idx = sub.slice
                cands = [idx] if not isinstance(idx, ast.Tuple) \
                    else list(idx.elts)
                for ix in cands:
                    marker_idx = None
                    if isinstance(ix, ast.Name) and ix.id in carriers:
                        marker_idx = ix.id
                    elif isinstance(ix, ast.Subscript) and from_table(ix):
                        marker_idx = ast.unparse(ix)
                    if marker_idx is None:
                        continue
                    n += 1
                    # guards: path conditions of the statement, enclosing
                    # conditional expressions and comprehension filters
                    st = stmt_of(sub, parents)
                    guarded = any(excludes_marker(t, marker_idx, pol)
                                  for t, pol in pc.get(id(st), []))
                    cur = sub
                    while cur in parents and not guarded \
                            and not isinstance(cur, ast.stmt):
                        par = parents[cur]
                        if isinstance(par, ast.IfExp):
                            if cur is par.body and excludes_marker(
                                    par.test, marker_idx, True):
                                guarded = True
                            if cur is par.orelse and excludes_marker(
                                    par.test, marker_idx, False):
                                guarded = True
                        if isinstance(par, (ast.ListComp, ast.GeneratorExp,
                                            ast.SetComp, ast.DictComp)):
                            for g in par.generators:
                                if any(excludes_marker(c, marker_idx, True)
                                       for c in g.ifs):
                                    guarded = True
                        cur = par
                    inst = f"{f.qualname}:{ast.unparse(sub)[:40]}"
                    if guarded:
                        r.ok("SENT1", inst, loc(f, sub),
                             ast.unparse(sub)[:80],
                             "the -1 marker is excluded where it is used as "
                             "an index")
                    else:
                        r.violation(
                            "SENT1", f"{f.fq}|{ast.unparse(sub)[:50]}",
                            loc(f, sub), ast.unparse(sub)[:120],
                            f"`{marker_idx}` comes from a table that uses "
                            "-1 for 'no such small root' and is used as an "
                            f"index in `{ast.unparse(sub)[:50]}` with no "
                            "test excluding -1 in force: for the missing "
                            "case the LAST entry is addressed (here: the "
                            "last small root is marked as inverted after "
                            "every such letter), so words that are normal "
                            "forms are rejected", instance=inst)
    if n == 0:
        r.ok("SENT1", "modules", ",".join(rels), "",
             "no -1-marked table is used as an index")



def rule_bfs4(ctx):
    r = ctx.r
    r.rule("BFS4", "find_small_roots expands the roots in the order they "
                   "were found (an index over the growing list, or a FIFO "
                   "work-list): find_root_from_vector recognises a reflected "
                   "root only through neighbour links of roots expanded "
                   "EARLIER, so a depth-first order (`todo.pop()`) leaves "
                   "links unset and small roots unrecognised")
    f = ctx.p.get_function(CA, "find_small_roots")
    r.analysed(f)
    pops = [c for c in ast.walk(f.node) if isinstance(c, ast.Call)
            and isinstance(c.func, ast.Attribute)
            and c.func.attr in ("pop", "popleft", "popright")]
    inst = "find_small_roots:order"
    lifo = [c for c in pops if c.func.attr == "pop" and (
        not c.args or const_value(c.args[0]) == -1)]
    if lifo:
        r.violation(
            "BFS4", f"{f.fq}|lifo", loc(f, lifo[0]), dotted(lifo[0])[:80],
            f"`{dotted(lifo[0])[:40]}` takes the most recently found root "
            "first (depth-first): roots of smaller depth may not be "
            "expanded yet when a reflected root has to be recognised "
            "through their links, so it is not recognised and the set of "
            "small roots comes out wrong", instance=inst)
    else:
        r.ok("BFS4", inst, loc(f, f.node), "",
             "index loop / FIFO order" if not pops else "FIFO work-list")


def rule_diag1(ctx):
    r = ctx.r
    r.rule("DIAG1", "a Coxeter DIAGRAM lists only the edges with label >= 3 "
                    "(or infinity): two nodes that are not joined commute, "
                    "label 2. Where from_diagram builds the Coxeter matrix "
                    "from the edge dictionary it looks a PAIR up with a "
                    "default of 2 (`.get(g2, 2)`, a fill loop with "
                    "setdefault); a bare `d[g1][g2]` over all pairs raises "
                    "KeyError for every diagram that is not complete -- "
                    "A_n for n >= 3, the path 5-3-4, ...")
    COXF = "geometry_tools/coxeter.py"
    f = ctx.p.get_function(COXF, "CoxeterGroup.from_diagram")
    r.analysed(f)
    # loop / comprehension variables that run over the list of generators
    over = {}
    for x in ast.walk(f.node):
        gens = []
        if isinstance(x, ast.For):
            gens = [(x.target, x.iter)]
        elif isinstance(x, (ast.ListComp, ast.GeneratorExp, ast.SetComp,
                            ast.DictComp)):
            gens = [(g.target, g.iter) for g in x.generators]
        for tg, it in gens:
            if isinstance(tg, ast.Name):
                over[tg.id] = dotted(it)
    fills_default = any(
        isinstance(c, ast.Call) and isinstance(c.func, ast.Attribute)
        and c.func.attr == "setdefault" and len(c.args) == 2
        and const_value(c.args[1]) == 2 for c in ast.walk(f.node))
    n = 0
    for sub in ast.walk(f.node):
        if not (isinstance(sub, ast.Subscript) and isinstance(sub.ctx, ast.Load)
                and isinstance(sub.value, ast.Subscript)
                and isinstance(sub.slice, ast.Name)
                and isinstance(sub.value.slice, ast.Name)):
            continue
        a, b = sub.value.slice.id, sub.slice.id
        if a in over and b in over and over[a] == over[b] and a != b:
            n += 1
            inst = "from_diagram:pair-lookup"
            if fills_default:
                r.ok("DIAG1", inst, loc(f, sub), dotted(sub)[:60],
                     "missing pairs are filled with 2 beforehand")
            else:
                r.violation(
                    "DIAG1", f"{f.fq}|pair", loc(f, sub), dotted(sub)[:80],
                    f"`{dotted(sub)[:50]}` is evaluated for EVERY pair of "
                    "generators, but only the edges of the diagram were "
                    "stored: CoxeterGroup([('a','b',5),('b','c',3),"
                    "('c','d',4)]) raises KeyError('c') -- the diagram "
                    "route only works for complete diagrams", instance=inst)
    for c in ast.walk(f.node):
        if isinstance(c, ast.Call) and isinstance(c.func, ast.Attribute) \
                and c.func.attr == "get" and isinstance(
                    c.func.value, ast.Subscript) and c.args \
                and isinstance(c.args[0], ast.Name) \
                and c.args[0].id in over \
                and isinstance(c.func.value.slice, ast.Name) \
                and c.func.value.slice.id in over:
            n += 1
            d = const_value(c.args[1]) if len(c.args) > 1 else None
            inst = "from_diagram:pair-lookup"
            if d == 2:
                r.ok("DIAG1", inst, loc(f, c), dotted(c)[:60],
                     "non-adjacent nodes get the label 2")
            else:
                r.violation(
                    "DIAG1", f"{f.fq}|default", loc(f, c), dotted(c)[:80],
                    f"missing pairs get `{dotted(c.args[1]) if len(c.args) > 1 else 'None'}`; "
                    "two nodes that are not joined commute: the label is 2",
                    instance=inst)
    if n == 0:
        r.note("DIAG1", loc(f, f.node), "from_diagram",
               "no lookup of a generator pair in the edge dictionary "
               "(not judged)")
