"""T1 -- dtype-probe validity (np.can_cast on a dtype-less value)."""
import ast

from ..project import AnalysisError, FunctionInfo, loc, norm_stmt
from .common import const_value
from ..flow import dotted, eval_test
from ..norm import single_defs

TYPES_REL = "geometry_tools/utils/types.py"
CORE_REL = "geometry_tools/utils/core.py"

DTYPE_FUNCS = {"np.dtype", "np.result_type", "np.min_scalar_type",
               "np.promote_types", "np.common_type", "type",
               "np.find_common_type"}
TYPE_NAMES = {"int", "float", "complex", "bool", "object"}

SAGE_FLAGS = {"SAGE_AVAILABLE": False}


def _sage_test(test):
    """Evaluate a test under 'Sage is not installed'."""
    class T(ast.NodeTransformer):
        def visit_Attribute(self, n):
            if n.attr == "SAGE_AVAILABLE":
                return ast.copy_location(ast.Name("SAGE_AVAILABLE",
                                                  ast.Load()), n)
            return self.generic_visit(n)
    import copy
    t = T().visit(copy.deepcopy(test))
    return eval_test(t, SAGE_FLAGS)


def sage_dead(f, node):
    """Is `node` unreachable when SAGE_AVAILABLE is False?"""
    parents = f.module.parents
    cur = node
    while cur is not f.node:
        par = parents[cur]
        if isinstance(par, ast.If):
            t = _sage_test(par.test)
            if t is True and cur in par.orelse:
                return True
            if t is False and cur in par.body:
                return True
        if isinstance(par, ast.BoolOp) and cur in par.values:
            i = par.values.index(cur)
            for v in par.values[:i]:
                t = _sage_test(v)
                if isinstance(par.op, ast.Or) and t is True:
                    return True
                if isinstance(par.op, ast.And) and t is False:
                    return True
        if isinstance(par, ast.IfExp):
            t = _sage_test(par.test)
            if (t is True and cur is par.orelse) or \
                    (t is False and cur is par.body):
                return True
        # earlier unconditional exit under `if not SAGE_AVAILABLE:`
        for fld in ("body", "orelse", "finalbody"):
            body = getattr(par, fld, None)
            if isinstance(body, list) and cur in body:
                for prev in body[:body.index(cur)]:
                    if isinstance(prev, ast.If) and _sage_test(prev.test) \
                            is True and prev.body and isinstance(
                                prev.body[-1], (ast.Return, ast.Raise)):
                        return True
        cur = par
    return False


def dtype_kind(e, defs, params, depth=0):
    """'dtype' | 'param:<i>' | 'value' | 'unknown'"""
    if isinstance(e, ast.Attribute) and e.attr in ("dtype", "type"):
        return "dtype"
    if isinstance(e, ast.Call):
        n = dotted(e.func)
        if n in DTYPE_FUNCS:
            return "dtype"
        if n == "getattr" and len(e.args) >= 2 \
                and isinstance(e.args[1], ast.Constant) \
                and e.args[1].value == "dtype":
            return "dtype"
    if isinstance(e, ast.Constant):
        if isinstance(e.value, str):
            return "dtype"
        return "value"
    if isinstance(e, ast.Name):
        if e.id in TYPE_NAMES:
            return "dtype"
        if e.id in defs and depth < 4:
            return dtype_kind(defs[e.id], defs, params, depth + 1)
        if e.id in params:
            return f"param:{params.index(e.id)}"
        if e.id in ("dtype", "_dtype"):
            return "dtype"
    if isinstance(e, (ast.List, ast.Tuple, ast.BinOp)):
        return "value"
    return "unknown"


def _dtypeless_in_handler(f, call, arg):
    """Is the call inside `except AttributeError:` of a try whose body reads
    <arg>.dtype ?  (then arg certainly has no dtype: a Python scalar/list)"""
    parents = f.module.parents
    cur = call
    txt = dotted(arg)
    while cur is not f.node:
        par = parents[cur]
        if isinstance(par, ast.ExceptHandler) and par.type is not None \
                and "AttributeError" in dotted(par.type):
            tr = parents[par]
            if isinstance(tr, ast.Try):
                for s in tr.body:
                    for n in ast.walk(s):
                        if isinstance(n, ast.Attribute) and n.attr == "dtype" \
                                and dotted(n.value) == txt:
                            return True
        cur = par
    return False


def _isinstance_guarded(f, call, arg):
    parents = f.module.parents
    cur = call
    txt = dotted(arg)
    while cur is not f.node:
        par = parents[cur]
        tests = []
        if isinstance(par, ast.BoolOp) and cur in par.values:
            tests = par.values[:par.values.index(cur)]
        elif isinstance(par, ast.If):
            tests = [par.test]
        for t in tests:
            for n in ast.walk(t):
                if isinstance(n, ast.Call) and dotted(n.func) == "isinstance" \
                        and n.args and dotted(n.args[0]) == txt:
                    return True
        cur = par
    return False


def rule_t1(ctx, entry_table, what):
    """entry_table: [(rel, qualname)] factories whose scalar parameters reach
    the dtype inference."""
    r = ctx.r
    r.rule("T1", "the first argument of np.can_cast is of dtype kind "
                 "(X.dtype, np.dtype(..), np.asarray(..).dtype, "
                 "np.result_type(..), a type name); a bare value that is "
                 "certainly dtype-less (it reached the probe from "
                 "check_type's `except AttributeError` arm) raises TypeError "
                 "on every NumPy >= 2 (NEP 50), which the probe swallows and "
                 "turns into dtype('O')")
    r.rule("T1e", "enumeration: which of the property's factories reach "
                  "the dtype inference (check_type) in the call graph")
    p = ctx.p
    ents = [p.get_function(rel, q) for rel, q in entry_table]
    reach = ctx.cg.reachable(ents)
    ct = p.get_function(CORE_REL, "check_type")
    # 1. all can_cast sites
    probes = {}
    n_sites = 0
    for f in p.all_functions:
        if f.parent is not None:
            continue
        defs = None
        for n in ast.walk(f.node):
            if isinstance(n, ast.Call) and dotted(n.func) in (
                    "np.can_cast", "numpy.can_cast") and n.args:
                if f.module.rel.endswith("sagewrap.py") or sage_dead(f, n):
                    continue
                if defs is None:
                    defs = single_defs(f.node)
                k = dtype_kind(n.args[0], defs, f.params)
                n_sites += 1
                if k == "dtype":
                    r.ok("T1", f"{f.qualname}:{dotted(n)[:60]}", loc(f, n),
                         dotted(n)[:100], "first argument is of dtype kind")
                    r.analysed(f)
                elif k.startswith("param:"):
                    probes.setdefault(f, []).append((n, int(k[6:])))
                elif k == "value":
                    r.analysed(f)
                    r.violation(
                        "T1", f"{f.fq}|{dotted(n)}", loc(f, n),
                        dotted(n)[:120],
                        "np.can_cast is given a Python value: TypeError on "
                        "NumPy >= 2", instance=f"{f.qualname}:can_cast")
                else:
                    r.note("T1", loc(f, n), dotted(n)[:100],
                           "cannot classify the probe argument; not judged")
    if n_sites == 0:
        r.ok("T1", "np.can_cast", "", "", "no np.can_cast probe in the "
             "package")
    # 2. callers of probe functions
    for g, plist in probes.items():
        r.analysed(g)
        for site, idx in plist:
            bad_callers = []
            for cs in ctx.cg.callers.get(g, []):
                c = cs.caller
                while c.parent is not None:
                    c = c.parent
                if sage_dead(cs.caller, cs.node):
                    continue
                if idx >= len(cs.node.args):
                    continue
                arg = cs.node.args[idx]
                dtypeless = _dtypeless_in_handler(cs.caller, cs.node, arg)
                kind = dtype_kind(arg, single_defs(cs.caller.node),
                                  [], 0)
                if _isinstance_guarded(cs.caller, cs.node, arg):
                    continue
                if dtypeless or kind == "value":
                    bad_callers.append((c, cs, dtypeless))
            inst = f"{g.qualname}:{dotted(site)[:60]}"
            if not bad_callers:
                r.ok("T1", inst, loc(g, site), dotted(site)[:100],
                     f"parameter `{g.params[idx]}` is only fed values that "
                     "have a dtype on the live (no-Sage) paths")
                continue
            flows = {}
            feas = None
            for c, cs, d in bad_callers:
                arg = cs.node.args[idx]
                if not isinstance(arg, ast.Name) or arg.id not in c.params:
                    if c in reach:
                        feas = (c, cs, None)
                    continue
                fl = like_flow(ctx, ents, c, arg.id)
                good = {e: pth for e, pth in fl.items() if pth}
                if good:
                    flows = good
                    feas = (c, cs, good)
                    break
            if feas is None:
                r.note("T1", loc(g, site), dotted(site)[:100],
                       "a dtype-less value can reach this probe, but no flow "
                       "of a Python scalar / list from this property's entry "
                       "points to it was found (latent)")
                r.ok("T1", inst, loc(g, site), dotted(site)[:100],
                     "no scalar flow from the entry points")
                continue
            c, cs, good = feas
            if good:
                first = next(iter(good))
                path = good[first] + [f"{c.qualname} --[except "
                                      f"AttributeError]--> {g.qualname}"]
                hit = list(good)
            else:
                path = ctx.cg.path_to(reach, c) + [g.qualname]
                hit = [e for e in ents if c in ctx.cg.reachable([e])]
            r.violation(
                "T1", f"{g.fq}|np.can_cast({g.params[idx]}, ...)",
                loc(g, site), dotted(site)[:120],
                f"`{g.params[idx]}` is passed bare to np.can_cast, and "
                f"{c.qualname} ({loc(cs.caller, cs.node)}) sends it exactly "
                "the values that have no .dtype (Python scalars, nested "
                "lists): on NumPy >= 2 can_cast raises TypeError, the probe "
                "returns False and the inferred dtype is object -- " + what
                + f" [a Python scalar/list flows to it from {len(hit)} of "
                f"{len(ents)} entry points: "
                + ", ".join(e.qualname for e in hit[:10]) + "]",
                instance=inst, path=path)
            for e in ents:
                if good and e in good:
                    r.violation(
                        "T1", f"{g.fq}|np.can_cast({g.params[idx]}, ...)",
                        loc(g, site), dotted(site)[:120], "(see first report)",
                        instance=f"flow:{e.qualname}", path=good[e])
                elif good:
                    r.ok("T1", f"flow:{e.qualname}", loc(e, e.node), "",
                         "no Python-scalar `like` flows from this entry to "
                         "the probe")
    # 3. per-entry evidence: which factories reach the dtype inference
    for e in ents:
        sub = ctx.cg.reachable([e])
        if ct in sub:
            r.ok("T1e", f"entry:{e.qualname}", loc(e, e.node), "",
                 "reaches check_type: " + " -> ".join(ctx.cg.path_to(sub, ct)))
        else:
            r.note("T1", loc(e, e.node), e.qualname,
                   "does not reach check_type (no dtype inference on this "
                   "path)")
    return probes


# ---------------------------------------------------------------------------
# like-flow: does a dtype-less scalar/list reach check_type(like=...) ?

PYSCALAR_FUNCS = {"utils.pi", "pi", "utils.number", "number", "utils.scalar",
                  "scalar", "float", "int", "utils.unit_imag"}
HAS_DTYPE_FUNCS = {"np.array", "np.asarray", "np.zeros", "np.ones",
                   "np.identity", "utils.zeros", "utils.identity",
                   "utils.array_like", "zeros", "identity", "array_like",
                   "np.stack", "np.concatenate", "np.cos", "np.sin"}


def _carrying_locals(f, start):
    """Names in f that may hold a dtype-less Python scalar / nested list."""
    C = set(start)

    def carrying(e):
        if isinstance(e, ast.Name):
            return e.id in C
        if isinstance(e, ast.Constant):
            return isinstance(e.value, (int, float, complex)) \
                and not isinstance(e.value, bool)
        if isinstance(e, ast.Attribute) and dotted(e) in ("np.pi", "numpy.pi",
                                                         "math.pi"):
            return True
        if isinstance(e, ast.BinOp):
            return carrying(e.left) or carrying(e.right)
        if isinstance(e, ast.UnaryOp):
            return carrying(e.operand)
        if isinstance(e, (ast.List, ast.Tuple)):
            return True
        if isinstance(e, ast.Call):
            n = dotted(e.func)
            if n in PYSCALAR_FUNCS:
                return True
            return False
        if isinstance(e, ast.IfExp):
            return carrying(e.body) or carrying(e.orelse)
        return False
    changed = True
    while changed:
        changed = False
        for n in ast.walk(f.node):
            if isinstance(n, ast.Assign) and len(n.targets) == 1 \
                    and isinstance(n.targets[0], ast.Name):
                if n.targets[0].id not in C and carrying(n.value) \
                        and not sage_dead(f, n):
                    C.add(n.targets[0].id)
                    changed = True
    return C, carrying


def like_flow(ctx, ents, goal, goal_param="like"):
    """BFS over (function, carrying parameter). -> {entry: path or None}"""
    from collections import deque
    out = {}
    for e in ents:
        start = [p for p in e.params if p not in ("self", "cls")]
        seen = {}
        work = deque()
        st0 = (e, frozenset(start))
        seen[(e, None)] = None
        work.append((e, frozenset(start), None))
        found = None
        visited = set()
        if e is goal and goal_param in start:
            out[e] = [f"{e.qualname}({goal_param}) is itself the inference "
                      "entry"]
            continue
        while work and found is None:
            f, carry, prev = work.popleft()
            key = (f, carry)
            if key in visited:
                continue
            visited.add(key)
            C, carrying = _carrying_locals(f, carry)
            for cs in ctx.cg.sites.get(f, []):
                call = cs.node
                if sage_dead(f, call):
                    continue
                if cs.kind not in ("func", "method", "ctor"):
                    continue
                for t in cs.targets:
                    g = t
                    bound = False
                    if not isinstance(g, FunctionInfo):
                        g = ctx.p.find_method(t, "__init__")
                        bound = True
                        if g is None:
                            continue
                    elif g.cls is not None and not g.is_static:
                        unbound_style = isinstance(call.func, ast.Attribute) \
                            and not isinstance(ctx.p.resolve_expr(
                                f.module, call.func.value), type(None)) \
                            and hasattr(ctx.p.resolve_expr(
                                f.module, call.func.value), "methods")
                        bound = not unbound_style
                    params = g.params[1:] if bound else g.params
                    carried = set()
                    for i, a in enumerate(call.args):
                        if isinstance(a, ast.Starred):
                            continue
                        if i < len(params) and carrying(a):
                            carried.add(params[i])
                    for k in call.keywords:
                        if k.arg is None:
                            if isinstance(k.value, ast.Name) \
                                    and ("**like" in C) :
                                if "like" in g.params + g.kwonly:
                                    carried.add("like")
                                elif g.has_kwargs:
                                    carried.add("**like")
                            continue
                        if carrying(k.value):
                            if k.arg in g.params + g.kwonly:
                                carried.add(k.arg)
                            elif g.has_kwargs and k.arg == "like":
                                carried.add("**like")
                    if not carried:
                        continue
                    node = (g, frozenset(carried))
                    step = (f, sorted(carry & set(f.params)) or sorted(carry),
                            g, sorted(carried), prev, loc(f, call))
                    if g is goal and goal_param in carried:
                        found = step
                        break
                    work.append((g, frozenset(carried), step))
                if found:
                    break
        if found is None:
            out[e] = None
        else:
            path = []
            st = found
            while st is not None:
                f, fc, g, gc, prev, where = st
                path.append(f"{f.qualname} --[{','.join(gc)}]--> "
                            f"{g.qualname} ({where})")
                st = prev
            out[e] = list(reversed(path))
    return out


def rule_t2(ctx):
    r = ctx.r
    r.rule("T2", "check_type never derives the dtype from the VALUE of a "
                 "`like` argument (np.asarray(like).dtype, "
                 "np.result_type(like), ...): a Python int or a list of "
                 "ints would yield an integer dtype, whereas real numeric "
                 "input must yield floating-point data; only like.dtype "
                 "(an existing array's dtype) may be copied")
    f = ctx.p.get_function(CORE_REL, "check_type")
    r.analysed(f)
    bad = []
    unknown = []
    n = 0
    VALUE_INFER = {"np.asarray", "np.array", "np.asanyarray",
                   "np.result_type", "np.min_scalar_type", "np.obj2sctype",
                   "np.common_type", "np.atleast_1d", "np.dtype", "type",
                   "np.can_cast", "np.promote_types", "np.ravel",
                   "np.squeeze", "np.stack", "np.concatenate"}

    def scan(expr, name, owner, depth=0):
        """calls inside expr that take `name` by value"""
        for c in ast.walk(expr):
            if not isinstance(c, ast.Call):
                continue
            idx = [i for i, a in enumerate(c.args)
                   if isinstance(a, ast.Name) and a.id == name]
            kws = [k.arg for k in c.keywords if k.arg
                   and isinstance(k.value, ast.Name) and k.value.id == name]
            if not idx and not kws:
                continue
            fn = dotted(c.func)
            if fn in VALUE_INFER:
                yield ("bad", c)
                continue
            g = None
            if isinstance(c.func, ast.Name):
                try:
                    g = ctx.p.get_function(CORE_REL, c.func.id)
                except AnalysisError:
                    g = None
            if g is None or depth >= 2:
                if fn.endswith("is_linalg_type") or fn in (
                        "isinstance", "hasattr", "getattr"):
                    continue
                yield ("unknown", c)
                continue
            r.analysed(g)
            params = [g.params[i] for i in idx if i < len(g.params)] + kws
            for pn in params:
                for x in ast.walk(g.node):
                    if isinstance(x, ast.Return) and x.value is not None:
                        yield from scan(x.value, pn, g, depth + 1)
                    if isinstance(x, ast.Assign):
                        yield from scan(x.value, pn, g, depth + 1)
    for st in ast.walk(f.node):
        if isinstance(st, ast.Assign) and any(
                dotted(t) == "dtype" for t in st.targets):
            n += 1
            for kind, c in scan(st.value, "like", f):
                (bad if kind == "bad" else unknown).append((st, c))
    for st, c in unknown:
        r.note("T2", loc(f, st), norm_stmt(st)[:120],
               f"`{dotted(c)[:60]}` receives `like`; the callee is not a "
               "function of utils/core.py the rule can read (not judged)")
    if not bad:
        r.ok("T2", "check_type", loc(f, f.node), "",
             f"{n} assignment(s) to dtype; none computed from the value of "
             "`like`")
    for st, c in bad:
        r.violation(
            "T2", f"{f.fq}|{norm_stmt(st)}", loc(f, st), norm_stmt(st)[:160],
            f"`{dotted(c)}` infers the dtype from the value of `like`: a "
            "Python int (standard_rotation(1), a Coxeter label) or a nested "
            "list of ints gives int64, the float entries written into the "
            "array afterwards are truncated and inverse / eigenvalue "
            "routines fail or return garbage", instance="check_type")


# ---------------------------------------------------------------------------
# T3: float results are never written into a caller-typed buffer
# LK1: a `like=`-typed buffer that receives computed values is inexact

FACTORIES = {"utils.zeros", "utils.ones", "zeros", "ones", "utils.identity",
             "identity"}
_INT_GUARD_WORDS = ("issubdtype", "np.integer", ".dtype.kind", "inexact",
                    "np.floating", "is_integer")


def _has_int_guard(f, name):
    """an `if` testing the dtype of `name` for integer-ness whose body
    rebinds `name` to a re-typed array"""
    for n in ast.walk(f.node):
        if not isinstance(n, ast.If):
            continue
        t = dotted(n.test)
        if name in t and any(w in t for w in _INT_GUARD_WORDS):
            for b in n.body:
                for x in ast.walk(b):
                    if isinstance(x, ast.Assign) and any(
                            dotted(tg) == name for tg in x.targets) and (
                            "astype" in dotted(x.value)
                            or "dtype=" in dotted(x.value)):
                        return True
    return False


def _retypes_integers(g):
    """g(x, ...) returns x unless its dtype is an integer type, in which
    case it returns a re-typed copy (either polarity of the test)."""
    if not g.params:
        return False
    x = g.params[0]
    for n in ast.walk(g.node):
        if not isinstance(n, ast.If):
            continue
        t = dotted(n.test)
        if x in t and any(w in t for w in _INT_GUARD_WORDS):
            for arm in (n.body, n.orelse or g.node.body[g.node.body.index(n) + 1:]
                        if n in g.node.body else n.orelse):
                for st in arm:
                    for y in ast.walk(st):
                        if isinstance(y, ast.Return) and y.value is not None \
                                and ("astype" in dotted(y.value)
                                     or "dtype=" in dotted(y.value)):
                            return True
    return False


def _helper_sites_retyped(ctx, f, tgt):
    """f is a private module-level helper: every call site passes, for the
    parameter `tgt`, a value that went through an integer re-typing."""
    if f.parent is not None or not f.node.name.startswith("_") \
            or f.cls is not None:
        return False
    pos = f.params.index(tgt)
    sites = 0
    for g in ctx.p.all_functions:
        if g.module is not f.module:
            continue
        for c in ast.walk(g.node):
            if not (isinstance(c, ast.Call)
                    and dotted(c.func) == f.node.name):
                continue
            sites += 1
            arg = c.args[pos] if pos < len(c.args) else next(
                (k.value for k in c.keywords if k.arg == tgt), None)
            if arg is None:
                return False
            ok = False
            if isinstance(arg, ast.Call):
                h = next((h for h in ctx.p.all_functions
                          if h.module is f.module and h.parent is None
                          and h.cls is None
                          and h.node.name == dotted(arg.func)), None)
                ok = h is not None and _retypes_integers(h)
                ok = ok or "astype" in dotted(arg)
            elif isinstance(arg, ast.Name):
                ok = _has_int_guard(g, arg.id) or any(
                    isinstance(x, ast.Assign) and any(
                        dotted(t) == arg.id for t in x.targets)
                    and x.lineno < c.lineno and isinstance(
                        x.value, ast.Call) and any(
                        h.node.name == dotted(x.value.func)
                        and _retypes_integers(h)
                        for h in ctx.p.all_functions
                        if h.module is f.module and h.parent is None
                        and h.cls is None)
                    for x in ast.walk(g.node))
            if not ok:
                return False
    return sites > 0


def rule_t3(ctx, rels):
    r = ctx.r
    r.rule("T3", "a true division is never written in place into an array "
                 "whose dtype is the caller's (`x /= d`, "
                 "`np.divide(x, d, out=x)` with x a parameter) unless an "
                 "integer-dtype test re-types x first: integer-typed input "
                 "(a list of Python ints) makes NumPy raise "
                 "UFuncTypeError, i.e. the result depends on how the same "
                 "numbers were packaged")
    n_sites = 0
    for rel in rels:
        m = ctx.p.module_by_rel(rel)
        for f in ctx.p.all_functions:
            if f.module is not m:
                continue
            params = set(f.params)
            for n in ast.walk(f.node):
                tgt = None
                if isinstance(n, ast.AugAssign) and isinstance(
                        n.op, ast.Div) and isinstance(n.target, ast.Name):
                    tgt = n.target.id
                if isinstance(n, ast.Call) and dotted(n.func) in (
                        "np.divide", "np.true_divide"):
                    for k in n.keywords:
                        if k.arg == "out" and isinstance(k.value, ast.Name):
                            tgt = k.value.id
                if tgt is None or tgt not in params:
                    continue
                # is the parameter rebound to a fresh inexact array first?
                rebound = any(
                    isinstance(x, ast.Assign) and any(
                        dotted(t) == tgt for t in x.targets)
                    and x.lineno < n.lineno
                    and ("dtype=" in dotted(x.value)
                         or "astype" in dotted(x.value))
                    for x in ast.walk(f.node))
                n_sites += 1
                r.analysed(f)
                inst = f"{f.qualname}:{tgt}"
                if rebound or _has_int_guard(f, tgt):
                    r.ok("T3", inst, loc(f, n), dotted(n)[:100],
                         "the buffer is re-typed before the in-place "
                         "division")
                elif _helper_sites_retyped(ctx, f, tgt):
                    r.ok("T3", inst, loc(f, n), dotted(n)[:100],
                         "private helper: every call site passes a buffer "
                         "that went through the integer re-typing")
                else:
                    r.violation(
                        "T3", f"{f.fq}|inplace-div:{tgt}", loc(f, n),
                        dotted(n)[:140],
                        f"`{tgt}` is a parameter and receives a true "
                        "division in place: for integer-typed data "
                        "(Point([0, 0], model=Model.KLEIN), "
                        "Point(np.array([1, 0, 0]))) NumPy raises "
                        "UFuncTypeError in distance / origin_to / "
                        "hyperboloid coordinates, while the same numbers "
                        "as floats work", instance=inst)
    return n_sites


def rule_lk1(ctx, rels, scope=None):
    r = ctx.r
    r.rule("LK1", "a buffer created by utils.zeros / ones / identity takes "
                  "the dtype of its `like=` value (or of a dtype obtained "
                  "from check_type(**kwargs)); if computed values (a call "
                  "or a division) are written into it (item assignment or "
                  "augmented item assignment), the factory / check_type "
                  "must be told integer_type=False or be given a literal "
                  "inexact dtype, otherwise integer-typed input (a Python "
                  "int angle, an integer matrix) truncates them silently; "
                  "values that are the `like` value itself, a factory "
                  "result typed like it, or a literal are fine")
    n_sites = 0
    for rel in rels:
        m = ctx.p.module_by_rel(rel)
        for f in ctx.p.all_functions:
            if f.module is not m:
                continue
            if scope is not None and f not in scope:
                continue
            bufs = {}
            likedefs = set()
            # locals that are always inexact: outputs of LAPACK routines and
            # of transcendental functions
            inexact_locals = set()
            for n in ast.walk(f.node):
                if isinstance(n, ast.Assign) and isinstance(
                        n.value, ast.Call) and dotted(n.value.func) in (
                        "utils.eig", "np.linalg.eig", "np.linalg.eigh",
                        "utils.eigh", "np.linalg.inv", "utils.invert",
                        "np.linalg.svd", "np.linalg.qr", "np.sqrt",
                        "np.cos", "np.sin", "np.exp", "np.arccosh",
                        "np.linalg.solve"):
                    for t in n.targets:
                        for x in ast.walk(t):
                            if isinstance(x, ast.Name) and x.id not in \
                                    f.params:
                                inexact_locals.add(x.id)
            for n in ast.walk(f.node):
                if isinstance(n, (ast.Assign, ast.AugAssign)):
                    tg = n.targets if isinstance(n, ast.Assign) \
                        else [n.target]
                    good = isinstance(n, ast.Assign) and isinstance(
                        n.value, ast.Call) and dotted(n.value.func) in (
                        "utils.eig", "np.linalg.eig", "np.linalg.eigh",
                        "utils.eigh", "np.linalg.inv", "utils.invert",
                        "np.linalg.svd", "np.linalg.qr", "np.sqrt",
                        "np.cos", "np.sin", "np.exp", "np.arccosh",
                        "np.linalg.solve")
                    if not good and isinstance(n, ast.Assign):
                        # re-arranging / taking parts of inexact locals
                        # keeps them inexact
                        names = {x.id for x in ast.walk(n.value)
                                 if isinstance(x, ast.Name)
                                 and x.id not in ("np", "utils")}
                        if names and names <= inexact_locals and \
                                "astype" not in dotted(n.value):
                            good = True
                    if not good:
                        for t in tg:
                            for x in ast.walk(t):
                                if isinstance(x, ast.Name) and isinstance(
                                        x.ctx, ast.Store):
                                    inexact_locals.discard(x.id)
            # dtypes obtained from check_type without integer_type=False
            loose_dtypes = set()
            for n in ast.walk(f.node):
                if isinstance(n, ast.Assign) and isinstance(n.value, ast.Call) \
                        and dotted(n.value.func).endswith("check_type") \
                        and isinstance(n.targets[0], ast.Tuple) \
                        and len(n.targets[0].elts) == 2:
                    kw = {k.arg: k.value for k in n.value.keywords if k.arg}
                    it = kw.get("integer_type")
                    strict = isinstance(it, ast.Constant) \
                        and it.value is False
                    # integer_type=kwargs.pop("integer_type", False)
                    if isinstance(it, ast.Call) and isinstance(
                            it.func, ast.Attribute) \
                            and it.func.attr in ("pop", "get") \
                            and len(it.args) == 2 \
                            and isinstance(it.args[1], ast.Constant) \
                            and it.args[1].value is False:
                        strict = True
                    if not strict:
                        loose_dtypes.add(dotted(n.targets[0].elts[1]))
            for n in ast.walk(f.node):
                if isinstance(n, ast.Assign) and len(n.targets) == 1 \
                        and isinstance(n.targets[0], ast.Name) \
                        and isinstance(n.value, ast.Call):
                    fn = dotted(n.value.func)
                    kw = {k.arg: k.value for k in n.value.keywords if k.arg}
                    if fn in FACTORIES:
                        it = kw.get("integer_type")
                        exact_ok = isinstance(it, ast.Constant) \
                            and it.value is False
                        dt = kw.get("dtype")
                        pos = list(n.value.args)
                        if dt is None and len(pos) >= 3:
                            dt = pos[2]      # (shape, base_ring, dtype)
                        lit_dtype = dt is not None and (
                            (isinstance(dt, ast.Constant)
                             and isinstance(dt.value, str)
                             and ("float" in dt.value
                                  or "complex" in dt.value))
                            or dotted(dt) in ("float", "complex",
                                              "np.float64", "np.complex128"))
                        src = None
                        if "like" in kw:
                            src = dotted(kw["like"])
                            if isinstance(kw["like"], ast.Name) and \
                                    kw["like"].id in inexact_locals:
                                src = None   # typed like an inexact result
                        elif dt is not None and dotted(dt) in loose_dtypes:
                            src = f"<{dotted(dt)} from check_type>"
                        elif dt is not None and dotted(dt) in (
                                "self.dtype", "self._dtype"):
                            # typed like the object's summary dtype: word
                            # values (inverse letters of integer
                            # generators) can be wider
                            src = "<self.dtype>"
                        if src is not None:
                            bufs[n.targets[0].id] = (n, src, exact_ok,
                                                     lit_dtype)
                    if fn in ("np.empty_like", "np.zeros_like",
                              "np.ones_like", "np.full_like") \
                            and n.value.args and "dtype" not in kw:
                        a0 = n.value.args[0]
                        # only caller-typed sources: a parameter or the
                        # object's own data (a computed local such as a
                        # norm is already inexact)
                        if (isinstance(a0, ast.Name) and a0.id in f.params) \
                                or (isinstance(a0, ast.Attribute)
                                    and dotted(a0).startswith("self.")):
                            bufs[n.targets[0].id] = (n, dotted(a0), False,
                                                     False)
                    if fn in ("np.empty", "np.zeros", "np.ones", "np.full") \
                            and "dtype" in kw and dotted(kw["dtype"]).endswith(
                                ("dtype", "_dtype")):
                        bufs[n.targets[0].id] = (n, dotted(kw["dtype"]),
                                                 False, False)
                    if (fn.startswith("utils.") or fn in (
                            "zeros", "ones", "identity", "number",
                            "array_like")) and "like" in kw:
                        likedefs.add((n.targets[0].id, dotted(kw["like"])))
            for n in ast.walk(f.node):
                if isinstance(n, ast.Assign):
                    tgts, v = n.targets, n.value
                elif isinstance(n, ast.AugAssign):
                    tgts, v = [n.target], n.value
                else:
                    continue
                for t in tgts:
                    if not (isinstance(t, ast.Subscript)
                            and isinstance(t.value, ast.Name)
                            and t.value.id in bufs):
                        continue
                    d, like, exact_ok, lit_dtype = bufs[t.value.id]
                    # a stored local with one definition stands for that
                    # definition (`re = utils.real(mat); buf[..] = re`)
                    sd0 = single_defs(f.node)

                    def _res(e, depth=0):
                        if isinstance(e, ast.UnaryOp) and isinstance(
                                e.operand, ast.Name):
                            inner = _res(e.operand, depth)
                            if inner is not e.operand:
                                return ast.UnaryOp(e.op, inner)
                            return e
                        if depth < 4 and isinstance(e, ast.Name) \
                                and e.id in sd0 and e.id not in f.params \
                                and (e.id, like) not in likedefs \
                                and e.id not in inexact_locals \
                                and isinstance(sd0[e.id], ast.Call) \
                                and dotted(sd0[e.id].func) in (
                                    "utils.real", "utils.imag", "np.real",
                                    "np.imag", "np.conjugate",
                                    "utils.conjugate"):
                            return sd0[e.id]
                        return e
                    v = _res(v)
                    safe = isinstance(v, ast.Constant) or dotted(v) == like \
                        or (isinstance(v, ast.Name)
                            and (v.id, like) in likedefs)
                    if isinstance(v, ast.UnaryOp) and isinstance(
                            v.operand, ast.Constant):
                        safe = True
                    core_v = v.operand if isinstance(v, ast.UnaryOp) else v
                    if isinstance(core_v, ast.Call) and dotted(
                            core_v.func) in ("utils.number", "number") \
                            and core_v.args:
                        a0 = core_v.args[0]
                        if isinstance(a0, ast.UnaryOp):
                            a0 = a0.operand
                        if isinstance(a0, ast.Constant) and isinstance(
                                a0.value, int) and not isinstance(
                                    a0.value, bool):
                            safe = True  # an integer literal: exact in
                            #              every dtype the buffer can have
                    if isinstance(core_v, ast.Call) and dotted(
                            core_v.func) in (
                            "utils.real", "utils.imag", "np.real", "np.imag",
                            "np.conjugate", "utils.conjugate") \
                            and core_v.args \
                            and dotted(core_v.args[0]) == like:
                        safe = True      # a part of the `like` value itself
                    if isinstance(v, ast.Call) and dotted(v.func) in (
                            "utils.number", "utils.zeros", "utils.ones",
                            "utils.identity", "number", "zeros", "ones",
                            "identity") and any(
                            k.arg == "like" and dotted(k.value) == like
                            for k in v.keywords) and not any(
                            isinstance(x, ast.Call) and dotted(x.func) in (
                                "np.cos", "np.sin", "utils.cos", "utils.sin",
                                "cos", "sin", "np.sqrt", "np.exp")
                            for a in v.args for x in ast.walk(a)):
                        safe = True          # typed like the same source
                    if isinstance(v, ast.Name) and any(
                            isinstance(x, ast.Assign)
                            and dotted(x.targets[0]) == like
                            and (dotted(x.value) == v.id or (
                                isinstance(x.value, ast.IfExp) and v.id in (
                                    dotted(x.value.body),
                                    dotted(x.value.orelse))))
                            for x in ast.walk(f.node)):
                        safe = True          # `like = v` (default source)
                    if isinstance(v, ast.Name) and v.id in f.params \
                            and isinstance(n, ast.Assign):
                        # a block of caller data copied into the buffer:
                        # same provenance as `like` in these constructors
                        safe = True
                    # entries of the `like` value itself, gathered /
                    # re-arranged (np.take_along_axis, squeeze, swapaxes ...)
                    REARRANGE = ("np.take_along_axis", "np.squeeze",
                                 "np.expand_dims", "np.swapaxes",
                                 "np.moveaxis", "np.take", "np.roll",
                                 "np.flip", "np.transpose", "np.copy")
                    vnames = {x.id for x in ast.walk(v)
                              if isinstance(x, ast.Name)
                              and x.id not in ("np", "utils")}
                    gathered = {a for a, b in likedefs if b == like}
                    sd = single_defs(f.node)
                    grew = True
                    while grew:
                        grew = False
                        for nm, val in sd.items():
                            if nm in gathered or not (
                                    isinstance(val, ast.Call)
                                    and dotted(val.func) in REARRANGE
                                    and val.args):
                                continue
                            root0 = dotted(val.args[0]).split(".")[0] \
                                .split("[")[0]
                            if root0 == like.split(".")[0] \
                                    or root0 in gathered:
                                gathered.add(nm)
                                grew = True
                    if not like.startswith("<") and vnames and all(
                            isinstance(c, ast.Call) and (
                                dotted(c.func) in REARRANGE or (
                                    isinstance(c.func, ast.Attribute)
                                    and c.func.attr in (
                                        "squeeze", "swapaxes", "copy",
                                        "reshape", "transpose")))
                            for c in ast.walk(v)
                            if isinstance(c, ast.Call)) and not any(
                            isinstance(x, ast.BinOp) for x in ast.walk(v)):
                        roots = {x.id for x in ast.walk(v)
                                 if isinstance(x, ast.Name)
                                 and isinstance(x.ctx, ast.Load)
                                 and x.id not in ("np", "utils")}
                        # names used only as indices do not matter
                        data_roots = set()
                        for c in ast.walk(v):
                            if isinstance(c, ast.Call) and c.args:
                                a0 = c.args[0]
                                while isinstance(a0, (ast.Subscript,
                                                      ast.Attribute,
                                                      ast.Call)):
                                    a0 = a0.value if not isinstance(
                                        a0, ast.Call) else (
                                        a0.func.value if isinstance(
                                            a0.func, ast.Attribute)
                                        else (a0.args[0] if a0.args
                                              else a0.func))
                                if isinstance(a0, ast.Name):
                                    data_roots.add(a0.id)
                        if data_roots and data_roots <= (
                                {like.split(".")[0]} | gathered):
                            safe = True
                    computed = any(isinstance(x, ast.Call) or (
                        isinstance(x, ast.BinOp)
                        and isinstance(x.op, (ast.Div, ast.Pow, ast.Mult)))
                        for x in ast.walk(v)) or isinstance(v, ast.Name)
                    if isinstance(v, ast.Attribute) \
                            and dotted(v).split(".")[0] != like.split(".")[0] \
                            and not like.startswith("<"):
                        # the data of another object: it has a dtype of
                        # its own (float endpoints into an int-typed pair)
                        computed = True
                    if safe or not computed:
                        continue
                    n_sites += 1
                    r.analysed(f)
                    inst = f"{f.qualname}:{t.value.id}"
                    if exact_ok or lit_dtype:
                        r.ok("LK1", inst, loc(f, n), norm_stmt(n)[:100],
                             "the buffer is created inexact")
                    else:
                        r.violation(
                            "LK1", f"{f.fq}|{t.value.id}", loc(f, d),
                            norm_stmt(d)[:140],
                            f"`{t.value.id}` takes the dtype of `{like}` and "
                            f"then receives `{dotted(v)[:50]}`: for "
                            "integer-typed input the computed values are "
                            "truncated silently (or the in-place update "
                            "raises UFuncTypeError)",
                            instance=inst)
    return n_sites


# ---------------------------------------------------------------------------
# LK2: no value is cast to the dtype of a different array


def rule_lk2(ctx, rels, scope=None):
    r = ctx.r
    r.rule("LK2", "a value is never cast to the dtype of a *different* "
                  "array taken from the caller (`y.astype(x.dtype)`, "
                  "`np.array(y, dtype=x.dtype)`, `getattr(x, 'dtype', ..)` "
                  "handed to astype) unless x's dtype was tested for "
                  "integer-ness: when the same numbers are given as "
                  "integers, y's fractional values are truncated silently")
    n_sites = 0
    for rel in rels:
        m = ctx.p.module_by_rel(rel)
        for f in ctx.p.all_functions:
            if f.module is not m:
                continue
            if scope is not None and f not in scope:
                continue
            defs = single_defs(f.node)

            def dtype_source(e, depth=0):
                """x for an expression that is x's dtype"""
                if isinstance(e, ast.Name) and e.id in defs and depth < 3:
                    return dtype_source(defs[e.id], depth + 1)
                if isinstance(e, ast.Attribute) and e.attr == "dtype":
                    return e.value
                if isinstance(e, ast.Call) and dotted(e.func) == "getattr" \
                        and len(e.args) >= 2 and isinstance(
                            e.args[1], ast.Constant) \
                        and e.args[1].value == "dtype":
                    return e.args[0]
                return None

            for c in ast.walk(f.node):
                if not isinstance(c, ast.Call):
                    continue
                y = dt = None
                if isinstance(c.func, ast.Attribute) \
                        and c.func.attr == "astype" and c.args:
                    y, dt = c.func.value, c.args[0]
                elif dotted(c.func) in ("np.array", "np.asarray",
                                        "np.asanyarray") and c.args:
                    y = c.args[0]
                    dt = next((k.value for k in c.keywords
                               if k.arg == "dtype"), None)
                if dt is None:
                    continue
                x = dtype_source(dt)
                if x is None:
                    continue
                root = dotted(x).split(".")[0]
                caller_typed = (root in f.params and root != "self") or \
                    dotted(x).startswith("self.") and dotted(x).endswith(
                        "_data")
                if not caller_typed:
                    continue
                ynames = {n.id for n in ast.walk(y) if isinstance(n, ast.Name)}
                ytext = dotted(y)
                if dotted(x) in ytext or (root != "self" and root in ynames):
                    continue             # re-typing x itself / its own parts
                n_sites += 1
                r.analysed(f)
                inst = f"{f.qualname}:cast-to-{dotted(x)}"
                if _has_int_guard(f, dotted(x)) or _has_int_guard(f, root):
                    r.ok("LK2", inst, loc(f, c), dotted(c)[:100],
                         "integer dtypes are re-typed first")
                    continue
                r.violation(
                    "LK2", f"{f.fq}|{dotted(c)[:70]}", loc(f, c),
                    dotted(c)[:140],
                    f"`{ytext[:40]}` is cast to the dtype of `{dotted(x)}`: "
                    "when that is integer-typed (the same numbers written "
                    "without a decimal point) the fractional values of "
                    f"`{ytext[:40]}` -- cosines, square roots, quotients -- "
                    "are truncated silently", instance=inst)
    if n_sites == 0:
        r.ok("LK2", "modules", ",".join(rels), "", "no cross-typing cast")
    return n_sites


# ---------------------------------------------------------------------------
# T4: `like=` is a typed value, never a callable


def rule_t4(ctx, rels):
    r = ctx.r
    r.rule("T4", "the value given as `like` (keyword or kwargs['like']) is "
                 "data whose dtype is meant to be copied; a callable has no "
                 "dtype, so check_type falls back to dtype('O') and the "
                 "result is an object array on which inversion, SVD and "
                 "eigen-decomposition fail")
    n_sites = 0
    for rel in rels:
        m = ctx.p.module_by_rel(rel)
        for f in ctx.p.all_functions:
            if f.module is not m:
                continue
            called = {dotted(c.func) for c in ast.walk(f.node)
                      if isinstance(c, ast.Call)
                      and isinstance(c.func, ast.Name)}
            sites = []
            for n in ast.walk(f.node):
                if isinstance(n, ast.Assign) and len(n.targets) == 1 \
                        and isinstance(n.targets[0], ast.Subscript) \
                        and isinstance(n.targets[0].slice, ast.Constant) \
                        and n.targets[0].slice.value == "like":
                    sites.append((n, n.value))
                if isinstance(n, ast.Call):
                    for k in n.keywords:
                        if k.arg == "like":
                            sites.append((n, k.value))
            for node, v in sites:
                n_sites += 1
                bad = isinstance(v, ast.Lambda) or (
                    isinstance(v, ast.Name) and v.id in called
                    and v.id in f.params)
                if not bad:
                    continue
                r.analysed(f)
                r.violation(
                    "T4", f"{f.fq}|like-callable:{dotted(v)[:30]}",
                    loc(f, node), norm_stmt(node)[:140]
                    if isinstance(node, ast.stmt) else dotted(node)[:140],
                    f"`{dotted(v)[:40]}` is called as a function in "
                    f"{f.qualname} and is also handed over as `like`: "
                    "check_type(like=<function>) yields dtype('O'), so "
                    "gln_adjoint / sln_adjoint of a float matrix return "
                    "object arrays and the form-adjoint homomorphisms "
                    "(so_adjoint, sp_adjoint, so21_adjoint) raise "
                    "UFuncTypeError in the SVD kernel",
                    instance=f"{f.qualname}:like")
    r.ok("T4", "like-sites", ",".join(rels), "",
         f"{n_sites} `like` sites examined") if n_sites else None
    return n_sites


# ---------------------------------------------------------------------------
# CX1: eigen-decomposition output is never stored into a real buffer

EIG_CALLS = ("utils.eig", "np.linalg.eig", "eig", "np.linalg.eigvals",
             "scipy.linalg.eig")


def rule_cx1(ctx, rels, scope=None):
    r = ctx.r
    r.rule("CX1", "eigenvalues / eigenvectors of a general matrix "
                  "(np.linalg.eig, utils.eig) are complex whenever one "
                  "eigenvalue is; they are never stored into a buffer "
                  "created with the default (float64) dtype -- NumPy drops "
                  "the imaginary parts with a ComplexWarning and the stored "
                  "vector is no longer an eigenvector")
    n_sites = 0
    for rel in rels:
        m = ctx.p.module_by_rel(rel)
        for f in ctx.p.all_functions:
            if f.module is not m:
                continue
            if scope is not None and f not in scope:
                continue
            eig_names = set()
            for n in ast.walk(f.node):
                if isinstance(n, ast.Assign) and isinstance(
                        n.value, ast.Call) and dotted(n.value.func) in \
                        EIG_CALLS:
                    for t in n.targets:
                        for x in ast.walk(t):
                            if isinstance(x, ast.Name):
                                eig_names.add(x.id)
            if not eig_names:
                continue
            # values derived from them by plain assignment
            changed = True
            while changed:
                changed = False
                for n in ast.walk(f.node):
                    if isinstance(n, ast.Assign) and len(n.targets) == 1 \
                            and isinstance(n.targets[0], ast.Name) \
                            and n.targets[0].id not in eig_names \
                            and any(isinstance(x, ast.Name)
                                    and x.id in eig_names
                                    for x in ast.walk(n.value)) \
                            and not any(
                                isinstance(c, ast.Call) and dotted(c.func) in (
                                    "np.real", "np.abs", "np.isclose",
                                    "np.imag", "np.argsort", "np.lexsort",
                                    "np.nonzero", "np.unique", "np.where",
                                    "np.ones_like", "np.zeros_like")
                                for c in ast.walk(n.value)) \
                            and not any(isinstance(c, ast.Attribute)
                                        and c.attr in ("real", "imag",
                                                       "shape", "nonzero")
                                        for c in ast.walk(n.value)):
                        eig_names.add(n.targets[0].id)
                        changed = True
            bufs = {}
            for n in ast.walk(f.node):
                if isinstance(n, ast.Assign) and len(n.targets) == 1 \
                        and isinstance(n.targets[0], ast.Name) \
                        and isinstance(n.value, ast.Call) \
                        and dotted(n.value.func) in (
                            "utils.zeros", "utils.ones", "np.zeros",
                            "np.ones", "np.empty", "np.full"):
                    kws = {k.arg for k in n.value.keywords}
                    if not (kws & {"dtype", "like", "base_ring"}) \
                            and len(n.value.args) <= (
                                2 if dotted(n.value.func) == "np.full"
                                else 1):
                        bufs[n.targets[0].id] = n
            for n in ast.walk(f.node):
                if not (isinstance(n, ast.Assign) and isinstance(
                        n.targets[0], ast.Subscript) and isinstance(
                            n.targets[0].value, ast.Name)
                        and n.targets[0].value.id in bufs):
                    continue
                # only the stored *values* count, not index expressions
                val = n.value
                if isinstance(val, ast.Subscript):
                    val = val.value
                used = {x.id for x in ast.walk(val)
                        if isinstance(x, ast.Name)} & eig_names
                if not used:
                    continue
                n_sites += 1
                r.analysed(f)
                b = n.targets[0].value.id
                r.violation(
                    "CX1", f"{f.fq}|{b}", loc(f, bufs[b]),
                    norm_stmt(bufs[b])[:120],
                    f"`{b}` is a float64 buffer and receives "
                    f"`{sorted(used)[0]}`, the output of a general "
                    "eigensolver: for an array of real transformations one "
                    "of which has a complex-conjugate eigenvalue pair the "
                    "imaginary parts are discarded, and the reported "
                    "eigenvector is not mapped to a multiple of itself -- "
                    "while the same matrix on its own gives the complex "
                    "eigenvector", instance=f"{f.qualname}:{b}")
    if n_sites == 0:
        r.ok("CX1", "modules", ",".join(rels), "",
             "no eigensolver output is stored into a default-typed buffer")
    return n_sites


_UNTYPED_MAKERS = {"np.zeros", "np.ones", "np.identity", "np.eye", "np.empty",
                   "np.full", "np.diag", "utils.zeros", "utils.ones",
                   "utils.identity", "zeros", "ones", "identity"}


def rule_lk3(ctx, rels, scope=None):
    """float64 buffers that receive the caller's data"""
    r = ctx.r
    r.rule("LK3", "a buffer made with no type information (np.identity(n), "
                  "np.zeros(shape), utils.zeros(shape) without like= / "
                  "dtype= / base_ring; also np.tile of one) is float64 "
                  "whatever is stored into it: the caller's array data "
                  "(a parameter, or a local computed from one) is never "
                  "item-assigned into such a buffer -- complex data would "
                  "lose its imaginary part with only a ComplexWarning. "
                  "Buffers for booleans / comparisons / constants and "
                  "buffers typed with like= are not concerned")
    n = 0
    for rel in rels:
        m = ctx.p.module_by_rel(rel)
        for f in ctx.p.all_functions:
            if f.module is not m or (scope is not None and f not in scope):
                continue
            params = {p for p in f.params if p not in ("self", "cls")}
            if not params:
                continue
            bufs = {}
            sdefs_lk3 = single_defs(f.node)
            for st in ast.walk(f.node):
                if not (isinstance(st, ast.Assign) and len(st.targets) == 1
                        and isinstance(st.targets[0], ast.Name)
                        and isinstance(st.value, ast.Call)):
                    continue
                c = st.value
                fn = dotted(c.func)
                inner = c
                if fn in ("np.tile", "np.broadcast_to", "np.array",
                          "np.copy") and c.args:
                    a0 = c.args[0]
                    if isinstance(a0, ast.Name) and isinstance(
                            sdefs_lk3.get(a0.id), ast.Call):
                        a0 = sdefs_lk3[a0.id]
                    if isinstance(a0, ast.Call):
                        inner = a0
                        fn = dotted(inner.func)
                if fn not in _UNTYPED_MAKERS:
                    continue
                kws = {k.arg for k in inner.keywords} | {k.arg
                                                         for k in c.keywords}
                if {"like", "dtype", "base_ring"} & kws or None in kws:
                    continue
                if fn.split(".")[-1] in ("zeros", "ones", "identity") \
                        and fn.startswith(("utils.", "zeros", "ones",
                                           "identity")) \
                        and len(inner.args) > 1:
                    continue          # (shape, base_ring, dtype) positional
                if fn in ("np.full",) and len(inner.args) > 1 \
                        and not isinstance(inner.args[1], ast.Constant):
                    continue
                if fn == "np.diag":
                    continue          # typed by its argument
                bufs[st.targets[0].id] = st
            if not bufs:
                continue
            def carried(e, tainted):
                """tainted names whose DATA flows into e: through NumPy /
                utils calls, arithmetic, indexing and array methods, not
                through other library calls (a solver's result has the
                solver's type)"""
                out = set()

                def go(x):
                    if isinstance(x, ast.Name):
                        if x.id in tainted and isinstance(x.ctx, ast.Load):
                            out.add(x.id)
                        return
                    if isinstance(x, ast.Call):
                        fn = dotted(x.func)
                        method_of = isinstance(x.func, ast.Attribute) \
                            and not fn.startswith(("np.", "utils.", "numpy."))
                        if fn.startswith(("np.", "utils.", "numpy.")):
                            for a in list(x.args) + [k.value
                                                     for k in x.keywords]:
                                go(a)
                        elif method_of:
                            go(x.func.value)
                        return
                    if isinstance(x, ast.Subscript):
                        go(x.value)           # not the index
                        return
                    if isinstance(x, ast.Attribute):
                        if x.attr in ("shape", "ndim", "size", "dtype"):
                            return
                        go(x.value)
                        return
                    if isinstance(x, (ast.Compare, ast.Constant)):
                        return
                    for c in ast.iter_child_nodes(x):
                        go(c)
                go(e)
                return out

            # locals computed from parameters (one pass to a fixpoint)
            tainted = set(params)
            grew = True
            while grew:
                grew = False
                for st in ast.walk(f.node):
                    if isinstance(st, ast.Assign) and len(st.targets) == 1 \
                            and isinstance(st.targets[0], ast.Name) \
                            and st.targets[0].id not in tainted \
                            and st.targets[0].id not in bufs:
                        if carried(st.value, tainted):
                            tainted.add(st.targets[0].id)
                            grew = True
            for st in ast.walk(f.node):
                if isinstance(st, ast.Assign):
                    tg, v = st.targets[0], st.value
                elif isinstance(st, ast.AugAssign):
                    tg, v = st.target, st.value
                else:
                    continue
                if not (isinstance(tg, ast.Subscript)
                        and isinstance(tg.value, ast.Name)
                        and tg.value.id in bufs):
                    continue
                n += 1
                r.analysed(f)
                inst = f"{f.qualname}:{tg.value.id}"
                data = sorted(carried(v, tainted))
                index_only = not data
                harmless = isinstance(v, (ast.Constant, ast.Compare)) or (
                    isinstance(v, ast.UnaryOp)
                    and isinstance(v.op, (ast.Invert, ast.Not))) \
                    or (isinstance(v, ast.UnaryOp)
                        and isinstance(v.operand, ast.Constant))
                if not data or harmless or index_only:
                    r.ok("LK3", inst, loc(f, st), norm_stmt(st)[:80],
                         "no caller data stored")
                    continue
                d = bufs[tg.value.id]
                r.violation(
                    "LK3", f"{f.fq}|{tg.value.id}|untyped", loc(f, st),
                    norm_stmt(st)[:140],
                    f"`{tg.value.id}` is created by "
                    f"`{dotted(d.value)[:60]}` (float64 whatever the input) "
                    f"and receives the caller's data "
                    f"({', '.join(data)}): for complex input the imaginary "
                    "part is discarded with a ComplexWarning and the map / "
                    "matrix built is that of the real part only",
                    instance=inst)
    if n == 0:
        r.ok("LK3", "modules", ",".join(rels), "",
             "no item assignment into an untyped buffer")


def rule_cast1(ctx, rels):
    r = ctx.r
    r.rule("CAST1", "'is this an integer dtype' is asked of the dtype's KIND "
                    "(np.issubdtype(dt, np.integer), dt.kind in 'biu'), not "
                    "of castability: np.can_cast(dtype, int) is False for "
                    "uint64, so check_type(integer_type=False) leaves a "
                    "uint64 `like` value integer and rotation_matrix / "
                    "IdealPoint.from_angle truncate cos / sin into it "
                    "(rotation_matrix(np.uint64(1)) is the zero matrix)")
    n = 0
    for rel in rels:
        mod = ctx.p.module_by_rel(rel)
        for f in ctx.p.all_functions:
            if f.module is not mod:
                continue
            for c in ast.walk(f.node):
                if not (isinstance(c, ast.Call)
                        and dotted(c.func) in ("np.can_cast",
                                               "numpy.can_cast")
                        and len(c.args) >= 2):
                    continue
                to = c.args[1]
                is_int = (isinstance(to, ast.Name) and to.id == "int") or \
                    dotted(to) in ("np.int64", "np.int_", "np.integer") or (
                        isinstance(to, ast.Constant)
                        and to.value in ("int", "int64", "i8"))
                if not is_int:
                    continue
                n += 1
                r.analysed(f)
                r.violation(
                    "CAST1", f"{f.fq}|can_cast-int", loc(f, c),
                    dotted(c)[:80],
                    f"{f.qualname} decides 'integer dtype' with "
                    f"`{dotted(c)[:50]}`: safe casting to a signed 64-bit "
                    "integer excludes uint64 (and uintp), so an angle "
                    "packaged as np.uint64 keeps an unsigned integer buffer "
                    "and the sines and cosines written into it are "
                    "truncated to 0 / 1", instance=f"{f.qualname}:can_cast")
    if n == 0:
        r.ok("CAST1", "modules", ",".join(rels), "",
             "no castability test used as an integer-kind test")


def rule_emath1(ctx, rels):
    from ..norm import single_defs
    r = ctx.r
    r.rule("EMATH1", "np.emath.sqrt / np.emath.log / np.emath.power return "
                     "a COMPLEX array as soon as one argument is negative: "
                     "their result is never combined in place (`*=`, `/=`, "
                     "`+=`, `-=`) into an array whose dtype was fixed "
                     "earlier from caller data, unless that array was "
                     "promoted first (astype / result_type / a complex "
                     "buffer). `res[..., 0] *= eigenvalue` on a float `res` "
                     "raises UFuncTypeError for exactly the real triples "
                     "whose third point is not between the first two")
    n = 0
    for rel in rels:
        mod = ctx.p.module_by_rel(rel)
        for f in ctx.p.all_functions:
            if f.module is not mod:
                continue
            defs = single_defs(f.node)
            emath_names = {k for k, v in defs.items()
                           if any(isinstance(c, ast.Call)
                                  and dotted(c.func).startswith(
                                      ("np.emath.", "np.lib.scimath."))
                                  for c in ast.walk(v))}
            if not emath_names:
                continue
            for st in ast.walk(f.node):
                if not isinstance(st, ast.AugAssign):
                    continue
                if not any(isinstance(x, ast.Name) and x.id in emath_names
                           for x in ast.walk(st.value)):
                    continue
                base = st.target
                while isinstance(base, ast.Subscript):
                    base = base.value
                if not isinstance(base, ast.Name):
                    continue
                n += 1
                r.analysed(f)
                binds = [s.value for s in ast.walk(f.node)
                         if isinstance(s, ast.Assign)
                         and any(isinstance(t, ast.Name) and t.id == base.id
                                 for t in s.targets)]
                promoted = any(
                    any(isinstance(c, ast.Call) and (
                        (isinstance(c.func, ast.Attribute)
                         and c.func.attr == "astype")
                        or dotted(c.func) in ("np.result_type",
                                              "np.promote_types",
                                              "utils.complex_type")
                        or any(k.arg == "dtype" and "complex" in dotted(
                            k.value) for k in c.keywords))
                        for c in ast.walk(b)) for b in binds)
                inst = f"{f.qualname}:{base.id}"
                if promoted:
                    r.ok("EMATH1", inst + f"@{st.lineno}", loc(f, st),
                         dotted(st)[:80], f"`{base.id}` is promoted first")
                else:
                    r.violation(
                        "EMATH1", f"{f.fq}|{base.id}", loc(f, st),
                        dotted(st)[:100],
                        f"`{dotted(st)[:60]}` writes a possibly complex "
                        f"np.emath result into `{base.id}`, whose dtype "
                        "comes from the caller's data: for float or integer "
                        "triples such as (0, 1, 2) or (1, inf, 0) the root "
                        "is imaginary and the in-place product raises "
                        "UFuncTypeError; the same triple typed complex "
                        "works", instance=inst)
    if n == 0:
        r.ok("EMATH1", "modules", ",".join(rels), "",
             "no in-place combination of an np.emath result")


def rule_lk4(ctx):
    r = ctx.r
    r.rule("LK4", "item assignment into a composite object stores ANOTHER "
                  "object's coordinates into the array the composite "
                  "already has: `self.proj_data[key] = <data of value>` is "
                  "preceded by a promotion of that array to the common type "
                  "(np.result_type / astype). A composite built from "
                  "integer literals (Point([[0, 0], [0, 0]], model='klein')) "
                  "has an int64 array; storing float coordinates into it "
                  "truncates them silently and the point read back is a "
                  "different point")
    PROJ = "geometry_tools/projective.py"
    f = ctx.p.get_function(PROJ, "ProjectiveObject.__setitem__")
    r.analysed(f)
    vparam = f.params[2] if len(f.params) > 2 else None
    if vparam is None:
        r.note("LK4", loc(f, f.node), "__setitem__", "no value parameter")
        return
    defs = single_defs(f.node)

    def from_value(e, depth=0):
        for x in ast.walk(e):
            if isinstance(x, ast.Name):
                if x.id == vparam:
                    return True
                if x.id in defs and depth < 4 and from_value(defs[x.id],
                                                             depth + 1):
                    return True
        return False
    n = 0
    for st in ast.walk(f.node):
        if not (isinstance(st, ast.Assign) and len(st.targets) == 1
                and isinstance(st.targets[0], ast.Subscript)
                and dotted(st.targets[0].value) in ("self.proj_data",
                                                    "self.aux_data",
                                                    "self.dual_data")
                and from_value(st.value)):
            continue
        n += 1
        slot = dotted(st.targets[0].value)
        promoted = False
        for s2 in ast.walk(f.node):
            if isinstance(s2, ast.Assign) and s2.lineno < st.lineno \
                    and any(dotted(t) == slot for t in s2.targets) \
                    and any(isinstance(c, ast.Call) and (
                        (isinstance(c.func, ast.Attribute)
                         and c.func.attr == "astype")
                        or dotted(c.func) in ("np.result_type",
                                              "np.promote_types"))
                        for c in ast.walk(s2.value)):
                promoted = True
            # or a whole-array rebuild (np.array / concatenate of both)
        inst = f"__setitem__:{slot}"
        if promoted:
            r.ok("LK4", inst, loc(f, st), dotted(st)[:80],
                 "the stored array is promoted to the common type first")
        else:
            r.violation(
                "LK4", f"{f.fq}|{slot}", loc(f, st), dotted(st)[:100],
                f"`{dotted(st)[:70]}` writes the new member's coordinates "
                f"into `{slot}` as it is typed: for a composite created "
                "from integer-typed coordinates the float coordinates of "
                "the assigned point are truncated -- pts[0] = "
                "Point([.5, .2], model='klein') stores the origin, 0.60 "
                "away, with no error", instance=inst)
    if n == 0:
        r.note("LK4", loc(f, f.node), "__setitem__",
               "no item store of the value's data into a data slot "
               "(not judged)")


RAW1_TABLE = [
    # (module, function, array-like parameter): entry points that C12 names
    # ("Point / Transformation constructors ... nested lists or ndarrays")
    ("geometry_tools/projective.py", "Transformation.__init__", "proj_data"),
    ("geometry_tools/projective.py", "affine_linear_map", "linear_map"),
    ("geometry_tools/projective.py", "affine_translation", "translation"),
    ("geometry_tools/projective.py", "ProjectiveObject.set", "proj_data"),
]
NDARRAY_ATTRS = {"shape", "swapaxes", "T", "dtype", "astype", "reshape",
                 "ndim", "conj", "conjugate", "transpose", "real", "imag",
                 "copy", "flatten", "squeeze", "size"}


def rule_raw1(ctx):
    r = ctx.r
    r.rule("RAW1", "an entry point that accepts its matrix / coordinates "
                   "'as nested lists or ndarrays' converts the argument "
                   "(np.array / np.asarray / utils.array_like) BEFORE it "
                   "uses an ndarray attribute or method on it "
                   "(`.swapaxes`, `.shape`, `.dtype`, slicing with a "
                   "tuple): Transformation(M, column_vectors=True) with M a "
                   "nested list raised AttributeError where the row-vector "
                   "form and the same numbers as an ndarray work")
    for rel, qn, param in RAW1_TABLE:
        try:
            f = ctx.p.get_function(rel, qn)
        except Exception:
            raise AnalysisError(f"RAW1: anchor {qn} has vanished")
        r.analysed(f)
        if param not in f.params:
            r.note("RAW1", loc(f, f.node), qn,
                   f"parameter `{param}` is gone (not judged)")
            continue
        # positions where the parameter is rebound to a converted array
        conv = [s for s in ast.walk(f.node) if isinstance(s, ast.Assign)
                and any(isinstance(t, ast.Name) and t.id == param
                        for t in s.targets)
                and any(isinstance(c, ast.Call) and dotted(c.func) in (
                    "np.array", "np.asarray", "np.asanyarray",
                    "utils.array_like", "array_like", "np.atleast_2d",
                    "np.atleast_1d") for c in ast.walk(s.value))]
        first_conv = min((s.lineno for s in conv), default=None)
        bad = None
        uses = 0
        for x in ast.walk(f.node):
            raw_use = None
            if isinstance(x, ast.Attribute) and isinstance(x.value, ast.Name) \
                    and x.value.id == param and x.attr in NDARRAY_ATTRS:
                raw_use = x
            if isinstance(x, ast.Subscript) and isinstance(x.value, ast.Name) \
                    and x.value.id == param and isinstance(
                        x.slice, ast.Tuple):
                raw_use = x           # a[i, j] / a[:k, :k]: ndarray indexing
            if isinstance(x, ast.keyword) and x.arg == "like" \
                    and isinstance(x.value, ast.Name) \
                    and x.value.id == param:
                # `like=` reads the dtype of its value: a list has none, and
                # the buffer silently falls back to float64
                raw_use = x.value
            if raw_use is None:
                continue
            uses += 1
            if first_conv is None or raw_use.lineno < first_conv:
                # inside `try: ... except AttributeError` the failure is
                # handled (the package's own duck-typing idiom)
                par = f.module.parents.get(raw_use)
                handled = False
                while par is not None and par is not f.node:
                    if isinstance(par, ast.Try) and any(
                            h.type is None or "AttributeError" in dotted(
                                h.type) or "Exception" == dotted(h.type)
                            for h in par.handlers) \
                            and any(raw_use in ast.walk(b)
                                    for b in par.body):
                        handled = True
                    par = f.module.parents.get(par)
                if not handled:
                    bad = bad or raw_use
        inst = f"{qn}:{param}"
        if bad is None:
            r.ok("RAW1", inst, loc(f, f.node), "",
                 f"`{param}` is converted before any ndarray attribute is "
                 f"used ({uses} uses)")
        else:
            r.violation(
                "RAW1", f"{f.fq}|{param}", loc(f, bad), dotted(bad)[:80],
                f"`{dotted(bad)[:50]}` is applied to the raw argument "
                f"`{param}`: a nested list (the packaging the docstring "
                "examples use for the row-vector form) has no such "
                "attribute -> AttributeError / TypeError, while the same "
                "numbers as an ndarray are accepted", instance=inst)


def rule_astype1(ctx, rels):
    from ..norm import single_defs
    r = ctx.r
    r.rule("ASTYPE1", "a matrix of cosines / quotients is cast with "
                      "`.astype(dtype)` only to a dtype that cannot be an "
                      "integer type: where `dtype` comes from "
                      "utils.check_type(**kwargs) the call passes "
                      "integer_type=False (as standard_rotation and the "
                      "factories of utils do). With the default "
                      "integer_type=True, `like=np.int64(1)` / "
                      "`like=G.coxeter_matrix` makes dtype int64 and the "
                      "cosine form -cos(pi/m) is truncated to the identity: "
                      "(ab)^3 != I for the label 3, silently")
    n = 0
    for rel in rels:
        mod = ctx.p.module_by_rel(rel)
        for f in ctx.p.all_functions:
            if f.module is not mod:
                continue
            # names bound from check_type(..) results
            typed = {}
            for st in ast.walk(f.node):
                if isinstance(st, ast.Assign) and isinstance(
                        st.value, ast.Call) and dotted(st.value.func) in (
                        "utils.check_type", "check_type"):
                    it_false = any(
                        k.arg == "integer_type"
                        and const_value(k.value) is False
                        for k in st.value.keywords)
                    for t in st.targets:
                        for e in (t.elts if isinstance(t, ast.Tuple) else [t]):
                            if isinstance(e, ast.Name):
                                typed[e.id] = (st, it_false)
            if not typed:
                continue
            defs = single_defs(f.node)
            for c in ast.walk(f.node):
                if not (isinstance(c, ast.Call)
                        and isinstance(c.func, ast.Attribute)
                        and c.func.attr == "astype" and c.args
                        and isinstance(c.args[0], ast.Name)
                        and c.args[0].id in typed):
                    continue
                n += 1
                r.analysed(f)
                st, it_false = typed[c.args[0].id]
                inst = f"{f.qualname}:astype({c.args[0].id})"
                if it_false:
                    r.ok("ASTYPE1", inst, loc(f, c), dotted(c)[:70],
                         "check_type(integer_type=False): never an integer "
                         "dtype")
                else:
                    r.violation(
                        "ASTYPE1", f"{f.fq}|{c.args[0].id}", loc(f, c),
                        dotted(c)[:90],
                        f"`{dotted(c)[:60]}` casts a real-valued matrix "
                        f"(cosines of pi/m, I - e_i C) to `{c.args[0].id}` "
                        f"from `{dotted(st.value)[:40]}`, whose default "
                        "integer_type=True keeps an integer `like` / dtype: "
                        "the cosine form becomes the identity and the "
                        "braid relations of every label >= 3 fail, with no "
                        "error", instance=inst)
    if n == 0:
        r.ok("ASTYPE1", "modules", ",".join(rels), "",
             "no .astype(<dtype from check_type>)")


def rule_contra1(ctx, rels):
    r = ctx.r
    r.rule("CONTRA1", "contradictory beliefs about an argument: a function "
                      "that reads `p.<attr>` under `try .. except "
                      "AttributeError` believes p may be a plain array "
                      "('Isometry or ndarray'); it (and a caller that hands "
                      "the same p on to it) then reads no other attribute "
                      "that an ndarray does not have outside such a try. "
                      "Hyperplane.from_reflection falls back to `matrix = "
                      "reflection` for arrays and two lines later reads "
                      "`reflection.dimension`: every ndarray argument "
                      "raises AttributeError after all")
    n = 0

    def believers(f):
        """{param: try node} for params read under try/except AttributeError"""
        out = {}
        for t in ast.walk(f.node):
            if not isinstance(t, ast.Try):
                continue
            if not any(h.type is not None and "AttributeError" in dotted(
                    h.type) for h in t.handlers):
                continue
            for b in t.body:
                for x in ast.walk(b):
                    if isinstance(x, ast.Attribute) and isinstance(
                            x.value, ast.Name) and x.value.id in f.params \
                            and x.value.id not in ("self", "cls"):
                        # (`self.<attr>` under try is the lazy-attribute
                        # idiom, not a belief about an argument)
                        out.setdefault(x.value.id, t)
        return out
    for rel in rels:
        mod = ctx.p.module_by_rel(rel)
        funcs = [f for f in ctx.p.all_functions if f.module is mod
                 and f.parent is None]
        belief = {f: believers(f) for f in funcs}
        byname = {}
        for f in funcs:
            byname.setdefault(f.name, []).append(f)
        # one level up: a caller passing its parameter to a believer
        inherited = {}
        for f in funcs:
            for c in ast.walk(f.node):
                if not isinstance(c, ast.Call):
                    continue
                nm = c.func.attr if isinstance(c.func, ast.Attribute) else (
                    c.func.id if isinstance(c.func, ast.Name) else None)
                cands = byname.get(nm, [])
                if len(cands) < 1:
                    continue
                for g in cands:
                    if g is f or not belief[g]:
                        continue
                    gp = [p for p in g.params if p not in ("self", "cls")]
                    # qualified static call `Cls.g(p)`: the class must match
                    if isinstance(c.func, ast.Attribute) and isinstance(
                            c.func.value, ast.Name) and g.cls is not None \
                            and c.func.value.id != g.cls.name \
                            and c.func.value.id not in ("self", "cls"):
                        continue
                    for i, a in enumerate(c.args):
                        if isinstance(a, ast.Name) and a.id in f.params \
                                and i < len(gp) and gp[i] in belief[g]:
                            inherited.setdefault(f, {})[a.id] = (g, c)
        for f in funcs:
            bel = dict(belief[f])
            for p, (g, c) in inherited.get(f, {}).items():
                bel.setdefault(p, c)
            if not bel:
                continue
            for p, why in bel.items():
                n += 1
                r.analysed(f)
                bad = None
                for x in ast.walk(f.node):
                    if not (isinstance(x, ast.Attribute)
                            and isinstance(x.value, ast.Name)
                            and x.value.id == p
                            and isinstance(x.ctx, ast.Load)
                            and x.attr not in NDARRAY_ATTRS):
                        continue
                    # guarded by some try/except AttributeError?
                    par = f.module.parents.get(x)
                    guarded = False
                    while par is not None and par is not f.node:
                        if isinstance(par, ast.Try) and any(
                                h.type is not None and "AttributeError" in
                                dotted(h.type) for h in par.handlers) \
                                and any(x in ast.walk(b) for b in par.body):
                            guarded = True
                        par = f.module.parents.get(par)
                    # hasattr / isinstance tests in force are accepted too
                    if not guarded:
                        bad = bad or x
                inst = f"{f.qualname}:{p}"
                if bad is None:
                    r.ok("CONTRA1", inst, loc(f, f.node), p,
                         "every non-ndarray attribute read is guarded")
                else:
                    src = (f"{f.qualname} itself handles AttributeError for "
                           f"`{p}`" if p in belief[f] else
                           f"{inherited[f][p][0].qualname}, to which "
                           f"`{p}` is handed on, handles AttributeError "
                           "for it")
                    r.violation(
                        "CONTRA1", f"{f.fq}|{p}.{bad.attr}", loc(f, bad),
                        dotted(bad),
                        f"`{dotted(bad)}` is read unconditionally although "
                        f"{src} (the documented 'Isometry or ndarray'): "
                        "for an ndarray the fallback is taken and this "
                        "read raises AttributeError, so no plain matrix is "
                        "ever accepted", instance=inst)
    if n == 0:
        r.ok("CONTRA1", "modules", ",".join(rels), "",
             "no parameter is read under try/except AttributeError")
