"""Small sibling-agreement / forwarding rules (each a structural necessary
condition of the property it is armed for)."""
import ast

from ..project import AnalysisError, loc, norm_stmt
from ..flow import dotted, eval_test
from ..norm import canon, single_defs
from ..rules.common import const_value, path_conditions, stmt_of

CORE = "geometry_tools/utils/core.py"
REP = "geometry_tools/representation.py"
PROJ = "geometry_tools/projective.py"
HYP = "geometry_tools/hyperbolic.py"
FSA = "geometry_tools/automata/fsa.py"
COX = "geometry_tools/coxeter.py"
DRAW = "geometry_tools/drawtools.py"
CP = "geometry_tools/complex_projective.py"


def _stmt_of(f, n):
    parents = f.module.parents
    while not isinstance(n, ast.stmt):
        n = parents[n]
    return n


def live_statements(body, flags):
    """Top-level statements executed under the flag assumptions (folding
    `if <flag test>:` and stopping after a certain return/raise)."""
    out = []
    for st in body:
        if isinstance(st, ast.If):
            t = eval_test(st.test, flags)
            if t is True:
                sub = live_statements(st.body, flags)
            elif t is False:
                sub = live_statements(st.orelse, flags)
            else:
                out.append(st)
                continue
            out += sub
            if sub and isinstance(sub[-1], (ast.Return, ast.Raise)):
                return out
            continue
        out.append(st)
        if isinstance(st, (ast.Return, ast.Raise)):
            return out
    return out


# ---------------------------------------------------------------------------
def rule_fk1(ctx, rels):
    """dict.fromkeys(keys, <mutable>) shares one object between all keys."""
    r = ctx.r
    r.rule("FK1", "no `dict.fromkeys(keys, <mutable value>)` and no "
                  "`[<mutable>] * n`: every key/slot would hold the same "
                  "object, so an edit through one key shows up under all")
    n = 0
    for rel in rels:
        m = ctx.p.module_by_rel(rel)
        for f in ctx.p.all_functions:
            if f.module is not m or f.parent is not None:
                continue
            for c in ast.walk(f.node):
                bad = None
                if isinstance(c, ast.Call) and dotted(c.func).endswith(
                        "fromkeys") and len(c.args) >= 2:
                    n += 1
                    v = c.args[1]
                    if isinstance(v, (ast.Dict, ast.List, ast.Set)) or (
                            isinstance(v, ast.Call) and dotted(v.func) in (
                                "dict", "list", "set", "defaultdict")):
                        bad = c
                if isinstance(c, ast.BinOp) and isinstance(c.op, ast.Mult) \
                        and isinstance(c.left, ast.List) and c.left.elts \
                        and isinstance(c.left.elts[0], (ast.Dict, ast.List,
                                                        ast.Set)):
                    n += 1
                    bad = c
                if bad is not None:
                    st = _stmt_of(f, bad)
                    r.analysed(f)
                    r.violation(
                        "FK1", f"{f.fq}|{norm_stmt(st)[:100]}", loc(f, bad),
                        norm_stmt(st)[:160],
                        f"`{dotted(bad)[:70]}` gives every key the SAME "
                        "mutable object: adding an edge (or any entry) under "
                        "one key then appears under all of them, and the "
                        "views of the automaton disagree",
                        instance=f"{f.qualname}:fromkeys")
    r.ok("FK1", ",".join(x.split("/")[-1] for x in rels), "", "",
         f"{n} fromkeys/replication site(s); none with a shared mutable "
         "value")


# ---------------------------------------------------------------------------
def _norm_pairwise(e, defs):
    """canon with np.expand_dims(x, k) -> x and pairwise_ prefix dropped."""
    class T(ast.NodeTransformer):
        def visit_Call(self, n):
            self.generic_visit(n)
            if dotted(n.func) == "np.expand_dims" and n.args:
                return n.args[0]
            return n

        def visit_Name(self, n):
            if n.id.startswith("pairwise_"):
                return ast.copy_location(ast.Name(n.id[9:], n.ctx), n)
            return n
    import copy
    e2 = T().visit(copy.deepcopy(e))
    defs2 = {k: T().visit(copy.deepcopy(v)) for k, v in defs.items()}
    return canon(e2, defs2)


def rule_k3(ctx):
    r = ctx.r
    r.rule("K3", "the elementwise and the pairwise arm of "
                 "utils.disk_interactions return the same three comparisons "
                 "(d < r1-r2, d < r2-r1, d < r1+r2) once np.expand_dims is "
                 "stripped: contain / contained / intersect keep their "
                 "orientation in both broadcast modes")
    f = ctx.p.get_function(CORE, "disk_interactions")
    r.analysed(f)
    defs = {}
    for n in ast.walk(f.node):
        if isinstance(n, ast.Assign) and len(n.targets) == 1 \
                and isinstance(n.targets[0], ast.Name):
            defs[n.targets[0].id] = n.value
    rets = [n for n in ast.walk(f.node) if isinstance(n, ast.Return)
            and isinstance(n.value, ast.Tuple)]
    if len(rets) != 2:
        raise AnalysisError("disk_interactions: expected two tuple returns "
                            f"(pairwise / elementwise), found {len(rets)}")

    def norm_dist(s):
        # both arms measure the distance of the two centres
        return s
    tables = []
    for rt in rets:
        items = []
        for e in rt.value.elts:
            c = _norm_pairwise(e, {k: v for k, v in defs.items()
                                   if k.startswith(("radial", "pairwise_"))
                                   or k == "dists"})
            items.append(c)
        tables.append(items)
    # normalise the distance expression name
    def strip(c):
        import re
        c = re.sub(r"np\.linalg\.norm\(\(c1 Sub c2\), axis=\(USub 1\)\)",
                   "D", c)
        c = re.sub(r"np\.linalg\.norm\(\(c1 Sub c2\), axis=-1\)", "D", c)
        c = c.replace("dists", "D")
        c = re.sub(r"\(USub \((\w+) Sub (\w+)\)\)", r"(\2 Sub \1)", c)
        return c
    t0 = [strip(x) for x in tables[0]]
    t1 = [strip(x) for x in tables[1]]
    if t0 == t1:
        r.ok("K3", "disk_interactions:arms", loc(f, rets[0]), "",
             f"both arms return {t1}")
    else:
        diff = [(a, b) for a, b in zip(t0, t1) if a != b]
        r.violation(
            "K3", f"{f.fq}|arms", loc(f, rets[0]), norm_stmt(rets[0])[:160],
            f"the pairwise arm returns {diff[0][0]} where the elementwise "
            f"arm returns {diff[0][1]}: in pairwise mode 'contains' and "
            "'is contained in' are no longer told apart (or are swapped)",
            instance="disk_interactions:arms")
    # orientation of the three comparisons in the elementwise arm
    want = ["(D Lt (r1 Sub r2))", "(D Lt (r2 Sub r1))"]
    if t1[:2] == want and ("r1" in t1[2] and "r2" in t1[2] and "Sub" not in t1[2]):
        r.ok("K3", "disk_interactions:orientation", loc(f, rets[1]), "",
             "contain: d < r1-r2, contained: d < r2-r1, intersect: d < r1+r2")
    else:
        r.note("K3", loc(f, rets[1]), norm_stmt(rets[1])[:100],
               "orientation idiom not recognised; not judged")


# ---------------------------------------------------------------------------
def rule_gen_order(ctx):
    r = ctx.r
    r.rule("GO1", "the Fox-derivative column blocks (_differential) and the "
                  "coboundary row blocks (coboundary_matrix) iterate the "
                  "generators through the same expression, so block i of "
                  "one matches block i of the other")
    a = ctx.p.get_function(REP, "Representation._differential")
    b = ctx.p.get_function(REP, "Representation.coboundary_matrix")
    r.analysed(a, b)

    def gens_iter(f):
        out = []
        for n in ast.walk(f.node):
            if isinstance(n, ast.comprehension) and "asym_gens" in dotted(n.iter):
                out.append(n.iter)
            if isinstance(n, ast.For) and "asym_gens" in dotted(n.iter):
                out.append(n.iter)
        return out
    ia, ib = gens_iter(a), gens_iter(b)
    if not ia or not ib:
        r.note("GO1", loc(a, a.node), "asym_gens", "generator iteration "
               "idiom not recognised; not judged")
        return
    ca, cb = dotted(ia[0]), dotted(ib[0])
    if ca == cb:
        r.ok("GO1", "differential~coboundary", loc(b, ib[0]), cb,
             "same generator order on both sides")
    else:
        r.violation(
            "GO1", f"{b.fq}|order", loc(b, ib[0]), cb,
            f"_differential orders its blocks by `{ca}` but "
            f"coboundary_matrix by `{cb}`: for generators assigned in a "
            "different order than this ordering the fundamental formula "
            "D(w) @ coboundary = I - rho(w) fails (cocycle @ coboundary != 0)",
            instance="differential~coboundary")


def rule_elt1(ctx):
    r = ctx.r
    r.rule("ELT1", "elements() stacks the unmodified _word_value results "
                   "(no dtype= / astype between evaluation and wrapping), so "
                   "elements([w])[0] is element(w)")
    f = ctx.p.get_function(REP, "Representation.elements")
    g = ctx.p.get_function(REP, "Representation.element")
    r.analysed(f, g)
    calls = [n for n in ast.walk(f.node) if isinstance(n, ast.Call)
             and dotted(n.func) == "np.array"]
    wv = [n for n in ast.walk(f.node) if isinstance(n, ast.Call)
          and dotted(n.func) == "self._word_value"]
    if not calls or not wv:
        r.note("ELT1", loc(f, f.node), "elements", "idiom not recognised")
        return
    c = calls[0]
    bad = [k.arg for k in c.keywords if k.arg in ("dtype",)] or [
        n for n in ast.walk(f.node) if isinstance(n, ast.Call)
        and isinstance(n.func, ast.Attribute) and n.func.attr == "astype"]
    if not bad:
        r.ok("ELT1", "elements", loc(f, c), dotted(c)[:100],
             "word values are stacked as computed")
    else:
        r.violation(
            "ELT1", f"{f.fq}|cast", loc(f, c), dotted(c)[:160],
            "the stacked word values are cast (dtype= / astype) before "
            "wrapping: when the tracked dtype is narrower than a word's "
            "value (integer generators with inverse letters, a complex "
            "generator assigned before a real one) elements(words) "
            "disagrees with rep[word]", instance="elements")


# ---------------------------------------------------------------------------
def rule_s1c(ctx):
    r = ctx.r
    r.rule("S1c", "in ProjectiveObject.combine the three slots are "
                  "concatenated from the same (flattened) collection")
    f = ctx.p.get_function(PROJ, "ProjectiveObject.combine")
    r.analysed(f)
    srcs = {}
    for n in ast.walk(f.node):
        if isinstance(n, ast.Call) and dotted(n.func) == "np.concatenate" \
                and n.args and isinstance(n.args[0], ast.ListComp):
            lc = n.args[0]
            slot = None
            for a in ast.walk(lc.elt):
                if isinstance(a, ast.Attribute) and a.attr in (
                        "proj_data", "aux_data", "dual_data"):
                    slot = a.attr
            if slot:
                srcs[slot] = (dotted(lc.generators[0].iter), n)
    if len(srcs) < 2:
        r.note("S1c", loc(f, f.node), "combine", "idiom not recognised")
        return
    names = {v[0] for v in srcs.values()}
    if len(names) == 1:
        r.ok("S1c", "combine", loc(f, f.node), "",
             f"all slots iterate `{names.pop()}`")
    else:
        r.violation(
            "S1c", f"{f.fq}|sources", loc(f, srcs["aux_data"][1]
                                          if "aux_data" in srcs else f.node),
            "combine",
            "slots are concatenated from different collections "
            f"{ {k: v[0] for k, v in srcs.items()} }: the primary data is "
            "flattened to units but another slot is not, so for composites "
            "of rank >= 2 the derived data has a different composite shape "
            "than the primary data", instance="combine")


# ---------------------------------------------------------------------------
def rule_k4(ctx):
    r = ctx.r
    r.rule("K4", "the size and offset arrays handed together to an "
                 "EllipseCollection are selected with the same mask (or "
                 "none): circle i gets centre i and radius i")
    m = ctx.p.module_by_rel(DRAW)
    n_sites = 0
    for f in ctx.p.all_functions:
        if f.module is not m or f.parent is not None:
            continue
        defs = single_defs(f.node)
        for c in ast.walk(f.node):
            if not (isinstance(c, ast.Call)
                    and dotted(c.func) == "EllipseCollection"):
                continue
            n_sites += 1
            r.analysed(f)
            arrs = list(c.args[:2])
            for k in c.keywords:
                if k.arg == "offsets":
                    arrs.append(k.value)

            def mask_of(e, depth=0):
                """canon of the boolean mask an array expression was
                selected with ('' = unmasked)"""
                for n in ast.walk(e):
                    if isinstance(n, ast.Subscript) and not isinstance(
                            n.slice, (ast.Slice, ast.Constant, ast.Tuple)):
                        return canon(n.slice, defs)
                    if isinstance(n, ast.Name) and n.id in defs and depth < 4:
                        m_ = mask_of(defs[n.id], depth + 1)
                        if m_:
                            return m_
                return ""
            masks = [mask_of(a) for a in arrs]
            inst = f"{f.qualname}:EllipseCollection"
            if len(set(masks)) == 1:
                r.ok("K4", inst, loc(f, c), dotted(c)[:80],
                     f"all array arguments use mask `{masks[0] or 'none'}`")
            else:
                r.violation(
                    "K4", f"{f.fq}|EllipseCollection", loc(f, c),
                    dotted(c)[:160],
                    f"the arrays are selected with different masks {masks}: "
                    "sizes and centres fall out of step, so a circle is "
                    "drawn with another object's centre or radius",
                    instance=inst)
    if n_sites == 0:
        r.note("K4", DRAW, "EllipseCollection", "no site")


# ---------------------------------------------------------------------------
def rule_x3(ctx):
    r = ctx.r
    r.rule("X3", "in HorosphereArc.circle_parameters every angle given to "
                 "arc_include is measured by utils.circle_angles from the "
                 "same circle centre")
    f = ctx.p.get_function(HYP, "HorosphereArc.circle_parameters")
    r.analysed(f)
    defs = single_defs(f.node)
    calls = [n for n in ast.walk(f.node) if isinstance(n, ast.Call)
             and dotted(n.func) == "utils.arc_include"]
    if not calls:
        r.note("X3", loc(f, f.node), "arc_include", "no arc_include call")
        return
    c = calls[0]
    srcs = []

    def last_def(name, before):
        best = None
        for n in ast.walk(f.node):
            if isinstance(n, ast.Assign) and len(n.targets) == 1 \
                    and isinstance(n.targets[0], ast.Name) \
                    and n.targets[0].id == name \
                    and (n.lineno, n.col_offset) < before:
                if best is None or (n.lineno, n.col_offset) > (
                        best.lineno, best.col_offset):
                    best = n
        return best
    pos = (_stmt_of(f, c).lineno, _stmt_of(f, c).col_offset)
    for a in ctx.p.positional_args(c)[:2]:
        e = a
        seen = 0
        while seen < 8:
            seen += 1
            if isinstance(e, ast.Subscript):
                e = e.value
                continue
            if isinstance(e, ast.Name):
                d = last_def(e.id, pos)
                if d is None:
                    break
                e = d.value
                continue
            break
        if isinstance(e, ast.Call) and dotted(e.func) == "utils.circle_angles" \
                and e.args:
            srcs.append(dotted(e.args[0]))
        elif isinstance(e, ast.Call) and dotted(e.func) in ("np.arctan2",
                                                            "np.angle"):
            srcs.append("<polar angle about the origin>")
        else:
            srcs.append(None)
    if None in srcs:
        r.note("X3", loc(f, c), dotted(c)[:100],
               "an angle given to arc_include is not computed by "
               "utils.circle_angles / arctan2 in a form the rule recognises "
               "(not judged)")
        return
    if None not in srcs and len(set(srcs)) == 1:
        r.ok("X3", "HorosphereArc.circle_parameters", loc(f, c),
             dotted(c)[:80], f"both angles are measured from `{srcs[0]}`")
    else:
        r.violation(
            "X3", f"{f.fq}|reference", loc(f, c), dotted(c)[:140],
            "the endpoint angles and the reference angle given to "
            f"arc_include are not both circle_angles from one centre "
            f"({srcs}): in the half-space model the ideal centre's polar "
            "angle differs from its angle seen from the circle centre, so "
            "the complementary arc is reported",
            instance="HorosphereArc.circle_parameters")


# ---------------------------------------------------------------------------
def rule_pa1(ctx):
    r = ctx.r
    r.rule("PA1", "diagonalize_form permutes the columns of W and the rows "
                  "of W^-1 with the same order and the same `inverse` flag "
                  "(axes -1 and -2), so W^-1 stays the inverse of W")
    f = ctx.p.get_function(CORE, "diagonalize_form")
    r.analysed(f)
    # the two matrices are told apart by the axis they are permuted along
    # (columns of W: -1, rows of W^-1: -2), not by the names they carry
    def by_axis(fname, axis_pos):
        out = {}
        for n in ast.walk(f.node):
            if isinstance(n, ast.Assign) and isinstance(n.value, ast.Call) \
                    and dotted(n.value.func) == fname \
                    and len(ctx.p.positional_args(n.value)) >= 1:
                ax = next((dotted(k.value) for k in n.value.keywords
                           if k.arg == "axis"), None)
                pa = ctx.p.positional_args(n.value)
                if len(pa) > axis_pos:
                    ax = dotted(pa[axis_pos])
                role = {"-1": "W", "-2": "Winv"}.get(ax)
                if role is None or role in out:
                    return {}
                out[role] = n.value
        return out
    calls = by_axis("permute_along_axis", 2)
    if set(calls) != {"W", "Winv"}:
        # gather form: np.take_along_axis(M, <index built from order>, axis)
        takes = by_axis("np.take_along_axis", 2)
        if set(takes) != {"W", "Winv"}:
            r.note("PA1", loc(f, f.node), "diagonalize_form",
                   "permutation idiom not recognised")
            return
        defs_f = single_defs(f.node)

        def index_source(e, depth=0):
            """name of the index array the gather uses, after peeling
            expand_dims / newaxis and single-assignment locals"""
            while True:
                if isinstance(e, ast.Call) and dotted(e.func) in (
                        "np.expand_dims",) and e.args:
                    e = e.args[0]
                    continue
                if isinstance(e, ast.Subscript):
                    e = e.value
                    continue
                break
            return e
        srcs = {}
        for k, c in takes.items():
            e = index_source(c.args[1])
            chain = [dotted(e)]
            seen = 0
            while isinstance(e, ast.Name) and e.id in defs_f and seen < 4:
                e = index_source(defs_f[e.id])
                chain.append(dotted(e))
                seen += 1
            srcs[k] = chain
        same = srcs["W"][0] == srcs["Winv"][0]
        reinverted = any("argsort" in x for x in srcs["Winv"]
                         if x not in srcs["W"])
        if same and not reinverted:
            r.ok("PA1", "diagonalize_form", loc(f, takes["Winv"]), "",
                 f"both gathers use `{srcs['W'][0]}`")
        else:
            r.violation(
                "PA1", f"{f.fq}|permutation", loc(f, takes["Winv"]),
                dotted(takes["Winv"])[:140],
                f"the columns of W are gathered with `{srcs['W'][0]}` but "
                f"the rows of Winv with `{srcs['Winv'][0]}` "
                f"({' <- '.join(srcs['Winv'])}): row i of the permuted "
                "inverse must be row order[i] of the inverse, i.e. the SAME "
                "index array; with the inverse permutation Winv is the "
                "inverse of W only when the reordering is an involution",
                instance="diagonalize_form")
        return

    def info(c):
        kw = {k.arg: dotted(k.value) for k in c.keywords}
        pa = ctx.p.positional_args(c)
        return (dotted(pa[1]) if len(pa) > 1 else kw.get("permutation"),
                dotted(pa[2]) if len(pa) > 2 else kw.get("axis"),
                dotted(pa[3]) if len(pa) > 3 else kw.get("inverse", "False"))
    w, wi = info(calls["W"]), info(calls["Winv"])
    ok = w[0] == wi[0] and w[2] == wi[2] and {w[1], wi[1]} == {"-1", "-2"}
    if ok:
        r.ok("PA1", "diagonalize_form", loc(f, calls["Winv"]), "",
             f"W: {w}, Winv: {wi}")
    else:
        r.violation(
            "PA1", f"{f.fq}|permutation", loc(f, calls["Winv"]),
            dotted(calls["Winv"])[:140],
            f"W is permuted with (order, axis, inverse)={w} but Winv with "
            f"{wi}: whenever the reordering is not an involution Winv is no "
            "longer the inverse of W, the conjugated generators stop being "
            "involutions and the diagonal form is not preserved",
            instance="diagonalize_form")


def rule_inf1(ctx):
    r = ctx.r
    r.rule("INF1", "bilinear_form treats every label <= 0 as infinite "
                   "(the constructor documents 'zero or negative'): the "
                   "replacement mask compares with `<= 0`")
    f = ctx.p.get_function(COX, "CoxeterGroup.bilinear_form")
    r.analysed(f)
    cmps = []
    for n in ast.walk(f.node):
        if isinstance(n, ast.Assign) and isinstance(n.targets[0], ast.Subscript):
            for c in ast.walk(n.targets[0].slice):
                if isinstance(c, ast.Compare) and len(c.ops) == 1:
                    cmps.append((n, c))
    if not cmps:
        r.note("INF1", loc(f, f.node), "bilinear_form",
               "replacement idiom not recognised")
        return
    n, c = cmps[0]
    from .common import norm_compare
    nc = norm_compare(c)
    if nc is None:
        r.note("INF1", loc(f, c), dotted(c)[:80],
               "comparison form not recognised (not judged)")
        return
    _, opc, rhs = nc
    v = const_value(rhs)
    ok = (opc is ast.LtE and v == 0) or (opc is ast.Lt and v == 1)
    if ok:
        r.ok("INF1", "bilinear_form", loc(f, c), dotted(c),
             "labels <= 0 are replaced")
    else:
        r.violation(
            "INF1", f"{f.fq}|mask", loc(f, c), dotted(c)[:120],
            f"the infinite-label mask is `{dotted(c)}`: a label written as "
            "0 (documented as infinite) is divided by, the cosine form "
            "contains NaN/inf and so does every representation built from "
            "it", instance="bilinear_form")


def rule_of1(ctx):
    r = ctx.r
    r.rule("OF1", "array_like / zeros / ones / identity forward their "
                  "integer_type option to check_type (the integer -> float64 "
                  "promotion of the inferred dtype depends on it)")
    for fn in ("array_like", "zeros", "ones", "identity"):
        f = ctx.p.get_function(CORE, fn)
        r.analysed(f)
        calls = [n for n in ast.walk(f.node) if isinstance(n, ast.Call)
                 and dotted(n.func) == "check_type"]
        if not calls or "integer_type" not in f.params + f.kwonly:
            r.note("OF1", loc(f, f.node), fn, "idiom not recognised")
            continue
        kw = {k.arg: dotted(k.value) for k in calls[0].keywords}
        pos = [dotted(a) for a in calls[0].args]
        if kw.get("integer_type") == "integer_type" or (
                len(pos) >= 5 and pos[4] == "integer_type"):
            r.ok("OF1", fn, loc(f, calls[0]), dotted(calls[0])[:90],
                 "integer_type forwarded")
        else:
            r.violation(
                "OF1", f"{f.fq}|integer_type", loc(f, calls[0]),
                dotted(calls[0])[:140],
                f"{fn} does not forward integer_type to check_type: it "
                "silently reverts to check_type's default, so NumPy-integer "
                "packaging (np.int64 angle, int ndarray) yields an integer "
                "array into which float entries are truncated",
                instance=fn)


# ---------------------------------------------------------------------------
def rule_v2_rename(ctx):
    from .fsa_rules import fsa_class, _arm_views
    r = ctx.r
    r.rule("V2r", "rename_generators(inplace=True) rebuilds all three views "
                  "from the renamed label dictionary (through "
                  "_from_graph_dict or by assigning each view); relabelling "
                  "cells in place is not accepted (overlapping or "
                  "non-injective maps lose or duplicate edges)")
    cls = fsa_class(ctx)
    f = cls.methods.get("rename_generators")
    if f is None:
        raise AnalysisError("FSA.rename_generators has vanished")
    r.analysed(f)
    body = live_statements(f.node.body, {"inplace": True})
    got = _arm_views(cls, body)
    from .fsa_rules import _view_aliases, _chain, view_of
    aliases = _view_aliases(f.node.body)

    def on_view(e):
        base, _ = _chain(e, aliases)
        if view_of(base):
            return True
        # a loop variable / local bound from a view's items()/values()
        if isinstance(base, ast.Name):
            for x in ast.walk(f.node):
                if isinstance(x, (ast.For, ast.comprehension)) and any(
                        isinstance(y, ast.Name) and y.id == base.id
                        for y in ast.walk(x.target)):
                    it = x.iter
                    while isinstance(it, ast.Call) and isinstance(
                            it.func, ast.Attribute):
                        it = it.func.value
                    b2, _ = _chain(it, aliases)
                    if view_of(b2):
                        return True
        return False
    inplace_edits = []
    for st in body:
        for n in ast.walk(st):
            if isinstance(n, (ast.Assign, ast.AugAssign)):
                tg = n.targets if isinstance(n, ast.Assign) else [n.target]
                for t in tg:
                    if isinstance(t, ast.Subscript) and on_view(t.value):
                        inplace_edits.append(n)
            if isinstance(n, ast.Call) and isinstance(n.func, ast.Attribute) \
                    and n.func.attr in ("pop", "update", "clear", "append",
                                        "extend", "remove", "setdefault") \
                    and on_view(n.func.value):
                inplace_edits.append(n)
    # the renamed dictionary keeps every vertex: it is filled from an
    # iteration over a vertex-complete view, not over the edges
    rebuilt = None
    for n in ast.walk(f.node):
        if isinstance(n, ast.Call) and dotted(n.func) in (
                "self._from_graph_dict", "FSA", "self.__class__") and n.args \
                and isinstance(n.args[0], ast.Name):
            rebuilt = n.args[0].id
    src_bad = None
    if rebuilt is not None:
        sources = []
        for n in ast.walk(f.node):
            if isinstance(n, ast.Assign) and dotted(n.targets[0]) == rebuilt \
                    and isinstance(n.value, ast.DictComp):
                sources.append(n.value.generators[0].iter)
            if isinstance(n, ast.For) and any(
                    isinstance(x, (ast.Subscript, ast.Call))
                    and rebuilt in dotted(x)
                    for b in n.body for x in ast.walk(b)
                    if isinstance(x, (ast.Subscript, ast.Call))):
                # outermost loops only
                if not any(isinstance(p, ast.For)
                           for p in _ancestors(f, n)):
                    sources.append(n.iter)
        for it in sources:
            t = dotted(it)
            if "edges(" in t:
                src_bad = it
    if src_bad is not None:
        r.violation(
            "V2r", f"{f.fq}|edge-iteration", loc(f, src_bad),
            dotted(src_bad)[:120],
            f"the renamed dictionary `{rebuilt}` is filled by iterating "
            "over the edges: a vertex without outgoing edges gets no key, "
            "so it disappears from all three views of the renamed "
            "automaton", instance="rename_generators[vertices]")
    ALL = {"out", "in", "graph"}
    if got >= ALL and not inplace_edits:
        r.ok("V2r", "rename_generators[inplace]", loc(f, f.node), "",
             "all three views are rebuilt from the renamed dictionary")
    else:
        why = []
        if not got >= ALL:
            why.append(f"the {sorted(ALL - got)} view(s) are not rebuilt")
        if inplace_edits:
            why.append("cells are relabelled in place (`"
                       + norm_stmt(_stmt_of(f, inplace_edits[0]))[:70] + "`)")
        st = inplace_edits[0] if inplace_edits else f.node
        r.violation(
            "V2r", f"{f.fq}|inplace", loc(f, st),
            norm_stmt(_stmt_of(f, st))[:140] if inplace_edits else
            "rename_generators",
            "; ".join(why) + ": with a map that sends two parallel labels "
            "to one, or whose new labels overlap the old ones (a<->A), the "
            "label view and the out/in views end up with different edge "
            "sets", instance="rename_generators[inplace]")


# ---------------------------------------------------------------------------
def rule_cm1(ctx):
    r = ctx.r
    r.rule("CM1", "from_diagram builds the Coxeter matrix by iterating the "
                  "same generator order in both dimensions and indexing the "
                  "order table with both loop variables; generator_index "
                  "and ordered_gens are mutually inverse")
    f = ctx.p.get_function(COX, "CoxeterGroup.from_diagram")
    r.analysed(f)
    comp = None
    for n in ast.walk(f.node):
        if isinstance(n, ast.Assign) and dotted(n.targets[0]) == \
                "self.coxeter_matrix":
            for c in ast.walk(n.value):
                if isinstance(c, ast.ListComp) and isinstance(c.elt, ast.ListComp):
                    comp = c
    if comp is None:
        r.note("CM1", loc(f, f.node), "from_diagram",
               "matrix comprehension not recognised; not judged")
        return
    outer = comp.generators[0]
    inner = comp.elt.generators[0]
    o_it, i_it = dotted(outer.iter), dotted(inner.iter)
    elt = comp.elt.elt
    uses = {x.id for x in ast.walk(elt) if isinstance(x, ast.Name)}
    both = {dotted(outer.target), dotted(inner.target)} <= uses
    if o_it == i_it and both:
        r.ok("CM1", "from_diagram", loc(f, comp), dotted(comp)[:100],
             f"rows and columns both iterate `{o_it}`")
    else:
        r.violation(
            "CM1", f"{f.fq}|matrix", loc(f, comp), dotted(comp)[:160],
            f"rows iterate `{o_it}` but columns iterate `{i_it}`"
            + ("" if both else " and the entry is not indexed by both loop "
               "variables")
            + ": when the two orders differ (edges listed in an order other "
              "than the canonical one) the Coxeter matrix is row-permuted "
              "and non-symmetric, and the representations violate the "
              "relations", instance="from_diagram")


def rule_dv1(ctx):
    r = ctx.r
    r.rule("DV1", "the neighbour clean-up loops of FSA.delete_vertex are "
                  "never cut short (no break / return): every parallel edge "
                  "into the deleted vertex is removed from the label view")
    f = ctx.p.get_function(FSA, "FSA.delete_vertex")
    r.analysed(f)
    bad = [n for n in ast.walk(f.node)
           if isinstance(n, (ast.Break, ast.Return))]
    pops = [n for n in ast.walk(f.node) if isinstance(n, ast.Call)
            and isinstance(n.func, ast.Attribute) and n.func.attr == "pop"
            and "_graph_dict[" in dotted(n.func.value)]
    parents = f.module.parents
    in_loop = []
    for p_ in pops:
        cur = p_
        depth = 0
        while cur is not f.node:
            cur = parents[cur]
            if isinstance(cur, ast.For):
                depth += 1
        in_loop.append(depth)
    if bad:
        r.violation(
            "DV1", f"{f.fq}|early-exit", loc(f, bad[0]),
            norm_stmt(_stmt_of(f, bad[0]))[:100],
            "the clean-up of labels pointing at the deleted vertex stops at "
            "the first match: with parallel edges w -> v (different labels) "
            "the label view keeps a dangling edge to the removed vertex "
            "while the out/in views drop it", instance="delete_vertex")
    elif pops and max(in_loop) < 2:
        r.violation(
            "DV1", f"{f.fq}|single-pop", loc(f, pops[0]), dotted(pops[0]),
            "the label pointing at the deleted vertex is removed outside the "
            "per-label loop (at most one label per neighbour is removed)",
            instance="delete_vertex")
    else:
        r.ok("DV1", "delete_vertex", loc(f, f.node), "",
             "all labels of every in-neighbour are examined")


def rule_bfs1(ctx):
    r = ctx.r
    r.rule("BFS1", "remove_long_paths explores breadth first: the vertex "
                   "queue is fed at the right (append/extend) and consumed "
                   "at the left (popleft); distances are assigned on first "
                   "discovery, which is only correct in FIFO order")
    f = ctx.p.get_function(FSA, "FSA.remove_long_paths")
    r.analysed(f)
    q = None
    for n in ast.walk(f.node):
        if isinstance(n, ast.Assign) and isinstance(n.value, ast.Call) \
                and dotted(n.value.func) in ("deque", "collections.deque"):
            q = dotted(n.targets[0])
    if q is None:
        r.note("BFS1", loc(f, f.node), "remove_long_paths",
               "no deque; not judged")
        return
    ops = {}
    for n in ast.walk(f.node):
        if isinstance(n, ast.Call) and isinstance(n.func, ast.Attribute) \
                and dotted(n.func.value) == q:
            ops.setdefault(n.func.attr, n)
    takes = [k for k in ops if k in ("pop", "popleft")]
    puts = [k for k in ops if k in ("append", "extend", "appendleft",
                                    "extendleft")]
    fifo = (takes == ["popleft"] and set(puts) <= {"append", "extend"}) or (
        takes == ["pop"] and set(puts) <= {"appendleft", "extendleft"})
    if fifo:
        r.ok("BFS1", "remove_long_paths", loc(f, ops[takes[0]]),
             f"{q}.{takes[0]}()", "first in, first out")
    else:
        n = ops[takes[0]] if takes else f.node
        r.violation(
            "BFS1", f"{f.fq}|queue", loc(f, n),
            f"{q}: take={takes} put={puts}",
            "the queue is not consumed first-in-first-out: the traversal is "
            "depth first while distances are still fixed on first "
            "discovery, so a vertex reached first along a longer branch "
            "keeps the wrong distance and true shortest-path edges are "
            "dropped", instance="remove_long_paths")


def rule_fw1(ctx):
    r = ctx.r
    r.rule("FW1", "free_words_of_length attaches the new generator on the "
                  "side of the word whose letter the free-reduction test "
                  "inspects (word + g with word[-1], or g + word with "
                  "word[0])")
    f = ctx.p.get_function(REP, "Representation.free_words_of_length")
    r.analysed(f)
    side = None
    idx = None
    ynode = None
    # the shorter word is the loop variable ranging over the recursive call
    wv = "word"
    for n in ast.walk(f.node):
        if isinstance(n, ast.For) and isinstance(n.target, ast.Name) and any(
                isinstance(c, ast.Call) and dotted(c.func).endswith(
                    "free_words_of_length") for c in ast.walk(n.iter)):
            wv = n.target.id
    for n in ast.walk(f.node):
        if isinstance(n, ast.Yield) and isinstance(n.value, ast.BinOp) \
                and isinstance(n.value.op, ast.Add):
            L, R = dotted(n.value.left), dotted(n.value.right)
            if L == wv:
                side = "append"
            elif R == wv:
                side = "prepend"
            ynode = n
        if isinstance(n, ast.Subscript) and dotted(n.value) == wv:
            v = const_value(n.slice)
            if v in (-1, 0):
                idx = v
    if side is None or idx is None:
        r.note("FW1", loc(f, f.node), "free_words_of_length",
               "idiom not recognised; not judged")
        return
    if (side, idx) in (("append", -1), ("prepend", 0)):
        r.ok("FW1", "free_words_of_length", loc(f, ynode), dotted(ynode),
             f"letter is {side}ed and word[{idx}] is tested")
    else:
        r.violation(
            "FW1", f"{f.fq}|side", loc(f, ynode), dotted(ynode),
            f"the generator is {side}ed but the reduction test looks at "
            f"word[{idx}]: from length 3 on non-reduced words such as 'Bba' "
            "are produced and reduced ones are missing",
            instance="free_words_of_length")


def rule_gi1(ctx):
    r = ctx.r
    r.rule("GI1", "ProjectiveObject.__getitem__ rebuilds the selection from "
                  "the primary data only (derived data is recomputed): "
                  "auxiliary / dual data is never indexed with the caller's "
                  "key, which may cut into the unit axes")
    f = ctx.p.get_function(PROJ, "ProjectiveObject.__getitem__")
    r.analysed(f)
    key = f.params[1]
    bad = [n for n in ast.walk(f.node) if isinstance(n, ast.Subscript)
           and dotted(n.slice) == key
           and dotted(n.value) in ("self.aux_data", "self.dual_data")]
    if not bad:
        r.ok("GI1", "__getitem__", loc(f, f.node), "",
             "only proj_data is indexed")
    else:
        r.violation(
            "GI1", f"{f.fq}|aux-index", loc(f, bad[0]), dotted(bad[0]),
            f"`{dotted(bad[0])}` carries stored derived data through an "
            "arbitrary index: a key that reaches into the unit axes "
            "(polys[:, :4], polys[0, 1:4]) selects vertices but keeps the "
            "old edges, which then no longer match the vertices",
            instance="__getitem__")


# ---------------------------------------------------------------------------
def rule_pt1(ctx, rels, scope=None):
    r = ctx.r
    r.rule("PT1", "a function that splits the last (coordinate) axis with an "
                  "end-complement slice `[..., :-1]` / `[..., 1:]` addresses "
                  "the remaining coordinate with the complementary end index "
                  "(-1 / 0), never with a fixed interior index: index 1 and "
                  "index -1 coincide only in dimension 2")
    n_f = 0
    for rel in rels:
        m = ctx.p.module_by_rel(rel)
        for f in ctx.p.all_functions:
            if f.module is not m or f.parent is not None:
                continue
            if scope is not None and f not in scope:
                continue
            # per subscripted array: the end-complement slices and the fixed
            # indices applied to ITS last axis (two different arrays of one
            # function say nothing about each other)
            # a copy / view of an array has the same coordinate axis:
            # `c = a[:]`, `c = np.array(a)`, `c = a.copy()` belong to a's group
            group = {}

            def root(nm):
                seen_ = set()
                while nm in group and nm not in seen_:
                    seen_.add(nm)
                    nm = group[nm]
                return nm
            for st in ast.walk(f.node):
                if not (isinstance(st, ast.Assign) and len(st.targets) == 1
                        and isinstance(st.targets[0], ast.Name)):
                    continue
                v = st.value
                src = None
                if isinstance(v, ast.Name):
                    src = v.id
                elif isinstance(v, ast.Subscript) and isinstance(
                        v.value, ast.Name) and isinstance(v.slice, ast.Slice) \
                        and v.slice.lower is None and v.slice.upper is None:
                    src = v.value.id
                elif isinstance(v, ast.Call) and dotted(v.func) in (
                        "np.array", "np.copy", "np.asarray", "copy.copy",
                        "copy.deepcopy") and v.args \
                        and isinstance(v.args[0], ast.Name):
                    src = v.args[0].id
                elif isinstance(v, ast.Call) and isinstance(
                        v.func, ast.Attribute) and v.func.attr == "copy" \
                        and isinstance(v.func.value, ast.Name):
                    src = v.func.value.id
                if src is not None and src != st.targets[0].id:
                    group[st.targets[0].id] = src
            per = {}
            for n in ast.walk(f.node):
                if not isinstance(n, ast.Subscript):
                    continue
                sl = n.slice
                if not (isinstance(sl, ast.Tuple) and len(sl.elts) == 2
                        and isinstance(sl.elts[0], ast.Constant)
                        and sl.elts[0].value is Ellipsis):
                    continue
                key = root(n.value.id) if isinstance(n.value, ast.Name) \
                    else dotted(n.value)
                S, C = per.setdefault(key, ({}, {}))
                li = sl.elts[1]
                if isinstance(li, ast.Slice):
                    S.setdefault(dotted(li), n)
                else:
                    v = const_value(li)
                    if isinstance(v, int) and not isinstance(v, bool):
                        C.setdefault(v, n)
            judged = False
            for base, (S, C) in sorted(per.items()):
                ends = set(S) & {"1:", ":-1"}
                if not ends:
                    continue
                if not judged:
                    n_f += 1
                    r.analysed(f)
                    judged = True
                allowed = set()
                if ":-1" in ends:
                    allowed.add(-1)
                if "1:" in ends:
                    allowed.add(0)
                bad = sorted(set(C) - allowed)
                inst = f"{f.qualname}:last-axis"
                if not bad:
                    r.ok("PT1", inst + f":{base[:30]}", loc(f, f.node), "",
                         f"`{base[:40]}`: slices {sorted(ends)} with indices "
                         f"{sorted(C)}")
                else:
                    n = C[bad[0]]
                    r.violation(
                        "PT1", f"{f.fq}|index:{bad[0]}", loc(f, n),
                        norm_stmt(_stmt_of(f, n))[:140],
                        f"the last axis of `{base[:40]}` is split with "
                        f"{sorted(ends)} but a "
                        f"coordinate is addressed with the fixed index "
                        f"{bad[0]}: that is the complementary coordinate only in "
                        "one particular dimension (2), so in higher dimensions "
                        "the wrong coordinate is read / written (and dimension 1 "
                        "raises IndexError)", instance=inst)
    if n_f == 0:
        r.note("PT1", ",".join(rels), "", "no end-complement slicing in scope")


# ---------------------------------------------------------------------------
def rule_eig1(ctx, only=None):
    r = ctx.r
    r.rule("EIG1", "every eigen-decomposition of a stored (row-convention) "
                   "transformation matrix is taken of its transpose "
                   "(.swapaxes(-1,-2) / .T), so the eigenvectors returned "
                   "are the fixed directions of the action on points; the "
                   "four sites agree")
    sites = [(HYP, "Hyperplane.from_reflection"),
             (HYP, "Isometry._fixpoint_data"),
             (PROJ, "Transformation.eigenvector"),
             (PROJ, "Transformation.diagonalize")]
    for rel, q in sites:
        if only is not None and q not in only:
            continue
        f = ctx.p.get_function(rel, q)
        r.analysed(f)
        defs = single_defs(f.node)
        calls = [n for n in ast.walk(f.node) if isinstance(n, ast.Call)
                 and dotted(n.func) in ("utils.eig", "np.linalg.eig")]
        if not calls:
            r.note("EIG1", loc(f, f.node), q, "no eig call; not judged")
            continue
        c = calls[0]
        a = c.args[0]
        exprs = [a]
        if isinstance(a, ast.Name):
            for n in ast.walk(f.node):
                if isinstance(n, ast.Assign) and dotted(n.targets[0]) == a.id:
                    exprs.append(n.value)
        # in from_reflection the fallback `matrix = reflection` (raw ndarray
        # argument, column convention by documentation) is not a stored matrix
        stored = [e for e in exprs if any(
            isinstance(x, ast.Attribute) and x.attr in ("matrix", "proj_data")
            for x in ast.walk(e))]
        if not stored:
            r.note("EIG1", loc(f, c), dotted(c)[:80],
                   "argument is not a stored matrix; not judged")
            continue
        e = stored[0]
        t = 0
        cur = e
        while True:
            if isinstance(cur, ast.Attribute) and cur.attr == "T":
                t += 1
                cur = cur.value
            elif isinstance(cur, ast.Call) and isinstance(cur.func, ast.Attribute) \
                    and cur.func.attr == "swapaxes":
                t += 1
                cur = cur.func.value
            elif isinstance(cur, ast.Call) and dotted(cur.func) in (
                    "np.swapaxes", "np.transpose") and cur.args:
                t += 1
                cur = cur.args[0]
            else:
                break
        inst = f"{q}:eig"
        if t % 2 == 1:
            r.ok("EIG1", inst, loc(f, c), dotted(e)[:80],
                 "eigenvectors of the transposed (column-convention) matrix")
        else:
            r.violation(
                "EIG1", f"{f.fq}|eig", loc(f, c), dotted(e)[:120],
                f"eig is applied to `{dotted(e)[:60]}` without transposing "
                "the stored row matrix: the vectors returned are left "
                "eigenvectors, which for a non-symmetric matrix are not the "
                "points fixed by the transformation (fixed points, axes, "
                "walls and diagonalising frames come out wrong)",
                instance=inst)
        # the eigenvectors of a general (projective) transformation are
        # complex as soon as one eigenvalue is: never keep only real parts
        if rel == PROJ:
            tgt = None
            for n in ast.walk(f.node):
                if isinstance(n, ast.Assign) and n.value is c \
                        and isinstance(n.targets[0], ast.Tuple) \
                        and len(n.targets[0].elts) == 2 \
                        and isinstance(n.targets[0].elts[1], ast.Name):
                    tgt = n.targets[0].elts[1].id
            if tgt is not None:
                realed = [n for n in ast.walk(f.node) if (
                    isinstance(n, ast.Attribute) and n.attr == "real"
                    and dotted(n.value) == tgt) or (
                    isinstance(n, ast.Call) and dotted(n.func) in (
                        "np.real", "utils.real", "np.real_if_close")
                    and n.args and dotted(n.args[0]) == tgt)]
                if realed:
                    n = realed[0]
                    r.violation(
                        "EIG1", f"{f.fq}|real-part", loc(f, n),
                        dotted(n)[:100],
                        f"only the real part of the eigenvectors `{tgt}` is "
                        "kept: for a real transformation with a complex-"
                        "conjugate eigenvalue pair (every rotation block) "
                        "the real part of an eigenvector is not an "
                        "eigenvector, so eigenvector() returns a point that "
                        "is not mapped to a multiple of itself",
                        instance=f"{q}:complex-kept")
                else:
                    r.ok("EIG1", f"{q}:complex-kept", loc(f, c), "",
                         "eigenvectors keep their imaginary parts")


def rule_ref1(ctx):
    r = ctx.r
    r.rule("REF1", "Subspace.reflection_across conjugates the form by the "
                   "adapted basis as B^-1 @ J @ B (outer factors mutually "
                   "inverse, J = self.minkowski) and wraps the result in "
                   "the row convention")
    f = ctx.p.get_function(HYP, "Subspace.reflection_across")
    r.analysed(f)
    from ..norm import forward_subst
    rets_s, _ = forward_subst(f.node)
    prod = None
    for e in rets_s:
        if e is None:
            continue
        for n in ast.walk(e):
            if isinstance(n, ast.Call) and dotted(n.func) == "Isometry" \
                    and n.args and isinstance(n.args[0], ast.BinOp) \
                    and isinstance(n.args[0].op, ast.MatMult):
                prod = ast.Assign(targets=[ast.Name(id="refdata",
                                                    ctx=ast.Store())],
                                  value=n.args[0])
                ast.copy_location(prod, n)
                ast.fix_missing_locations(prod)
    if prod is None:
        r.note("REF1", loc(f, f.node), "reflection_across",
               "product idiom not recognised; not judged")
        return
    parts = []

    def flat(x):
        if isinstance(x, ast.BinOp) and isinstance(x.op, ast.MatMult):
            flat(x.left)
            flat(x.right)
        else:
            parts.append(x)
    flat(prod.value)
    ok = False
    if len(parts) == 3:
        a, j, b = parts
        inv_a = isinstance(a, ast.Call) and dotted(a.func) in (
            "utils.invert", "np.linalg.inv") and a.args \
            and dotted(a.args[0]) == dotted(b)
        inv_b = isinstance(b, ast.Call) and dotted(b.func) in (
            "utils.invert", "np.linalg.inv") and b.args \
            and dotted(b.args[0]) == dotted(a)
        ok = (inv_a or inv_b) and dotted(j) == "self.minkowski"
        order_ok = inv_a
    if ok and order_ok:
        r.ok("REF1", "reflection_across", loc(f, prod), norm_stmt(prod)[:100],
             "invert(B) @ J @ B")
    elif ok:
        r.violation("REF1", f"{f.fq}|order", loc(f, prod),
                    norm_stmt(prod)[:140],
                    "the conjugation is B @ J @ B^-1; with the rows of B "
                    "spanning the hyperplane the row-convention reflection "
                    "is B^-1 @ J @ B", instance="reflection_across")
    else:
        r.violation("REF1", f"{f.fq}|conjugation", loc(f, prod),
                    norm_stmt(prod)[:140],
                    "the reflection is not the conjugate invert(B) @ "
                    "self.minkowski @ B of the form by the adapted basis: it "
                    "is not an involution fixing the hyperplane",
                    instance="reflection_across")
    rets = [n for n in ast.walk(f.node) if isinstance(n, ast.Return)
            and isinstance(n.value, ast.Call)
            and dotted(n.value.func) == "Isometry"]
    if rets:
        cv = None
        for k in rets[0].value.keywords:
            if k.arg == "column_vectors":
                cv = const_value(k.value, "?")
        if cv in (None, False):
            r.ok("REF1", "reflection_across:convention", loc(f, rets[0]),
                 norm_stmt(rets[0]), "row convention")
        else:
            r.violation("REF1", f"{f.fq}|convention", loc(f, rets[0]),
                        norm_stmt(rets[0]),
                        "the conjugate is a row matrix but is wrapped with "
                        f"column_vectors={cv}", instance="reflection_across")


# ---------------------------------------------------------------------------
def rule_mean1(ctx, rels, scope=None, min_sites=0):
    r = ctx.r
    r.rule("MEAN1", "an average written as `X.sum(axis=k) / <size of X>` "
                    "divides by the size of the axis it summed over "
                    "(X.shape[k] with the same, end-relative k); "
                    "`len(X)` / `X.shape[0]` is the size of the first "
                    "COMPOSITE axis as soon as the object is an array of "
                    "objects")
    n_s = 0

    def sum_of(e):
        """(array text, axis) if e is X.sum(axis=k) / np.sum(X, axis=k)"""
        if not isinstance(e, ast.Call):
            return None
        axis = None
        for k in e.keywords:
            if k.arg == "axis":
                axis = const_value(k.value)
        if isinstance(e.func, ast.Attribute) and e.func.attr == "sum" \
                and dotted(e.func.value) not in ("np", "numpy"):
            if axis is None and e.args:
                axis = const_value(e.args[0])
            return dotted(e.func.value), axis
        if dotted(e.func) in ("np.sum", "numpy.sum") and e.args:
            if axis is None and len(e.args) > 1:
                axis = const_value(e.args[1])
            return dotted(e.args[0]), axis
        return None

    def size_of(e):
        """(array text, axis) if e is X.shape[j] / len(X) / np.shape(X)[j]"""
        if isinstance(e, ast.Call) and dotted(e.func) == "len" and e.args:
            return dotted(e.args[0]), 0
        if isinstance(e, ast.Subscript):
            j = const_value(e.slice)
            v = e.value
            if isinstance(v, ast.Attribute) and v.attr == "shape":
                return dotted(v.value), j
            if isinstance(v, ast.Call) and dotted(v.func) in (
                    "np.shape", "numpy.shape") and v.args:
                return dotted(v.args[0]), j
        return None
    for rel in rels:
        m = ctx.p.module_by_rel(rel)
        for f in ctx.p.all_functions:
            if f.module is not m:
                continue
            if scope is not None and f not in scope:
                continue
            # a literal divisor where `X.shape[j] == <that literal>` is in
            # force (enclosing `if`, or after `if X.shape[j] != K: return`)
            # is the size of axis j of X
            pinned = {}
            pc = path_conditions(f.node)
            for n in ast.walk(f.node):
                if not (isinstance(n, ast.BinOp) and isinstance(
                        const_value(n.right), int)):
                    continue
                st = stmt_of(n, f.module.parents)
                for t, pol in pc.get(id(st), []):
                    if not (isinstance(t, ast.Compare) and len(t.ops) == 1):
                        continue
                    sz = size_of(t.left)
                    cv = const_value(t.comparators[0])
                    if sz is None:
                        sz = size_of(t.comparators[0])
                        cv = const_value(t.left)
                    if sz is None or cv != const_value(n.right):
                        continue
                    if (isinstance(t.ops[0], ast.Eq) and pol) or (
                            isinstance(t.ops[0], ast.NotEq) and not pol):
                        pinned[id(n)] = sz
            for n in ast.walk(f.node):
                if not (isinstance(n, ast.BinOp)
                        and isinstance(n.op, (ast.Div, ast.FloorDiv))):
                    continue
                s = sum_of(n.left)
                d = size_of(n.right) or pinned.get(id(n))
                if s is None or d is None or s[0] != d[0]:
                    continue
                if not isinstance(s[1], int) or not isinstance(d[1], int):
                    continue
                n_s += 1
                r.analysed(f)
                inst = f"{f.qualname}:mean[{s[0]}]"
                if s[1] == d[1]:
                    r.ok("MEAN1", inst, loc(f, n), dotted(n)[:100],
                         f"sums and divides over axis {s[1]}")
                else:
                    r.violation(
                        "MEAN1", f"{f.fq}|mean:{s[0]}", loc(f, n),
                        dotted(n)[:160],
                        f"`{s[0]}` is summed over axis {s[1]} but divided by "
                        f"the size of axis {d[1]}: the two agree only for a "
                        "single object (or a particular dimension); for an "
                        "array of objects the midpoint is scaled by the "
                        "wrong count", instance=inst)
    if n_s < min_sites:
        # the anchors exist (module parsed); fewer `sum / size` idioms than
        # were confirmed by hand means some were rewritten in another form,
        # which this rule does not judge
        r.note("MEAN1", ",".join(rels), "mean idioms",
               f"{n_s} `X.sum(axis) / size` idiom(s) found, {min_sites} "
               "confirmed by hand on the pinned tree: the others are "
               "written in a form this rule does not read (not judged)")
    return n_s


# ---------------------------------------------------------------------------
def rule_tp1(ctx):
    r = ctx.r
    r.rule("TP1", "Representation.tensor_product pairs the two factors' "
                  "generator images BY NAME: the other representation is "
                  "only subscripted (rep[g] / rep.generators[g]) with a "
                  "generator taken from self's iteration, never iterated "
                  "itself (two dictionaries need not share an insertion "
                  "order)")
    f = ctx.p.get_function(REP, "Representation.tensor_product")
    r.analysed(f)
    other = f.params[1] if len(f.params) > 1 else "rep"
    iters = []
    for n in ast.walk(f.node):
        its = []
        if isinstance(n, ast.For):
            its.append(n.iter)
        if isinstance(n, (ast.ListComp, ast.GeneratorExp, ast.SetComp,
                          ast.DictComp)):
            its += [g.iter for g in n.generators]
        if isinstance(n, ast.Call) and dotted(n.func) in ("zip", "map",
                                                          "list", "sorted",
                                                          "enumerate"):
            its += list(n.args)
        for it in its:
            for x in ast.walk(it):
                if isinstance(x, ast.Name) and x.id == other:
                    # membership tests / len() are not pairings
                    iters.append((n, it))
    # the symmetric-generator guard (`set(rep.generators) != ...`) compares
    # key sets and is not an iteration that pairs images
    iters = [(n, it) for n, it in iters
             if not any(isinstance(p, ast.Compare)
                        for p in _ancestors(f, it))]
    if not iters:
        r.ok("TP1", "tensor_product", loc(f, f.node), "",
             f"`{other}` is only looked up by generator name")
    else:
        n, it = iters[0]
        r.violation(
            "TP1", f"{f.fq}|iterates-other", loc(f, it), dotted(it)[:120],
            f"the images of `{other}` are taken in `{other}`'s own "
            "iteration order and paired positionally with self's: if the "
            "two representations had their generators assigned in "
            "different orders, tensor[g] = kron(self[g], other[g']) for "
            "g' != g", instance="tensor_product")


def _ancestors(f, node):
    parents = f.module.parents
    cur = node
    while cur in parents and cur is not f.node:
        cur = parents[cur]
        yield cur


def rule_pm1(ctx, rels, scope=None):
    r = ctx.r
    r.rule("PM1", "np.putmask(a, mask, values) reads `values` at the "
                  "positions of `a` (cycling it if shorter): values "
                  "computed on the selection `x[mask]` are misaligned; "
                  "np.place / a[mask] = ... are the forms that consume "
                  "one value per selected entry")
    n_s = 0
    for rel in rels:
        m = ctx.p.module_by_rel(rel)
        for f in ctx.p.all_functions:
            if f.module is not m:
                continue
            if scope is not None and f not in scope:
                continue
            for n in ast.walk(f.node):
                if not (isinstance(n, ast.Call)
                        and dotted(n.func) in ("np.putmask", "numpy.putmask")
                        and len(n.args) >= 3):
                    continue
                n_s += 1
                r.analysed(f)
                mask = dotted(n.args[1])
                compressed = [x for x in ast.walk(n.args[2])
                              if isinstance(x, ast.Subscript)
                              and dotted(x.slice) == mask]
                inst = f"{f.qualname}:putmask({dotted(n.args[0])})"
                if not compressed:
                    r.ok("PM1", inst, loc(f, n), dotted(n)[:100],
                         "values are not a masked selection")
                else:
                    r.violation(
                        "PM1", f"{f.fq}|putmask:{dotted(n.args[0])}",
                        loc(f, n), dotted(n)[:140],
                        f"`{dotted(compressed[0])}` has one entry per "
                        "selected position, but np.putmask indexes values "
                        "by absolute position: every selected entry after "
                        "the first unselected one receives another "
                        "entry's value", instance=inst)
    return n_s



# ---------------------------------------------------------------------------
def rule_acc1(ctx, rels):
    r = ctx.r
    r.rule("ACC1", "a per-edge accumulator is filled with "
                   "`D.setdefault(k, []).append(x)` / defaultdict(list); "
                   "`D.setdefault(k, [x])` as a bare statement keeps only "
                   "the first x for each key (every later label of a "
                   "parallel edge is dropped)")
    n = 0
    for rel in rels:
        m = ctx.p.module_by_rel(rel)
        for f in ctx.p.all_functions:
            if f.module is not m:
                continue
            for st in ast.walk(f.node):
                if not (isinstance(st, ast.Expr)
                        and isinstance(st.value, ast.Call)
                        and isinstance(st.value.func, ast.Attribute)
                        and st.value.func.attr == "setdefault"
                        and len(st.value.args) == 2):
                    continue
                d = st.value.args[1]
                if not (isinstance(d, (ast.List, ast.Set)) and d.elts):
                    continue
                # inside a loop whose variable appears in the default?
                loopvars = set()
                for p in _ancestors(f, st):
                    if isinstance(p, ast.For):
                        loopvars |= {x.id for x in ast.walk(p.target)
                                     if isinstance(x, ast.Name)}
                used = {x.id for e in d.elts for x in ast.walk(e)
                        if isinstance(x, ast.Name)}
                if not (used & loopvars):
                    continue
                n += 1
                r.analysed(f)
                r.violation(
                    "ACC1", f"{f.fq}|{norm_stmt(st)[:80]}", loc(f, st),
                    norm_stmt(st)[:140],
                    f"`{dotted(st.value)[:70]}` stores a one-element list "
                    "the first time the key is seen and does nothing "
                    "afterwards: with two labels on one (tail, head) pair "
                    "the view built here lists one of them while the other "
                    "views list both", instance=f"{f.qualname}:setdefault")
    if n == 0:
        r.ok("ACC1", "accumulators", ",".join(rels), "",
             "no first-wins setdefault accumulator")


def rule_flip1(ctx):
    from ..paths import enumerate_paths
    r = ctx.r
    r.rule("FLIP1", "in Isometry._fixpoint_data the index array that orders "
                    "the eigenvectors is reversed (np.flip along the last "
                    "axis) on every path to the gather, whichever way it "
                    "was computed: both orderings are ascending (argsort / "
                    "lexsort), and the fixed points inside the closed ball "
                    "(largest key) must come first")
    f = ctx.p.get_function(HYP, "Isometry._fixpoint_data")
    r.analysed(f)
    flips = [st for st in ast.walk(f.node) if isinstance(st, ast.stmt)
             and not isinstance(st, (ast.If, ast.For, ast.While, ast.Try,
                                     ast.With, ast.FunctionDef))
             and any(isinstance(c, ast.Call) and dotted(c.func) == "np.flip"
                     for c in ast.walk(st))]
    gathers = [st for st in ast.walk(f.node) if isinstance(st, ast.stmt)
               and not isinstance(st, (ast.If, ast.For, ast.While, ast.Try,
                                       ast.With, ast.FunctionDef))
               and any(isinstance(c, ast.Call)
                       and dotted(c.func) == "np.take_along_axis"
                       for c in ast.walk(st))]
    if not flips or not gathers:
        r.note("FLIP1", loc(f, f.node), "_fixpoint_data",
               "sort / flip / gather idiom not recognised (not judged)")
        return
    flag = f.params[1] if len(f.params) > 1 else "sort_eigvals"
    bad = None
    npaths = 0
    for val in (True, False):
        for p in enumerate_paths(f.node, stable=(flag,),
                                 markers=flips + gathers,
                                 flags={flag: val}):
            ev = p.events
            gi = [i for i, e in enumerate(ev)
                  if any(e is g for g in gathers)]
            if not gi:
                continue
            npaths += 1
            if not any(any(e is fl for fl in flips) for e in ev[:gi[0] + 1]):
                bad = (val, ev[gi[0]])
    if bad is None:
        r.ok("FLIP1", "_fixpoint_data", loc(f, flips[0]),
             norm_stmt(flips[0])[:100],
             f"{npaths} path(s) to the gather, all reversed")
    else:
        val, g = bad
        r.violation(
            "FLIP1", f"{f.fq}|unflipped:{flag}={val}", loc(f, g),
            norm_stmt(g)[:140],
            f"with {flag}={val} the ordering reaches the gather without "
            "being reversed: eigenvectors outside the light cone (key 0) "
            "come first, so fixed_point / fixed_point_pair report points "
            "outside the closed ball", instance="_fixpoint_data")


# ---------------------------------------------------------------------------
CONJ_CALLS = {"np.conj", "np.conjugate"}
CONJ_METHODS = {"conj", "conjugate"}


def _is_conj_of(e, name):
    """e is conj(<expr built on name>)"""
    if isinstance(e, ast.Call):
        if dotted(e.func) in CONJ_CALLS and e.args and any(
                isinstance(x, ast.Name) and x.id == name
                for x in ast.walk(e.args[0])):
            return True
        if isinstance(e.func, ast.Attribute) and e.func.attr in CONJ_METHODS \
                and any(isinstance(x, ast.Name) and x.id == name
                        for x in ast.walk(e.func.value)):
            return True
    return False


def rule_svd1(ctx, min_sites=1):
    r = ctx.r
    r.rule("SVD1", "np.linalg.svd returns V^H: wherever rows of its third "
                   "output are used as (null / singular) vectors they are "
                   "conjugated first, so that complex matrices are handled "
                   "(for real input the conjugate is the identity)")
    sites = 0
    for f in ctx.p.all_functions:
        for st in ast.walk(f.node):
            if not (isinstance(st, ast.Assign)
                    and isinstance(st.value, ast.Call)
                    and dotted(st.value.func) in ("np.linalg.svd",
                                                  "numpy.linalg.svd",
                                                  "linalg.svd")):
                continue
            kw = {k.arg: k.value for k in st.value.keywords}
            cu = kw.get("compute_uv")
            if isinstance(cu, ast.Constant) and cu.value is False:
                continue
            tgt = st.targets[0]
            vh = None
            if isinstance(tgt, ast.Tuple) and len(tgt.elts) == 3 \
                    and isinstance(tgt.elts[2], ast.Name):
                vh = tgt.elts[2].id
            elif isinstance(tgt, ast.Name):
                # res = svd(..); res[2] / res.Vh uses
                vh = None
            if vh is None or vh == "_":
                continue
            sites += 1
            r.analysed(f)
            # every read of vh must sit under a conjugation
            parents = {}
            for n in ast.walk(f.node):
                for c in ast.iter_child_nodes(n):
                    parents[c] = n
            bad = None
            nreads = 0
            for n in ast.walk(f.node):
                if not (isinstance(n, ast.Name) and n.id == vh
                        and isinstance(n.ctx, ast.Load)):
                    continue
                nreads += 1
                p = n
                ok = False
                while p in parents:
                    p = parents[p]
                    if _is_conj_of(p, vh):
                        ok = True
                        break
                    if isinstance(p, ast.stmt):
                        break
                if not ok:
                    bad = bad or n
            if bad is not None:
                stmt = bad
                while not isinstance(stmt, ast.stmt):
                    stmt = parents[stmt]
                r.violation(
                    "SVD1", f"{f.fq}|{vh}-unconjugated", loc(f, stmt),
                    norm_stmt(stmt)[:140],
                    f"`{vh}` is the V^H factor of np.linalg.svd and is read "
                    "here without a conjugate: its rows are the conjugates "
                    "of the right-singular vectors, so for a complex matrix "
                    "A the 'kernel' vectors taken from it satisfy "
                    "A @ conj(v) = 0, not A @ v = 0",
                    instance=f"{f.qualname}:svd")
            else:
                r.ok("SVD1", f"{f.qualname}:svd", loc(f, st),
                     norm_stmt(st)[:100],
                     f"{nreads} read(s) of `{vh}`, all conjugated")
    if sites < min_sites:
        raise AnalysisError(f"SVD1: {sites} svd site(s) with a V^H output, "
                            f"expected >= {min_sites}")


# ---------------------------------------------------------------------------
def rule_zd1(ctx):
    r = ctx.r
    r.rule("ZD1", "utils.normalize divides by the norms only where they do "
                  "not vanish (np.divide(..., where=<test against 0>), a "
                  "divisor passed through np.where(<test against 0>, ..), or "
                  "a masked store): an exactly null vector -- the ideal "
                  "points (1, 1, 0), from_angle(0) -- must come back "
                  "unchanged, not as inf / nan")
    f = ctx.p.get_function(CORE, "normalize")
    r.analysed(f)
    defs = single_defs(f.node)
    # helpers one level down (an extracted `_divide_inplace`)
    bodies = [f]
    for c in ast.walk(f.node):
        if isinstance(c, ast.Call) and isinstance(c.func, ast.Name):
            g = next((g for g in ctx.p.all_functions
                      if g.module is f.module and g.parent is None
                      and g.cls is None and g.node.name == c.func.id
                      and g.node.name.startswith("_")), None)
            if g is not None:
                bodies.append(g)

    def zero_test(e, d):
        for x in ast.walk(e):
            if isinstance(x, ast.Name) and x.id in d:
                if zero_test(d[x.id], {}):
                    return True
            if isinstance(x, ast.Compare) and any(
                    isinstance(c, ast.Constant) and c.value == 0
                    for c in [x.left] + x.comparators):
                return True
        return False

    sites = []
    for g in bodies:
        gd = single_defs(g.node)
        for n in ast.walk(g.node):
            if isinstance(n, ast.Call) and dotted(n.func) in (
                    "np.divide", "np.true_divide") and len(n.args) >= 2:
                w = next((k.value for k in n.keywords if k.arg == "where"),
                         None)
                div = n.args[1]
                ok = (w is not None and zero_test(w, gd)) or (
                    isinstance(div, ast.Name) and div.id in gd
                    and isinstance(gd[div.id], ast.Call)
                    and dotted(gd[div.id].func) == "np.where"
                    and zero_test(gd[div.id].args[0], gd))
                sites.append((g, n, ok))
            elif isinstance(n, (ast.BinOp, ast.AugAssign)) \
                    and isinstance(n.op, ast.Div):
                div = n.right if isinstance(n, ast.BinOp) else n.value
                tgt = n.left if isinstance(n, ast.BinOp) else n.target
                # a constant / shape divisor is not the norm
                if not any(isinstance(x, ast.Name) for x in ast.walk(div)):
                    continue
                if "shape" in dotted(div):
                    continue
                ok = (isinstance(div, ast.Name) and div.id in gd
                      and isinstance(gd[div.id], ast.Call)
                      and dotted(gd[div.id].func) == "np.where"
                      and zero_test(gd[div.id].args[0], gd)) or (
                    isinstance(tgt, ast.Subscript)
                    and zero_test(tgt.slice, gd))
                sites.append((g, n, ok))
    if not sites:
        r.note("ZD1", loc(f, f.node), "normalize",
               "no division found (idiom not recognised; not judged)")
        return
    for g, n, ok in sites:
        st = n
        if ok:
            r.ok("ZD1", f"{g.qualname}:division", loc(g, n),
                 dotted(n)[:100], "guarded against a vanishing norm")
        else:
            r.violation(
                "ZD1", f"{g.fq}|unguarded-division", loc(g, n),
                dotted(n)[:140] if isinstance(n, ast.Call) else
                ast.unparse(n)[:140],
                "the vectors are divided by their norms with no test "
                "against zero: a vector that is exactly null in floating "
                "point ((1, 1, 0), (5, 3, 4), IdealPoint.from_angle(0)) "
                "becomes inf / nan, and because the division is in place "
                "the object's own data is destroyed by a read-only query "
                "(hyperboloid coordinates, distance)",
                instance=f"{g.qualname}:division")


# ---------------------------------------------------------------------------
ORTHONORMAL_SOURCES = ("np.linalg.eigh", "scipy.linalg.eigh",
                       "indefinite_orthogonalize", "np.linalg.qr",
                       "utils.indefinite_orthogonalize")


def rule_eigh1(ctx):
    r = ctx.r
    r.rule("EIGH1", "utils.eigh hands out *orthonormal* eigenvectors on "
                    "every return path: from np.linalg.eigh, or re-"
                    "orthogonalised (indefinite_orthogonalize / QR). "
                    "diagonalize_form uses U^T as U^-1; a general eigensolver "
                    "returns unit but not mutually orthogonal vectors inside "
                    "a repeated eigenvalue's eigenspace (every Coxeter "
                    "diagram with a symmetry)")
    f = ctx.p.get_function(CORE, "eigh")
    r.analysed(f)
    rets = [n for n in ast.walk(f.node) if isinstance(n, ast.Return)
            and n.value is not None]
    if not rets:
        raise AnalysisError("utils.eigh: no return")
    assigns = [n for n in ast.walk(f.node) if isinstance(n, ast.Assign)]

    def resolve(e, before, depth=0):
        """textual sources of e: follow names to their latest assignment
        before line `before`"""
        out = [e]
        if depth > 4:
            return out
        for x in ast.walk(e):
            if isinstance(x, ast.Name) and isinstance(x.ctx, ast.Load):
                prev = [a for a in assigns if a.lineno < before and any(
                    isinstance(t, ast.Name) and t.id == x.id
                    or isinstance(t, ast.Tuple) and any(
                        isinstance(y, ast.Name) and y.id == x.id
                        for y in t.elts) for t in a.targets)]
                if prev:
                    a = max(prev, key=lambda a: a.lineno)
                    out += resolve(a.value, a.lineno, depth + 1)
        return out

    for ret in rets:
        v = ret.value
        vec = v.elts[1] if isinstance(v, ast.Tuple) and len(v.elts) == 2 \
            else v
        srcs = resolve(vec, ret.lineno + 1)
        calls = {dotted(c.func) for s in srcs for c in ast.walk(s)
                 if isinstance(c, ast.Call)}
        inst = f"eigh:return@{norm_stmt(ret)[:40]}"
        if any(c in ORTHONORMAL_SOURCES for c in calls):
            r.ok("EIGH1", inst, loc(f, ret), norm_stmt(ret)[:100],
                 "eigenvectors come from "
                 + ", ".join(sorted(c for c in calls
                                    if c in ORTHONORMAL_SOURCES)))
        else:
            r.violation(
                "EIGH1", f"{f.fq}|{norm_stmt(ret)[:60]}", loc(f, ret),
                norm_stmt(ret)[:140],
                "the eigenvectors returned here come from "
                f"{sorted(calls) or 'no eigensolver'}: they have unit length "
                "but are not orthogonal to each other when an eigenvalue "
                "repeats, so diagonalize_form's W and its claimed inverse "
                "W^T no longer match (the (4,4,4), (7,7,7) and (oo,oo,oo) "
                "triangle groups stop satisfying their relations after "
                "diagonalisation)", instance=inst)


# ---------------------------------------------------------------------------
def rule_bfs2(ctx):
    r = ctx.r
    r.rule("BFS2", "automaton_multiple adds every k-letter edge once: either "
                   "add_edges keeps its redundancy check, or every vertex is "
                   "provably expanded once (marked when it is queued AND the "
                   "initially queued start vertices are marked before the "
                   "loop). Otherwise a start vertex that lies on a cycle of "
                   "length k is expanded twice and its edges -- hence every "
                   "accepted word through them -- are duplicated")
    f = ctx.p.get_function(FSA, "FSA.automaton_multiple")
    r.analysed(f)
    q = init = None
    for n in ast.walk(f.node):
        if isinstance(n, ast.Assign) and isinstance(n.value, ast.Call) \
                and dotted(n.value.func) in ("deque", "collections.deque"):
            q = dotted(n.targets[0])
            init = n.value.args[0] if n.value.args else None
    loop = next((n for n in ast.walk(f.node) if isinstance(n, ast.While)),
                None)
    if q is None or loop is None:
        r.note("BFS2", loc(f, f.node), "automaton_multiple",
               "worklist idiom not recognised (not judged)")
        return
    popped = None
    for n in ast.walk(loop):
        if isinstance(n, ast.Assign) and isinstance(n.value, ast.Call) \
                and isinstance(n.value.func, ast.Attribute) \
                and dotted(n.value.func.value) == q \
                and n.value.func.attr in ("popleft", "pop"):
            popped = dotted(n.targets[0])
    marks = [n for n in ast.walk(f.node) if isinstance(n, ast.Assign)
             and isinstance(n.targets[0], ast.Subscript)
             and isinstance(n.value, ast.Constant) and n.value.value is True]
    mark_names = {dotted(n.targets[0].value) for n in marks}
    at_dequeue = [n for n in marks if dotted(n.targets[0].slice) == popped
                  and n.lineno >= loop.lineno]
    appended = {dotted(c.args[0]) for c in ast.walk(loop)
                if isinstance(c, ast.Call) and isinstance(
                    c.func, ast.Attribute) and dotted(c.func.value) == q
                and c.func.attr in ("append", "extend") and c.args}
    at_enqueue = [n for n in marks if dotted(n.targets[0].slice) in appended
                  and n.lineno >= loop.lineno]
    init_marked = any(n.lineno < loop.lineno for n in marks) or any(
        isinstance(n, ast.Assign) and dotted(n.targets[0]) in mark_names
        and isinstance(n.value, (ast.DictComp, ast.Dict))
        and "True" in ast.unparse(n.value) and n.lineno < loop.lineno
        for n in ast.walk(f.node))
    expanded_once = bool(at_enqueue) and init_marked
    unchecked = [c for c in ast.walk(f.node) if isinstance(c, ast.Call)
                 and isinstance(c.func, ast.Attribute)
                 and c.func.attr == "add_edges" and any(
                     k.arg == "ignore_redundant" and isinstance(
                         k.value, ast.Constant) and k.value.value is False
                     for k in c.keywords)]
    if not unchecked:
        r.ok("BFS2", "automaton_multiple", loc(f, loop), "",
             "add_edges keeps its redundancy check")
    elif expanded_once:
        r.ok("BFS2", "automaton_multiple", loc(f, loop), "",
             "vertices are marked when queued, start vertices before the "
             "loop: each is expanded once")
    else:
        c = unchecked[0]
        r.violation(
            "BFS2", f"{f.fq}|unchecked-duplicates", loc(f, c),
            dotted(c)[:140],
            "edges are added with ignore_redundant=False, but a vertex can "
            "be expanded more than once ("
            + ("marks are set when a vertex is queued, yet the start "
               "vertices are queued unmarked" if at_enqueue else
               "a vertex is only marked when it is taken from the queue, so "
               "it can be queued twice") + "): for {0: {'a': 0}} with k = 2 "
            "the loop edge is stored twice and automaton_accepted returns "
            "every word twice", instance="automaton_multiple")


# ---------------------------------------------------------------------------
def _row_count_of(e):
    """e is `X.shape[-2]` / `np.shape(X)[-2]`"""
    if isinstance(e, ast.Subscript) and const_value(e.slice) == -2:
        v = e.value
        if isinstance(v, ast.Attribute) and v.attr == "shape":
            return True
        if isinstance(v, ast.Call) and dotted(v.func) in ("np.shape",
                                                          "numpy.shape"):
            return True
    return False


def _pins_two_rows(test, polarity):
    """(test, polarity) implies that the row axis has exactly / at most two
    entries"""
    if isinstance(test, ast.UnaryOp) and isinstance(test.op, ast.Not):
        return _pins_two_rows(test.operand, not polarity)
    if isinstance(test, ast.BoolOp) and isinstance(test.op, ast.And) \
            and polarity:
        return any(_pins_two_rows(v, True) for v in test.values)
    if isinstance(test, ast.BoolOp) and isinstance(test.op, ast.Or) \
            and not polarity:
        return any(_pins_two_rows(v, False) for v in test.values)
    if not (isinstance(test, ast.Compare) and len(test.ops) == 1):
        return False
    a, op, b = test.left, test.ops[0], test.comparators[0]
    if _row_count_of(b) and not _row_count_of(a):
        a, b = b, a
        op = {ast.Lt: ast.Gt, ast.LtE: ast.GtE, ast.Gt: ast.Lt,
              ast.GtE: ast.LtE}.get(type(op), type(op))()
    if not _row_count_of(a):
        return False
    k = const_value(b)
    if not isinstance(k, int):
        return False
    t = type(op)
    if polarity:
        return (t is ast.Eq and k == 2) or (t is ast.LtE and k == 2) \
            or (t is ast.Lt and k == 3)
    return (t is ast.NotEq and k == 2) or (t is ast.Gt and k == 2) \
        or (t is ast.GtE and k == 3)


def rule_mean2(ctx):
    r = ctx.r
    r.rule("MEAN2", "in the sphere / circle parameter computations the "
                    "arithmetic mean of points of a sphere is used as (the "
                    "Klein midpoint of / the centre of) that sphere only "
                    "where the number of points is two: for three or more "
                    "ideal points the mean is neither the point of the flat "
                    "closest to the origin nor the circumcentre, and the "
                    "reported sphere misses the subspace's ideal points")
    m = ctx.p.module_by_rel(HYP)
    roots = [f for f in ctx.p.all_functions if f.module is m
             and f.node.name in ("sphere_parameters", "circle_parameters",
                                 "boundary_sphere_parameters")]
    helpers = []
    for f in roots:
        for c in ast.walk(f.node):
            if isinstance(c, ast.Call) and isinstance(c.func, ast.Name):
                g = next((g for g in ctx.p.all_functions if g.module is m
                          and g.parent is None and g.cls is None
                          and g.node.name == c.func.id), None)
                if g is not None and g not in helpers:
                    helpers.append(g)
    two_row = {"Geodesic", "Segment", "PointPair", "Horosphere",
               "HorosphereArc", "BoundaryArc"}
    sites = 0
    for f in roots + helpers:
        parents = f.module.parents
        pconds = path_conditions(f.node)
        for n in ast.walk(f.node):
            mean = None
            if isinstance(n, ast.BinOp) and isinstance(n.op, ast.Div):
                for c in ast.walk(n.left):
                    if isinstance(c, ast.Call) and (
                            (isinstance(c.func, ast.Attribute)
                             and c.func.attr == "sum")
                            or dotted(c.func) == "np.sum") and any(
                            k.arg == "axis" and dotted(k.value) == "-2"
                            for k in c.keywords):
                        mean = n
            if isinstance(n, ast.Call) and (
                    (isinstance(n.func, ast.Attribute)
                     and n.func.attr == "mean")
                    or dotted(n.func) == "np.mean") and any(
                    k.arg == "axis" and dotted(k.value) == "-2"
                    for k in n.keywords):
                mean = n
            if mean is None:
                continue
            sites += 1
            r.analysed(f)
            # guarded by `<x>.shape[-2] == 2`?
            st = stmt_of(mean, parents)
            guarded = any(_pins_two_rows(t, pol)
                          for t, pol in pconds.get(id(st), []))
            fixed = f.cls is not None and f.cls.name in two_row
            inst = f"{f.qualname}:row-mean"
            if guarded or fixed:
                r.ok("MEAN2", inst, loc(f, mean), dotted(mean)[:80],
                     "two points: the mean is the midpoint of the chord"
                     if guarded else "the class's unit has exactly two rows")
            else:
                r.violation(
                    "MEAN2", f"{f.fq}|{dotted(mean)[:60]}", loc(f, mean),
                    dotted(mean)[:120],
                    "the mean over the row axis is taken for any number of "
                    "rows: for a subspace spanned by three or more ideal "
                    "points (a plane in H^3, any hyperplane in dimension "
                    ">= 3) it is not the centre of the flat, and the sphere "
                    "returned does not pass through the ideal points",
                    instance=inst)
    if sites == 0:
        r.ok("MEAN2", "hyperbolic.py", HYP, "",
             "no row mean in the sphere / circle computations")
