"""NumPy-API pitfalls that decide clauses of C12 / C13 / C17: NP2 (copy=False
under NumPy >= 2), AR1 (float-step arange), STK1 (rank-dependent stacking)."""
import ast

from ..project import loc, norm_stmt
from ..flow import dotted
from ..norm import single_defs

ARRAY_MAKERS = {"np.array", "np.asarray", "np.asanyarray", "numpy.array",
                "utils.array_like", "array_like"}


def _is_false(e):
    return isinstance(e, ast.Constant) and e.value is False


def _forwarders(ctx):
    """Project functions whose **kwargs reach np.array (transitively)."""
    fw = set()
    changed = True
    while changed:
        changed = False
        for f in ctx.p.all_functions:
            if f in fw or f.node.args.kwarg is None:
                continue
            kw = f.node.args.kwarg.arg
            for c in ast.walk(f.node):
                if not isinstance(c, ast.Call):
                    continue
                star = any(k.arg is None and isinstance(k.value, ast.Name)
                           and k.value.id == kw for k in c.keywords)
                if not star:
                    continue
                nm = dotted(c.func)
                tgt = nm.split(".")[-1]
                if nm in ARRAY_MAKERS or any(
                        g.node.name == tgt and g in fw
                        for g in ctx.p.all_functions):
                    fw.add(f)
                    changed = True
                    break
    return fw


def rule_np2(ctx):
    r = ctx.r
    r.rule("NP2", "no call asks np.array for copy=False (directly, through "
                  "utils.array_like, or by putting 'copy': False into a "
                  "kwargs dict that is forwarded there): under NumPy >= 2, "
                  "which setup.py accepts, that means 'never copy' and "
                  "raises ValueError as soon as the promised dtype "
                  "conversion (int -> float, list -> array) needs one")
    fw = _forwarders(ctx)
    fw_names = {f.node.name for f in fw}
    n = 0
    for f in ctx.p.all_functions:
        kwname = f.node.args.kwarg.arg if f.node.args.kwarg else None
        for c in ast.walk(f.node):
            if not isinstance(c, ast.Call):
                continue
            nm = dotted(c.func)
            # (a) explicit keyword
            if any(k.arg == "copy" and _is_false(k.value)
                   for k in c.keywords):
                if isinstance(c.func, ast.Attribute) \
                        and c.func.attr == "astype":
                    continue        # ndarray.astype: "avoid a copy if you can"
                if nm in ARRAY_MAKERS or nm.split(".")[-1] in fw_names:
                    n += 1
                    r.analysed(f)
                    r.violation(
                        "NP2", f"{f.fq}|{dotted(c)[:60]}", loc(f, c),
                        dotted(c)[:140],
                        "copy=False reaches np.array: NumPy >= 2 raises "
                        "ValueError('Unable to avoid copy ...') whenever the "
                        "input is a list or needs a dtype conversion",
                        instance=f"{f.qualname}:copy=False")
            # (b) a forwarded kwargs dict is told copy=False
            if isinstance(c.func, ast.Attribute) \
                    and c.func.attr == "setdefault" and len(c.args) == 2 \
                    and isinstance(c.args[0], ast.Constant) \
                    and c.args[0].value == "copy" and _is_false(c.args[1]):
                n += 1
                r.analysed(f)
                r.violation(
                    "NP2", f"{f.fq}|{dotted(c)[:60]}", loc(f, c),
                    dotted(c)[:140],
                    f"`{dotted(c.func.value)}` is given 'copy': False and "
                    "forwarded to the array factory: under NumPy >= 2 an "
                    "ndarray that needs the promised integer -> float "
                    "conversion raises ValueError instead of being converted",
                    instance=f"{f.qualname}:copy=False")
        for st in ast.walk(f.node):
            if isinstance(st, ast.Assign) and len(st.targets) == 1 \
                    and isinstance(st.targets[0], ast.Subscript) \
                    and isinstance(st.targets[0].slice, ast.Constant) \
                    and st.targets[0].slice.value == "copy" \
                    and _is_false(st.value):
                n += 1
                r.analysed(f)
                r.violation(
                    "NP2", f"{f.fq}|{norm_stmt(st)[:60]}", loc(f, st),
                    norm_stmt(st)[:140],
                    "'copy': False is put into a keyword dictionary: under "
                    "NumPy >= 2 np.array(..., copy=False) raises when a "
                    "copy is needed", instance=f"{f.qualname}:copy=False")
    if n == 0:
        r.ok("NP2", "package", "geometry_tools", "",
             f"no copy=False reaches an array factory ({len(fw)} "
             "kwargs-forwarding functions followed)")


def _non_integer(e):
    for x in ast.walk(e):
        if isinstance(x, ast.BinOp) and isinstance(x.op, ast.Div):
            return True
        if isinstance(x, ast.Constant) and isinstance(x.value, float):
            return True
        if isinstance(x, (ast.Name, ast.Attribute)) \
                and dotted(x).split(".")[-1] == "pi":
            return True
    return False


def rule_ar1(ctx, rels):
    r = ctx.r
    r.rule("AR1", "np.arange is not given a non-integer step: the number of "
                  "elements is ceil((stop - start) / step) computed in "
                  "floating point, so `np.arange(0, 2*pi, 2*pi/n)` has n or "
                  "n + 1 elements depending on n (a count that must be "
                  "exact is written arange(n) * step or linspace(..., "
                  "endpoint=False))")
    sites = 0
    bad = 0
    for rel in rels:
        m = ctx.p.module_by_rel(rel)
        for f in ctx.p.all_functions:
            if f.module is not m:
                continue
            defs = single_defs(f.node)
            for c in ast.walk(f.node):
                if not (isinstance(c, ast.Call)
                        and dotted(c.func) in ("np.arange", "numpy.arange")):
                    continue
                sites += 1
                r.analysed(f)
                step = None
                if len(c.args) >= 3:
                    step = c.args[2]
                for k in c.keywords:
                    if k.arg == "step":
                        step = k.value
                if step is None:
                    r.ok("AR1", f"{f.qualname}:arange", loc(f, c),
                         dotted(c)[:80], "unit step")
                    continue
                s = step
                if isinstance(s, ast.Name) and s.id in defs:
                    s = defs[s.id]
                if _non_integer(s) or any(_non_integer(a)
                                          for a in c.args[:2]):
                    bad += 1
                    r.violation(
                        "AR1", f"{f.fq}|{dotted(c)[:60]}", loc(f, c),
                        dotted(c)[:140],
                        f"step `{dotted(step)}` is not an integer: the "
                        "length of the result is decided by floating-point "
                        "rounding (for 2*pi/n steps it is n + 1 for n = 49, "
                        "98, 103, ...), so the polygon gets a duplicate "
                        "vertex / the arrays built from it disagree in "
                        "length", instance=f"{f.qualname}:arange")
                else:
                    r.ok("AR1", f"{f.qualname}:arange", loc(f, c),
                         dotted(c)[:80], "integer step")
    if sites == 0:
        r.ok("AR1", "modules", ",".join(rels), "", "no np.arange call")


STACKERS = {"np.column_stack", "np.hstack", "np.vstack", "np.dstack",
            "np.row_stack"}
FIXED_RANK_MAKERS = {"np.ones", "np.zeros", "np.eye", "np.identity",
                     "np.full", "np.empty", "np.diag"}


def rule_stk1(ctx, rels):
    r = ctx.r
    r.rule("STK1", "np.column_stack / hstack / vstack / dstack pick their "
                   "axis by the rank of the operands (1-D operands become "
                   "columns, anything else is joined along axis 1 / 0): "
                   "they are only applied to arrays created with an explicit "
                   "shape, never to values whose rank grows with the "
                   "caller's batch axes (an array of matrices)")
    sites = 0
    for rel in rels:
        m = ctx.p.module_by_rel(rel)
        for f in ctx.p.all_functions:
            if f.module is not m:
                continue
            defs = single_defs(f.node)
            for c in ast.walk(f.node):
                if not (isinstance(c, ast.Call)
                        and dotted(c.func) in STACKERS and c.args):
                    continue
                sites += 1
                r.analysed(f)
                seq = c.args[0]
                if isinstance(seq, ast.Name) and seq.id in defs:
                    seq = defs[seq.id]
                elts = seq.elts if isinstance(seq, (ast.List, ast.Tuple)) \
                    else None

                def fixed(e, depth=0):
                    if isinstance(e, ast.Name) and e.id in defs \
                            and depth < 4:
                        return fixed(defs[e.id], depth + 1)
                    if isinstance(e, ast.Call) and dotted(e.func) in \
                            FIXED_RANK_MAKERS:
                        return True
                    if isinstance(e, (ast.List, ast.Tuple)):
                        return all(isinstance(x, (ast.Constant, ast.List,
                                                  ast.Tuple, ast.UnaryOp))
                                   for x in e.elts)
                    if isinstance(e, ast.Call) and dotted(e.func) in (
                            "np.array",) and e.args and isinstance(
                                e.args[0], (ast.List, ast.Tuple)):
                        return fixed(e.args[0], depth + 1)
                    return False
                if elts and all(fixed(x) for x in elts):
                    r.ok("STK1", f"{f.qualname}:{dotted(c.func)}", loc(f, c),
                         dotted(c)[:80], "operands of explicit shape")
                    continue
                r.violation(
                    "STK1", f"{f.fq}|{dotted(c)[:60]}", loc(f, c),
                    dotted(c)[:140],
                    f"{dotted(c.func)} is applied to "
                    f"`{dotted(c.args[0])[:50]}`, whose entries take the "
                    "rank of the caller's data: for a single object the "
                    "entries are 1-D and become columns, for an array of "
                    "objects they are joined along axis 1 instead, and a "
                    "following reshape silently yields the transposed / "
                    "scrambled matrices",
                    instance=f"{f.qualname}:{dotted(c.func)}")
    if sites == 0:
        r.ok("STK1", "modules", ",".join(rels), "",
             "no rank-dependent stacking call")


# ---------------------------------------------------------------------------
def rule_ord1(ctx, rels):
    r = ctx.r
    r.rule("ORD1", "reshape / ravel / flatten are never given order='A' or "
                   "'K' (the index order then follows each array's own "
                   "memory layout) nor 'F': the slots of an object (primary, "
                   "auxiliary, dual data) are regrouped separately and must "
                   "enumerate their units in the same, C, order")
    n = 0
    for rel in rels:
        m = ctx.p.module_by_rel(rel)
        for f in ctx.p.all_functions:
            if f.module is not m:
                continue
            for c in ast.walk(f.node):
                if not isinstance(c, ast.Call):
                    continue
                nm = dotted(c.func)
                if not (nm.split(".")[-1] in ("reshape", "ravel", "flatten")):
                    continue
                o = next((k.value for k in c.keywords if k.arg == "order"),
                         None)
                if o is None:
                    continue
                if isinstance(o, ast.Constant) and o.value == "C":
                    continue
                n += 1
                r.analysed(f)
                r.violation(
                    "ORD1", f"{f.fq}|{dotted(c)[:60]}", loc(f, c),
                    dotted(c)[:140],
                    f"order={dotted(o)}: the regrouping of this array "
                    "follows its memory layout (or Fortran order) while the "
                    "other slots of the same object -- built with np.stack, "
                    "hence C-ordered -- are regrouped in C order: unit j of "
                    "the result carries another unit's derived data",
                    instance=f"{f.qualname}:order")
    if n == 0:
        r.ok("ORD1", "modules", ",".join(rels), "",
             "no layout-dependent regrouping")


def rule_mc1(ctx, rels):
    r = ctx.r
    r.rule("MC1", "a module-level memo never hands out the object it keeps, "
                  "nor a shallow copy of it (copy.copy shares every "
                  "attribute's dictionaries / arrays): a later in-place "
                  "edit of one returned object would change the cached one "
                  "and every other copy")
    n = 0
    for rel in rels:
        m = ctx.p.module_by_rel(rel)
        caches = set()
        for st in m.tree.body:
            if isinstance(st, ast.Assign) and len(st.targets) == 1 \
                    and isinstance(st.targets[0], ast.Name) and (
                        isinstance(st.value, (ast.Dict, ast.List))
                        and not (st.value.keys if isinstance(
                            st.value, ast.Dict) else st.value.elts)
                        or isinstance(st.value, ast.Call)
                        and dotted(st.value.func) in ("dict", "list",
                                                      "OrderedDict")
                        and not st.value.args):
                caches.add(st.targets[0].id)
        if not caches:
            continue
        for f in ctx.p.all_functions:
            if f.module is not m:
                continue
            stores = {st.targets[0].value.id for st in ast.walk(f.node)
                      if isinstance(st, ast.Assign)
                      and isinstance(st.targets[0], ast.Subscript)
                      and isinstance(st.targets[0].value, ast.Name)
                      and st.targets[0].value.id in caches}
            if not stores:
                continue
            defs = single_defs(f.node)
            for ret in ast.walk(f.node):
                if not (isinstance(ret, ast.Return)
                        and ret.value is not None):
                    continue
                v = ret.value
                if isinstance(v, ast.Name) and v.id in defs:
                    v = defs[v.id]
                core = v
                shallow = False
                if isinstance(v, ast.Call) and dotted(v.func) in (
                        "copy.copy", "copy") and v.args:
                    core, shallow = v.args[0], True
                if isinstance(core, ast.Name) and core.id in defs:
                    core = defs[core.id]
                hit = isinstance(core, ast.Subscript) and isinstance(
                    core.value, ast.Name) and core.value.id in stores
                if not hit and isinstance(core, ast.Call) and dotted(
                        core.func).endswith(".get") and dotted(
                            core.func).split(".")[0] in stores:
                    hit = True
                if not hit:
                    continue
                n += 1
                r.analysed(f)
                r.violation(
                    "MC1", f"{f.fq}|{norm_stmt(ret)[:60]}", loc(f, ret),
                    norm_stmt(ret)[:140],
                    ("a shallow copy of " if shallow else "")
                    + f"the object kept in `{dotted(core)[:40]}` is "
                    "returned: it shares its dictionaries with the cached "
                    "object, so an in-place edit (add_edges, delete_vertex "
                    "...) of one loaded automaton changes what every later "
                    "load returns", instance=f"{f.qualname}:memo")
    if n == 0:
        r.ok("MC1", "modules", ",".join(rels), "",
             "no module-level memo hands out shared objects")


def rule_clo1(ctx, rels):
    r = ctx.r
    r.rule("CLO1", "a nested function never stores into a dict / list it "
                   "captured from the enclosing call (kwargs[...] = v, "
                   ".update, .setdefault, .append): the captured object "
                   "outlives the call, so one invocation of the returned "
                   "closure changes what the next one does")
    n = 0
    closures = 0
    for rel in rels:
        m = ctx.p.module_by_rel(rel)
        for par in ctx.p.all_functions:
            if par.module is not m:
                continue
            for fn in ast.walk(par.node):
                if fn is par.node or not isinstance(fn, ast.FunctionDef):
                    continue
                # is the nested function returned by its parent (a closure)?
                returned = any(isinstance(x, ast.Return) and isinstance(
                    x.value, ast.Name) and x.value.id == fn.name
                    for x in ast.walk(par.node))
                if not returned:
                    continue
                closures += 1
                r.analysed(par)
                local = {a.arg for a in fn.args.args} | {
                    t.id for st in ast.walk(fn)
                    if isinstance(st, ast.Assign) for t in st.targets
                    if isinstance(t, ast.Name)}
                outer = set(par.params) | {
                    t.id for st in ast.walk(par.node)
                    if isinstance(st, ast.Assign) for t in st.targets
                    if isinstance(t, ast.Name)}
                if par.node.args.kwarg:
                    outer.add(par.node.args.kwarg.arg)
                if par.node.args.vararg:
                    outer.add(par.node.args.vararg.arg)
                bad = False
                for st in ast.walk(fn):
                    tgt = None
                    if isinstance(st, (ast.Assign, ast.AugAssign)):
                        for t in (st.targets if isinstance(st, ast.Assign)
                                  else [st.target]):
                            if isinstance(t, ast.Subscript) and isinstance(
                                    t.value, ast.Name):
                                tgt = t.value.id
                    elif isinstance(st, ast.Expr) and isinstance(
                            st.value, ast.Call) and isinstance(
                                st.value.func, ast.Attribute) \
                            and st.value.func.attr in (
                                "update", "setdefault", "append", "extend",
                                "pop", "clear", "insert") \
                            and isinstance(st.value.func.value, ast.Name):
                        tgt = st.value.func.value.id
                    if tgt is None or tgt in local or tgt not in outer:
                        continue
                    n += 1
                    bad = True
                    r.violation(
                        "CLO1", f"{par.fq}.{fn.name}|{norm_stmt(st)[:60]}",
                        loc(par, st), norm_stmt(st)[:140],
                        f"`{tgt}` belongs to the enclosing call of "
                        f"{par.qualname} and is shared by every invocation "
                        "of the returned function: a value stored by one "
                        "call (a precomputed inverse) is silently reused by "
                        "the next call that does not supply one",
                        instance=f"{par.qualname}.{fn.name}:captured-store")
                if not bad:
                    r.ok("CLO1", f"{par.qualname}.{fn.name}", loc(par, fn),
                         "", "closure does not store into captured state")
    if closures == 0:
        r.ok("CLO1", "modules", ",".join(rels), "", "no returned closure")


def rule_mk2(ctx, rels):
    r = ctx.r
    r.rule("MK2", "inside `if <mask>.any():` -- a block that exists to treat "
                  "the flagged entries of an array of units -- every "
                  "np.where / masked store that rewrites a value computed "
                  "before the block is conditioned on that mask (or on one "
                  "derived from it); an update that ignores the mask changes "
                  "the unflagged units too, but only when some other unit of "
                  "the same array happens to be flagged")
    blocks = 0
    for rel in rels:
        m = ctx.p.module_by_rel(rel)
        for f in ctx.p.all_functions:
            if f.module is not m:
                continue
            for blk in ast.walk(f.node):
                if not isinstance(blk, ast.If) or blk.orelse:
                    continue
                t = blk.test
                mask = None
                if isinstance(t, ast.Call) and isinstance(
                        t.func, ast.Attribute) and t.func.attr == "any" \
                        and isinstance(t.func.value, ast.Name) \
                        and not t.args:
                    mask = t.func.value.id
                elif isinstance(t, ast.Call) and dotted(t.func) == "np.any" \
                        and len(t.args) == 1 and isinstance(
                            t.args[0], ast.Name):
                    mask = t.args[0].id
                if mask is None:
                    continue
                if any(isinstance(x, ast.Raise) for x in ast.walk(blk)):
                    continue             # a validity guard, not a repair
                blocks += 1
                r.analysed(f)
                derived = {mask}
                for st in blk.body:
                    if isinstance(st, ast.Assign) and len(st.targets) == 1 \
                            and isinstance(st.targets[0], ast.Name) and any(
                                isinstance(x, ast.Name) and x.id in derived
                                for x in ast.walk(st.value)) \
                            and not (isinstance(st.value, ast.Call) and dotted(
                                st.value.func) == "np.where"):
                        derived.add(st.targets[0].id)
                before = {t.id for st in ast.walk(f.node)
                          if isinstance(st, ast.Assign)
                          and st.lineno < blk.lineno for t in st.targets
                          if isinstance(t, ast.Name)} | {
                    e.id for st in ast.walk(f.node)
                    if isinstance(st, ast.Assign) and st.lineno < blk.lineno
                    for t in st.targets if isinstance(t, ast.Tuple)
                    for e in t.elts if isinstance(e, ast.Name)}
                bad = None
                n_upd = 0
                for st in blk.body:
                    if not isinstance(st, ast.Assign):
                        continue
                    tg = st.targets[0]
                    cond = None
                    if isinstance(tg, ast.Name) and tg.id in before \
                            and isinstance(st.value, ast.Call) and dotted(
                                st.value.func) == "np.where" \
                            and len(st.value.args) == 3:
                        cond = st.value.args[0]
                    elif isinstance(tg, ast.Subscript) and isinstance(
                            tg.value, ast.Name) and tg.value.id in before:
                        cond = tg.slice
                    if cond is None:
                        continue
                    n_upd += 1
                    if not any(isinstance(x, ast.Name) and x.id in derived
                               for x in ast.walk(cond)):
                        bad = bad or st
                inst = f"{f.qualname}:if {mask}.any()"
                if bad is not None:
                    r.violation(
                        "MK2", f"{f.fq}|{norm_stmt(bad)[:70]}", loc(f, bad),
                        norm_stmt(bad)[:140],
                        f"this update sits under `if {mask}.any():` but its "
                        f"condition does not involve `{mask}`: as soon as "
                        "one unit of a composite is flagged, every unit is "
                        "rewritten, so a unit's result depends on its "
                        "neighbours in the array (it differs from the result "
                        "for that unit alone)", instance=inst)
                elif n_upd:
                    r.ok("MK2", inst, loc(f, blk), "",
                         f"{n_upd} update(s), all conditioned on the mask")
    if blocks == 0:
        r.ok("MK2", "modules", ",".join(rels), "",
             "no `if <mask>.any():` repair block")


def rule_key1(ctx, rels):
    r = ctx.r
    r.rule("KEY1", "memo-key completeness: where a function keeps its result "
                   "in a module-level dictionary, every input the stored "
                   "value depends on (parameters and `self.<attribute>`s "
                   "read on the way, including the arguments of in-place "
                   "method calls on the value: `aut.rename_generators("
                   "self.ordered_gens)`) also enters the key. An input "
                   "missing from the key makes a second object with the same "
                   "key but another value of that input receive the first "
                   "object's result")
    n = 0
    for rel in rels:
        m = ctx.p.module_by_rel(rel)
        caches = set()
        for st in m.tree.body:
            if isinstance(st, ast.Assign) and len(st.targets) == 1 \
                    and isinstance(st.targets[0], ast.Name) and (
                        (isinstance(st.value, ast.Dict)
                         and not st.value.keys)
                        or (isinstance(st.value, ast.Call)
                            and dotted(st.value.func) in (
                                "dict", "OrderedDict",
                                "collections.OrderedDict")
                            and not st.value.args)):
                caches.add(st.targets[0].id)
        if not caches:
            continue
        for f in ctx.p.all_functions:
            if f.module is not m:
                continue
            stores = [st for st in ast.walk(f.node)
                      if isinstance(st, ast.Assign)
                      and isinstance(st.targets[0], ast.Subscript)
                      and isinstance(st.targets[0].value, ast.Name)
                      and st.targets[0].value.id in caches]
            if not stores:
                continue
            params = {p for p in f.params if p not in ("self", "cls")}
            # everything that flows into a local: its assignments and the
            # arguments of method calls made on it
            flows = {}
            for st in ast.walk(f.node):
                if isinstance(st, ast.Assign):
                    for t in st.targets:
                        for x in ast.walk(t):
                            if isinstance(x, ast.Name) and isinstance(
                                    x.ctx, ast.Store):
                                flows.setdefault(x.id, []).append(st.value)
                if isinstance(st, ast.Expr) and isinstance(
                        st.value, ast.Call) and isinstance(
                        st.value.func, ast.Attribute) and isinstance(
                        st.value.func.value, ast.Name):
                    c = st.value
                    flows.setdefault(c.func.value.id, []).extend(
                        list(c.args) + [k.value for k in c.keywords])

            def deps(e):
                seen, out = set(), set()
                todo = [e]
                while todo:
                    x = todo.pop()
                    for y in ast.walk(x):
                        if isinstance(y, ast.Attribute) and dotted(
                                y.value) == "self":
                            out.add("self." + y.attr)
                        if isinstance(y, ast.Name) and isinstance(
                                y.ctx, ast.Load):
                            if y.id in params:
                                out.add(y.id)
                            if y.id in flows and y.id not in seen:
                                seen.add(y.id)
                                todo.extend(flows[y.id])
                return out
            for st in stores:
                n += 1
                r.analysed(f)
                key = st.targets[0].slice
                kd, vd = deps(key), deps(st.value)
                # methods called on self are not inputs
                vd = {d for d in vd if not (
                    d.startswith("self.") and ctx.p.find_method(
                        f.cls, d[5:]) is not None and not any(
                        ast.unparse(x) == "property" for x in
                        ctx.p.find_method(f.cls, d[5:]).node.decorator_list)
                )} if f.cls is not None else vd
                missing = sorted(vd - kd)
                inst = f"{f.qualname}:{st.targets[0].value.id}"
                if not missing:
                    r.ok("KEY1", inst, loc(f, st), norm_stmt(st)[:80],
                         "the key covers " + ", ".join(sorted(vd)))
                else:
                    r.violation(
                        "KEY1", f"{f.fq}|{'+'.join(missing)[:60]}",
                        loc(f, st), norm_stmt(st)[:140],
                        f"the cached value depends on "
                        f"{', '.join(missing)}, which the key "
                        f"`{ast.unparse(key)[:60]}` does not contain: a "
                        "second object that agrees on the key but not on "
                        f"{missing[0]} is handed the first object's result",
                        instance=inst)
    if n == 0:
        r.ok("KEY1", "modules", ",".join(rels), "",
             "no module-level memo dictionary is written")


def rule_neg0(ctx, rels):
    r = ctx.r
    r.rule("NEG0", "`x[-k:]` with a COMPUTED k is `x[0:]` -- the whole axis "
                   "-- when k is 0 (`-0 == 0`): the last k rows of an array "
                   "are taken as `x[n - k:]` (or the k == 0 case is handled "
                   "before). In svd_kernel k is the dimension of the kernel, "
                   "which is 0 for complementary subspaces: every row of V "
                   "would be returned as a 'kernel vector'")
    n = 0
    for rel in rels:
        mod = ctx.p.module_by_rel(rel)
        for f in ctx.p.all_functions:
            if f.module is not mod:
                continue
            for sl in ast.walk(f.node):
                if not (isinstance(sl, ast.Slice) and sl.upper is None
                        and isinstance(sl.lower, ast.UnaryOp)
                        and isinstance(sl.lower.op, ast.USub)
                        and not isinstance(sl.lower.operand, ast.Constant)):
                    continue
                n += 1
                r.analysed(f)
                k = ast.unparse(sl.lower.operand)
                r.violation(
                    "NEG0", f"{f.fq}|-{k}:", loc(f, sl.lower),
                    ast.unparse(sl)[:60],
                    f"`[{ast.unparse(sl)}]` takes 'the last {k} entries', "
                    f"but for {k} == 0 it is `[0:]`, all of them: with an "
                    "empty kernel (two complementary subspaces, an "
                    "invertible matrix) every row of V comes back as a "
                    "kernel vector and the 'intersection' has the full "
                    "dimension", instance=f"{f.qualname}:-{k}:")
    if n == 0:
        r.ok("NEG0", "modules", ",".join(rels), "",
             "no `[-k:]` slice with a computed k")


def rule_viewaug1(ctx, rels):
    from ..norm import single_defs
    r = ctx.r
    r.rule("VIEWAUG1", "a function that RETURNS its result computes it in "
                       "its own buffers: no augmented assignment (`-=`, "
                       "`+=`, `*=`, `/=`) on a basic-index VIEW of a "
                       "parameter (`row = matrices[..., i, :]; row -= ..`). "
                       "Such a statement (i) overwrites the caller's array "
                       "with intermediate values and (ii) computes in the "
                       "caller's dtype: for integer rows `row -= <float "
                       "projection>` raises UFuncTypeError, where the same "
                       "numbers as floats work. Procedures (no returned "
                       "value) that update their argument by contract are "
                       "not judged")
    n = 0
    for rel in rels:
        mod = ctx.p.module_by_rel(rel)
        for f in ctx.p.all_functions:
            if f.module is not mod or f.parent is not None:
                continue
            returns = any(isinstance(x, ast.Return) and x.value is not None
                          and not (isinstance(x.value, ast.Constant)
                                   and x.value.value is None)
                          for x in ast.walk(f.node))
            if not returns:
                continue
            params = {p for p in f.params if p not in ("self", "cls")}
            views = {}
            for st in ast.walk(f.node):
                if isinstance(st, ast.Assign) and len(st.targets) == 1 \
                        and isinstance(st.targets[0], ast.Name):
                    v = st.value
                    if isinstance(v, ast.Subscript) \
                            and isinstance(v.value, ast.Name) \
                            and v.value.id in params and _basic_index(v.slice):
                        views.setdefault(st.targets[0].id, []).append(st)
                    elif isinstance(v, ast.Name) and v.id in params:
                        views.setdefault(st.targets[0].id, []).append(st)
            for st in ast.walk(f.node):
                if not isinstance(st, ast.AugAssign):
                    continue
                base = st.target
                sub = False
                while isinstance(base, ast.Subscript):
                    base = base.value
                    sub = True
                if not isinstance(base, ast.Name):
                    continue
                name = base.id
                src = None
                if name in views:
                    # every binding of the local is a view of a parameter
                    binds = [s for s in ast.walk(f.node)
                             if isinstance(s, ast.Assign)
                             and any(isinstance(t, ast.Name) and t.id == name
                                     for t in s.targets)]
                    if len(binds) == len(views[name]):
                        src = dotted(views[name][0].value)
                elif name in params and sub and not any(
                        isinstance(s, ast.Assign) and any(
                            isinstance(t, ast.Name) and t.id == name
                            for t in s.targets) for s in ast.walk(f.node)):
                    src = name
                if src is None:
                    continue
                n += 1
                r.analysed(f)
                r.violation(
                    "VIEWAUG1", f"{f.fq}|{name}", loc(f, st),
                    dotted(st)[:90],
                    f"`{dotted(st)[:60]}` updates `{name}`, a view of the "
                    f"parameter ({src}), in place: {f.qualname} overwrites "
                    "its caller's array with the un-normalised Gram-Schmidt "
                    "remainders, and with integer rows (find_isometry, "
                    "timelike_to on small-integer frames) the float "
                    "projection cannot be subtracted into the int64 view: "
                    "UFuncTypeError", instance=f"{f.qualname}:{name}")
    if n == 0:
        r.ok("VIEWAUG1", "modules", ",".join(rels), "",
             "no value-returning function updates a view of a parameter "
             "in place")


def _basic_index(sl):
    elts = sl.elts if isinstance(sl, ast.Tuple) else [sl]
    for e in elts:
        if isinstance(e, ast.Slice):
            continue
        if isinstance(e, ast.Constant) and (e.value is Ellipsis
                                            or e.value is None
                                            or isinstance(e.value, int)):
            continue
        if isinstance(e, ast.Name):       # a loop index
            continue
        if isinstance(e, ast.UnaryOp) and isinstance(e.operand, ast.Constant):
            continue
        return False
    return True


def rule_putmask1(ctx, rels):
    r = ctx.r
    r.rule("PUTMASK1", "np.putmask(a, mask, values) takes `values[n % "
                       "len(values)]` for the FLAT position n of a -- it "
                       "does not hand out one value per True like np.place "
                       "or `a[mask] = values`. Its `values` therefore has "
                       "the shape of `a` (or is a scalar): values computed "
                       "on the masked selection (`f(x[mask])`) land on the "
                       "wrong members of a composite as soon as a False "
                       "precedes a True")
    n = 0
    for rel in rels:
        mod = ctx.p.module_by_rel(rel)
        for f in ctx.p.all_functions:
            if f.module is not mod:
                continue
            defs = None
            for c in ast.walk(f.node):
                if not (isinstance(c, ast.Call)
                        and dotted(c.func) in ("np.putmask", "numpy.putmask")
                        and len(c.args) >= 3):
                    continue
                n += 1
                r.analysed(f)
                if defs is None:
                    defs = single_defs(f.node)
                mask = c.args[1]
                mask_txt = dotted(mask)

                def selected(e, depth=0):
                    for x in ast.walk(e):
                        if isinstance(x, ast.Subscript):
                            idx = x.slice.elts if isinstance(
                                x.slice, ast.Tuple) else [x.slice]
                            if any(dotted(i) == mask_txt for i in idx):
                                return x
                        if isinstance(x, ast.Name) and x.id in defs \
                                and depth < 5:
                            hit = selected(defs[x.id], depth + 1)
                            if hit is not None:
                                return hit
                    return None
                hit = selected(c.args[2])
                inst = f"{f.qualname}:putmask@{c.lineno}"
                if hit is None:
                    r.ok("PUTMASK1", inst, loc(f, c), dotted(c)[:80],
                         "values are not computed on the masked selection")
                else:
                    r.violation(
                        "PUTMASK1", f"{f.fq}|{mask_txt}", loc(f, c),
                        dotted(c)[:100],
                        f"the values of this np.putmask are computed from "
                        f"`{dotted(hit)[:50]}`, i.e. only for the members "
                        f"selected by `{mask_txt}`; putmask indexes them by "
                        "flat position modulo their number, so in a "
                        "composite [far, near1, far, near2] near1 receives "
                        "the value of near2 (use `a[mask] = values` or "
                        "np.place)", instance=f"{f.qualname}:putmask")
    if n == 0:
        r.ok("PUTMASK1", "modules", ",".join(rels), "", "no np.putmask call")


def rule_cmpstmt1(ctx, rels):
    r = ctx.r
    r.rule("CMPSTMT1", "an expression statement that is a bare comparison "
                       "(`x[mask] == 2`) computes a value and throws it "
                       "away: `==` typed for `=`. In diagonalize_form it "
                       "was meant to send the zero eigenvalues to the end "
                       "of the 'minkowski' ordering")
    n = 0
    for rel in rels:
        mod = ctx.p.module_by_rel(rel)
        for f in ctx.p.all_functions:
            if f.module is not mod:
                continue
            for st in ast.walk(f.node):
                if isinstance(st, ast.Expr) and isinstance(
                        st.value, ast.Compare) and any(
                        isinstance(o, (ast.Eq, ast.NotEq)) for o in
                        st.value.ops):
                    n += 1
                    r.analysed(f)
                    r.violation(
                        "CMPSTMT1", f"{f.fq}|{dotted(st.value)[:40]}",
                        loc(f, st), dotted(st.value)[:80],
                        f"`{dotted(st.value)[:60]}` is a statement: the "
                        "comparison has no effect (an assignment was "
                        "meant). The zero eigenvalues of a degenerate form "
                        "keep sort index 0 and are placed between the "
                        "negative and the positive directions instead of "
                        "last", instance=f"{f.qualname}:bare-comparison")
    if n == 0:
        r.ok("CMPSTMT1", "modules", ",".join(rels), "",
             "no bare comparison statement")


def rule_nulldir1(ctx):
    r = ctx.r
    r.rule("NULLDIR1", "diagonalize_form returns an INVERTIBLE W (and its "
                       "inverse) also for a degenerate form: the "
                       "directions of eigenvalue 0 are left unscaled "
                       "(factor 1 in D and in Dinv). A masked reciprocal "
                       "`np.divide(1, Dinv, out=D, where=~zero)` into a "
                       "zeros buffer leaves 0 on the diagonal of D, and "
                       "sqrt(|0|) = 0 on that of Dinv: W and Winv are both "
                       "singular, and the 'diagonalised' Coxeter generators "
                       "of every affine group (infinite dihedral, (2,2,inf), "
                       "..) have determinant 0 and are not involutions")
    CORE_ = "geometry_tools/utils/core.py"
    f = ctx.p.get_function(CORE_, "diagonalize_form")
    r.analysed(f)
    masked = [c for c in ast.walk(f.node) if isinstance(c, ast.Call)
              and dotted(c.func) in ("np.divide", "np.reciprocal")
              and any(k.arg == "where" for k in c.keywords)
              and any(k.arg == "out" for k in c.keywords)]
    inst = "diagonalize_form:null-directions"
    if not masked:
        r.ok("NULLDIR1", inst, loc(f, f.node), "",
             "no masked reciprocal into a zeros buffer")
        return
    # is the masked-out part given a value afterwards?
    for c in masked:
        out = next(k.value for k in c.keywords if k.arg == "out")
        mask = next(k.value for k in c.keywords if k.arg == "where")
        mnames = {x.id for x in ast.walk(mask) if isinstance(x, ast.Name)}
        filled = False
        for st in ast.walk(f.node):
            if isinstance(st, ast.Assign) and len(st.targets) == 1 \
                    and isinstance(st.targets[0], ast.Subscript) \
                    and dotted(st.targets[0].value) == dotted(out) \
                    and {x.id for x in ast.walk(st.targets[0].slice)
                         if isinstance(x, ast.Name)} & mnames:
                filled = True
        if filled:
            r.ok("NULLDIR1", inst, loc(f, c), dotted(c)[:70],
                 "the masked-out entries are set afterwards")
        else:
            r.violation(
                "NULLDIR1", f"{f.fq}|{dotted(out)}", loc(f, c),
                dotted(c)[:90],
                f"`{dotted(c)[:70]}` leaves the entries where the mask "
                f"fires at 0 in `{dotted(out)}`, which is a factor of the "
                "returned W: for a form with a zero eigenvalue W (and "
                "Winv, scaled by sqrt(|0|)) is singular -- "
                "CoxeterGroup([('a','b',-1)]).geometric_representation("
                "diagonalize=True) has generators of determinant 0",
                instance=inst)
