"""NumPy-API pitfalls that decide clauses of C12 / C13 / C17: NP2 (copy=False
under NumPy >= 2), AR1 (float-step arange), STK1 (rank-dependent stacking)."""
import ast

from ..project import loc, norm_stmt
from ..flow import dotted
from ..norm import single_defs

ARRAY_MAKERS = {"np.array", "np.asarray", "np.asanyarray", "numpy.array",
                "utils.array_like", "array_like"}


def _is_false(e):
    return isinstance(e, ast.Constant) and e.value is False


def _forwarders(ctx):
    """Project functions whose **kwargs reach np.array (transitively)."""
    fw = set()
    changed = True
    while changed:
        changed = False
        for f in ctx.p.all_functions:
            if f in fw or f.node.args.kwarg is None:
                continue
            kw = f.node.args.kwarg.arg
            for c in ast.walk(f.node):
                if not isinstance(c, ast.Call):
                    continue
                star = any(k.arg is None and isinstance(k.value, ast.Name)
                           and k.value.id == kw for k in c.keywords)
                if not star:
                    continue
                nm = dotted(c.func)
                tgt = nm.split(".")[-1]
                if nm in ARRAY_MAKERS or any(
                        g.node.name == tgt and g in fw
                        for g in ctx.p.all_functions):
                    fw.add(f)
                    changed = True
                    break
    return fw


def rule_np2(ctx):
    r = ctx.r
    r.rule("NP2", "no call asks np.array for copy=False (directly, through "
                  "utils.array_like, or by putting 'copy': False into a "
                  "kwargs dict that is forwarded there): under NumPy >= 2, "
                  "which setup.py accepts, that means 'never copy' and "
                  "raises ValueError as soon as the promised dtype "
                  "conversion (int -> float, list -> array) needs one")
    fw = _forwarders(ctx)
    fw_names = {f.node.name for f in fw}
    n = 0
    for f in ctx.p.all_functions:
        kwname = f.node.args.kwarg.arg if f.node.args.kwarg else None
        for c in ast.walk(f.node):
            if not isinstance(c, ast.Call):
                continue
            nm = dotted(c.func)
            # (a) explicit keyword
            if any(k.arg == "copy" and _is_false(k.value)
                   for k in c.keywords):
                if isinstance(c.func, ast.Attribute) \
                        and c.func.attr == "astype":
                    continue        # ndarray.astype: "avoid a copy if you can"
                if nm in ARRAY_MAKERS or nm.split(".")[-1] in fw_names:
                    n += 1
                    r.analysed(f)
                    r.violation(
                        "NP2", f"{f.fq}|{dotted(c)[:60]}", loc(f, c),
                        dotted(c)[:140],
                        "copy=False reaches np.array: NumPy >= 2 raises "
                        "ValueError('Unable to avoid copy ...') whenever the "
                        "input is a list or needs a dtype conversion",
                        instance=f"{f.qualname}:copy=False")
            # (b) a forwarded kwargs dict is told copy=False
            if isinstance(c.func, ast.Attribute) \
                    and c.func.attr == "setdefault" and len(c.args) == 2 \
                    and isinstance(c.args[0], ast.Constant) \
                    and c.args[0].value == "copy" and _is_false(c.args[1]):
                n += 1
                r.analysed(f)
                r.violation(
                    "NP2", f"{f.fq}|{dotted(c)[:60]}", loc(f, c),
                    dotted(c)[:140],
                    f"`{dotted(c.func.value)}` is given 'copy': False and "
                    "forwarded to the array factory: under NumPy >= 2 an "
                    "ndarray that needs the promised integer -> float "
                    "conversion raises ValueError instead of being converted",
                    instance=f"{f.qualname}:copy=False")
        for st in ast.walk(f.node):
            if isinstance(st, ast.Assign) and len(st.targets) == 1 \
                    and isinstance(st.targets[0], ast.Subscript) \
                    and isinstance(st.targets[0].slice, ast.Constant) \
                    and st.targets[0].slice.value == "copy" \
                    and _is_false(st.value):
                n += 1
                r.analysed(f)
                r.violation(
                    "NP2", f"{f.fq}|{norm_stmt(st)[:60]}", loc(f, st),
                    norm_stmt(st)[:140],
                    "'copy': False is put into a keyword dictionary: under "
                    "NumPy >= 2 np.array(..., copy=False) raises when a "
                    "copy is needed", instance=f"{f.qualname}:copy=False")
    if n == 0:
        r.ok("NP2", "package", "geometry_tools", "",
             f"no copy=False reaches an array factory ({len(fw)} "
             "kwargs-forwarding functions followed)")


def _non_integer(e):
    for x in ast.walk(e):
        if isinstance(x, ast.BinOp) and isinstance(x.op, ast.Div):
            return True
        if isinstance(x, ast.Constant) and isinstance(x.value, float):
            return True
        if isinstance(x, (ast.Name, ast.Attribute)) \
                and dotted(x).split(".")[-1] == "pi":
            return True
    return False


def rule_ar1(ctx, rels):
    r = ctx.r
    r.rule("AR1", "np.arange is not given a non-integer step: the number of "
                  "elements is ceil((stop - start) / step) computed in "
                  "floating point, so `np.arange(0, 2*pi, 2*pi/n)` has n or "
                  "n + 1 elements depending on n (a count that must be "
                  "exact is written arange(n) * step or linspace(..., "
                  "endpoint=False))")
    sites = 0
    bad = 0
    for rel in rels:
        m = ctx.p.module_by_rel(rel)
        for f in ctx.p.all_functions:
            if f.module is not m:
                continue
            defs = single_defs(f.node)
            for c in ast.walk(f.node):
                if not (isinstance(c, ast.Call)
                        and dotted(c.func) in ("np.arange", "numpy.arange")):
                    continue
                sites += 1
                r.analysed(f)
                step = None
                if len(c.args) >= 3:
                    step = c.args[2]
                for k in c.keywords:
                    if k.arg == "step":
                        step = k.value
                if step is None:
                    r.ok("AR1", f"{f.qualname}:arange", loc(f, c),
                         dotted(c)[:80], "unit step")
                    continue
                s = step
                if isinstance(s, ast.Name) and s.id in defs:
                    s = defs[s.id]
                if _non_integer(s) or any(_non_integer(a)
                                          for a in c.args[:2]):
                    bad += 1
                    r.violation(
                        "AR1", f"{f.fq}|{dotted(c)[:60]}", loc(f, c),
                        dotted(c)[:140],
                        f"step `{dotted(step)}` is not an integer: the "
                        "length of the result is decided by floating-point "
                        "rounding (for 2*pi/n steps it is n + 1 for n = 49, "
                        "98, 103, ...), so the polygon gets a duplicate "
                        "vertex / the arrays built from it disagree in "
                        "length", instance=f"{f.qualname}:arange")
                else:
                    r.ok("AR1", f"{f.qualname}:arange", loc(f, c),
                         dotted(c)[:80], "integer step")
    if sites == 0:
        r.ok("AR1", "modules", ",".join(rels), "", "no np.arange call")


STACKERS = {"np.column_stack", "np.hstack", "np.vstack", "np.dstack",
            "np.row_stack"}
FIXED_RANK_MAKERS = {"np.ones", "np.zeros", "np.eye", "np.identity",
                     "np.full", "np.empty", "np.diag"}


def rule_stk1(ctx, rels):
    r = ctx.r
    r.rule("STK1", "np.column_stack / hstack / vstack / dstack pick their "
                   "axis by the rank of the operands (1-D operands become "
                   "columns, anything else is joined along axis 1 / 0): "
                   "they are only applied to arrays created with an explicit "
                   "shape, never to values whose rank grows with the "
                   "caller's batch axes (an array of matrices)")
    sites = 0
    for rel in rels:
        m = ctx.p.module_by_rel(rel)
        for f in ctx.p.all_functions:
            if f.module is not m:
                continue
            defs = single_defs(f.node)
            for c in ast.walk(f.node):
                if not (isinstance(c, ast.Call)
                        and dotted(c.func) in STACKERS and c.args):
                    continue
                sites += 1
                r.analysed(f)
                seq = c.args[0]
                if isinstance(seq, ast.Name) and seq.id in defs:
                    seq = defs[seq.id]
                elts = seq.elts if isinstance(seq, (ast.List, ast.Tuple)) \
                    else None

                def fixed(e, depth=0):
                    if isinstance(e, ast.Name) and e.id in defs \
                            and depth < 4:
                        return fixed(defs[e.id], depth + 1)
                    if isinstance(e, ast.Call) and dotted(e.func) in \
                            FIXED_RANK_MAKERS:
                        return True
                    if isinstance(e, (ast.List, ast.Tuple)):
                        return all(isinstance(x, (ast.Constant, ast.List,
                                                  ast.Tuple, ast.UnaryOp))
                                   for x in e.elts)
                    if isinstance(e, ast.Call) and dotted(e.func) in (
                            "np.array",) and e.args and isinstance(
                                e.args[0], (ast.List, ast.Tuple)):
                        return fixed(e.args[0], depth + 1)
                    return False
                if elts and all(fixed(x) for x in elts):
                    r.ok("STK1", f"{f.qualname}:{dotted(c.func)}", loc(f, c),
                         dotted(c)[:80], "operands of explicit shape")
                    continue
                r.violation(
                    "STK1", f"{f.fq}|{dotted(c)[:60]}", loc(f, c),
                    dotted(c)[:140],
                    f"{dotted(c.func)} is applied to "
                    f"`{dotted(c.args[0])[:50]}`, whose entries take the "
                    "rank of the caller's data: for a single object the "
                    "entries are 1-D and become columns, for an array of "
                    "objects they are joined along axis 1 instead, and a "
                    "following reshape silently yields the transposed / "
                    "scrambled matrices",
                    instance=f"{f.qualname}:{dotted(c.func)}")
    if sites == 0:
        r.ok("STK1", "modules", ",".join(rels), "",
             "no rank-dependent stacking call")
