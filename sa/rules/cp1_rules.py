"""Rules for complex_projective.py: O1 (use after in-place consume),
K1 (mask agreement), K2 (case-table / axis agreement)."""
import ast

from ..project import AnalysisError, FunctionInfo, loc, norm_stmt
from ..flow import Interp, dotted, COPYING_FUNCS, COPYING_METHODS
from ..norm import canon, single_defs

CP_REL = "geometry_tools/complex_projective.py"
CORE_REL = "geometry_tools/utils/core.py"


# ---------------------------------------------------------------------------
# in-place functions of the project (computed, not frozen)


def inplace_functions(ctx):
    """FunctionInfo -> set(param index) the function writes into."""
    cache = getattr(ctx, "_inplace", None)
    if cache is not None:
        return cache
    out = {}
    for f in ctx.p.all_functions:
        if f.parent is not None or f.cls is not None:
            continue
        it = Interp(f.node, self_name="__no_self__").run()
        idx = set()
        for m in it.mutations:
            if m.kind == "augstore" and isinstance(m.node, ast.Name):
                continue        # `x += ...` on a bare name: may be rebinding
            for rt in m.roots:
                if rt.startswith("param:"):
                    p = rt[len("param:"):]
                    if p in f.params:
                        idx.add(f.params.index(p))
        if idx:
            out[f] = idx
    ctx._inplace = out
    return out


def _is_fresh_temp(e):
    if isinstance(e, (ast.BinOp, ast.UnaryOp, ast.List, ast.ListComp,
                      ast.Constant, ast.Tuple)):
        return True
    if isinstance(e, ast.Call):
        n = dotted(e.func)
        if n in COPYING_FUNCS:
            return True
        if isinstance(e.func, ast.Attribute) and e.func.attr in ("copy",
                                                                "astype"):
            return True
    return False


def _pos(n):
    return (n.lineno, n.col_offset)


def _end(n):
    return (n.end_lineno, n.end_col_offset)


def rule_o1(ctx, rels, positive_required=False):
    r = ctx.r
    r.rule("O1", "a value passed to a function that normalises its argument "
                 "in place (summary computed from the callee's source) is "
                 "not read again afterwards unless the argument was a fresh "
                 "temporary or the name is rebound to the result")
    inpl = inplace_functions(ctx)
    core = ctx.p.get_function(CORE_REL, "normalize")
    if core not in inpl or 0 not in inpl[core]:
        # normalize no longer writes in place: the hazard is gone
        r.ok("O1", "utils.normalize", loc(core, core.node), "",
             "utils.normalize does not write into its argument")
    n_inst = 0
    for rel in rels:
        m = ctx.p.module_by_rel(rel)
        funcs = [f for f in ctx.p.all_functions
                 if f.module is m and f.parent is None]
        for f in funcs:
            for cs in ctx.cg.sites.get(f, []):
                tg = [t for t in cs.targets if isinstance(t, FunctionInfo)
                      and t in inpl]
                if len(tg) != 1 or cs.kind not in ("func",):
                    continue
                callee = tg[0]
                for k in sorted(inpl[callee]):
                    if k >= len(cs.node.args):
                        continue
                    n_inst += 1
                    r.analysed(f)
                    arg = cs.node.args[k]
                    inst = f"{f.qualname}:{dotted(cs.node)[:80]}"
                    if _is_fresh_temp(arg):
                        r.ok("O1", inst, loc(f, cs.node), dotted(cs.node)[:120],
                             "argument is a fresh temporary")
                        continue
                    if not isinstance(arg, ast.Name):
                        r.note("O1", loc(f, cs.node), dotted(cs.node)[:120],
                               f"{callee.name} rescales `{dotted(arg)}` in "
                               "place (not a local name; not judged here)")
                        continue
                    # statement holding the call
                    st = cs.node
                    parents = f.module.parents
                    while not isinstance(st, ast.stmt):
                        st = parents[st]
                    rebound = (isinstance(st, ast.Assign)
                               and any(isinstance(t, ast.Name)
                                       and t.id == arg.id
                                       for t in st.targets)
                               and st.value is cs.node)
                    if rebound:
                        r.ok("O1", inst, loc(f, cs.node),
                             norm_stmt(st)[:120],
                             "name is rebound to the normalised result")
                        continue
                    # in a loop? then every read in the loop counts
                    loop = None
                    cur = st
                    while cur is not f.node:
                        cur = parents[cur]
                        if isinstance(cur, (ast.For, ast.While)):
                            loop = cur
                    later = []
                    for n in ast.walk(f.node):
                        if isinstance(n, ast.Name) and n.id == arg.id \
                                and isinstance(n.ctx, ast.Load) and n is not arg:
                            if _pos(n) >= _end(cs.node):
                                later.append(n)
                            elif loop is not None and any(
                                    n is x for x in ast.walk(loop)):
                                later.append(n)
                    # a later plain re-assignment kills the old value
                    rebinds = [n for n in ast.walk(f.node)
                               if isinstance(n, ast.Name) and n.id == arg.id
                               and isinstance(n.ctx, ast.Store)
                               and _pos(n) > _end(cs.node)]
                    if rebinds:
                        first = min(_pos(n) for n in rebinds)
                        later = [n for n in later if _pos(n) < first]
                    if not later:
                        r.ok("O1", inst, loc(f, cs.node),
                             norm_stmt(st)[:120],
                             f"`{arg.id}` is dead after being consumed")
                    else:
                        lines = sorted({n.lineno for n in later})
                        r.violation(
                            "O1", f"{f.fq}|{norm_stmt(st)}", loc(f, cs.node),
                            norm_stmt(st)[:160],
                            f"{callee.name}() divides `{arg.id}` in place "
                            f"(out= its own argument), yet `{arg.id}` is read "
                            f"again on line(s) {lines}: those reads see the "
                            "normalised value, not the original (the disk "
                            "centre 3+4j becomes 0.6+0.8j)",
                            instance=inst)
    if n_inst == 0:
        r.ok("O1", "scope", ",".join(rels), "",
             "no call to an in-place function in scope")
    return n_inst


# ---------------------------------------------------------------------------
# K1


def _mask_like(sl):
    """The mask part of a subscript slice, or None."""
    if isinstance(sl, ast.Tuple):
        if sl.elts and not isinstance(sl.elts[0], (ast.Slice, ast.Constant)):
            return _mask_like(sl.elts[0])
        return None
    if isinstance(sl, (ast.Slice, ast.Constant)):
        return None
    if isinstance(sl, ast.Name) and sl.id in ("i", "j", "k", "item", "key",
                                               "ind", "index"):
        return None
    if isinstance(sl, (ast.Name, ast.BinOp, ast.UnaryOp, ast.Compare,
                       ast.Call)):
        return sl
    return None


def _is_boolish(e, defs, depth=0):
    """Is e a boolean-mask expression (syntactically)?"""
    if isinstance(e, ast.UnaryOp) and isinstance(e.op, ast.Invert):
        return True
    if isinstance(e, ast.BinOp) and isinstance(e.op, (ast.BitAnd, ast.BitOr)):
        return True
    if isinstance(e, ast.Compare):
        return True
    if isinstance(e, ast.Call):
        n = dotted(e.func)
        if n.startswith("np.logical_") or n in ("np.isnan", "np.isclose"):
            return True
        if n.endswith("center_inside") or n.endswith("in_affine_chart"):
            return True
    if isinstance(e, ast.Name) and depth < 4 and e.id in defs:
        return _is_boolish(defs[e.id], defs, depth + 1)
    return False


def rule_k1(ctx, rel, min_instances=6):
    r = ctx.r
    r.rule("K1", "in a masked store res[M] = f(arr[M']) every boolean mask "
                 "on the right equals the mask on the left (normalised AST "
                 "equality modulo commutativity and local inlining)")
    m = ctx.p.module_by_rel(rel)
    n_inst = 0
    for f in ctx.p.all_functions:
        if f.module is not m or f.parent is not None:
            continue
        defs = single_defs(f.node)
        for st in ast.walk(f.node):
            if not isinstance(st, ast.Assign) or len(st.targets) != 1:
                continue
            t = st.targets[0]
            if not isinstance(t, ast.Subscript):
                continue
            M = _mask_like(t.slice)
            if M is None or not _is_boolish(M, defs):
                continue
            cM = canon(M, defs)
            rhs_masks = []
            for n in ast.walk(st.value):
                if isinstance(n, ast.Subscript):
                    M2 = _mask_like(n.slice)
                    if M2 is not None and _is_boolish(M2, defs):
                        rhs_masks.append((n, M2))
            if not rhs_masks:
                continue
            n_inst += 1
            r.analysed(f)
            con = norm_stmt(st)
            bad = [(n, M2) for n, M2 in rhs_masks if canon(M2, defs) != cM]
            inst = f"{f.qualname}:{con[:90]}"
            if not bad:
                r.ok("K1", inst, loc(f, st), con[:160],
                     f"{len(rhs_masks)} read mask(s) equal the write mask")
            else:
                n, M2 = bad[0]
                r.violation(
                    "K1", f"{f.fq}|{con}", loc(f, st), con[:200],
                    f"writes under mask `{dotted(M)}` but reads "
                    f"`{dotted(n)}` under `{dotted(M2)}`: the selected "
                    "elements differ (wrong cases, or a shape mismatch "
                    "ValueError when the counts differ)",
                    instance=inst)
    r.require_count("K1", f"masked stores in {rel}", n_inst, min_instances)


# ---------------------------------------------------------------------------
# K2


def _strip_expand(e):
    """np.expand_dims(x, axis=k) -> (x, k)"""
    if isinstance(e, ast.Call) and dotted(e.func) == "np.expand_dims":
        ax = None
        if len(e.args) > 1 and isinstance(e.args[1], ast.Constant):
            ax = e.args[1].value
        for k in e.keywords:
            if k.arg == "axis" and isinstance(k.value, ast.Constant):
                ax = k.value.value
        return e.args[0], ax
    return e, None


_MASKS = ["s_aff", "o_aff"]      # (self mask, other mask) of the function
                                  # being judged; set by rule_k2


def _mask_case(e, defs, axes, depth=0):
    """-> frozenset of (name, polarity) literals of a conjunction, or None."""
    if isinstance(e, ast.Name) and e.id in defs and depth < 4 \
            and e.id not in _MASKS:
        return _mask_case(defs[e.id], defs, axes, depth + 1)
    e, ax = _strip_expand(e)
    if isinstance(e, ast.Name):
        if ax is not None:
            axes.setdefault(e.id, set()).add(ax)
        return frozenset([(e.id, True)])
    if isinstance(e, ast.UnaryOp) and isinstance(e.op, (ast.Invert, ast.Not)):
        inner = _mask_case(e.operand, defs, axes, depth)
        if inner is None or len(inner) != 1:
            return None
        (nm, pol), = inner
        if ax is not None:
            axes.setdefault(nm, set()).add(ax)
        return frozenset([(nm, not pol)])
    if isinstance(e, ast.BinOp) and isinstance(e.op, ast.BitAnd):
        a = _mask_case(e.left, defs, axes, depth)
        b = _mask_case(e.right, defs, axes, depth)
        if a is None or b is None:
            return None
        return a | b
    if isinstance(e, ast.Call) and dotted(e.func) == "np.logical_and" \
            and len(e.args) == 2:
        a = _mask_case(e.args[0], defs, axes, depth)
        b = _mask_case(e.args[1], defs, axes, depth)
        if a is None or b is None:
            return None
        return a | b
    return None


def _value_case(e):
    """-> (array name, negated?)"""
    neg = False
    while isinstance(e, ast.UnaryOp) and isinstance(e.op, (ast.Invert, ast.Not)):
        neg = not neg
        e = e.operand
    if isinstance(e, ast.Subscript):
        e = e.value
    if isinstance(e, ast.Name):
        return (e.id, neg)
    return (dotted(e), neg)


class _NoTable(Exception):
    pass


def _sym_eval(e, env, defs, depth=0):
    """Evaluate a boolean array expression under an assignment of the two
    bounded-ness masks -> ("const", bool) | ("v", array name, negated?)."""
    if isinstance(e, ast.Constant) and isinstance(e.value, bool):
        return ("const", e.value)
    if isinstance(e, ast.Name):
        if e.id in env:
            return ("const", env[e.id])
        if e.id in defs and depth < 4:
            try:
                return _sym_eval(defs[e.id], env, defs, depth + 1)
            except _NoTable:
                pass
        return ("v", e.id, False)
    if isinstance(e, ast.UnaryOp) and isinstance(e.op, (ast.Invert, ast.Not)):
        v = _sym_eval(e.operand, env, defs, depth)
        return ("const", not v[1]) if v[0] == "const" else \
            ("v", v[1], not v[2])
    args = None
    kind = None
    if isinstance(e, ast.BinOp) and isinstance(e.op, (ast.BitAnd, ast.BitOr)):
        args = [e.left, e.right]
        kind = "and" if isinstance(e.op, ast.BitAnd) else "or"
    elif isinstance(e, ast.Call) and dotted(e.func) in (
            "np.logical_and", "np.logical_or") and len(e.args) == 2:
        args = list(e.args)
        kind = "and" if dotted(e.func).endswith("and") else "or"
    elif isinstance(e, ast.Call) and dotted(e.func) == "np.logical_not" \
            and len(e.args) == 1:
        v = _sym_eval(e.args[0], env, defs, depth)
        return ("const", not v[1]) if v[0] == "const" else \
            ("v", v[1], not v[2])
    if args is not None:
        a, b = (_sym_eval(x, env, defs, depth) for x in args)
        for x, y in ((a, b), (b, a)):
            if x[0] == "const":
                if kind == "and":
                    return y if x[1] else ("const", False)
                return ("const", True) if x[1] else y
        if a == b:
            return a
        raise _NoTable("conjunction of two data arrays")
    if isinstance(e, ast.Call) and dotted(e.func) == "np.where" \
            and len(e.args) == 3:
        c = _sym_eval(e.args[0], env, defs, depth)
        if c[0] != "const":
            raise _NoTable("np.where on a data array")
        return _sym_eval(e.args[1 if c[1] else 2], env, defs, depth)
    if isinstance(e, ast.Subscript):
        return _sym_eval(e.value, env, defs, depth)
    raise _NoTable(f"expression {type(e).__name__}")


def _full_table(cases, default):
    """cases: [(frozenset of (mask, polarity), (array, negated))] applied in
    order over a constant default -> {(s, o): value}"""
    t = {}
    for s in (True, False):
        for o in (True, False):
            val = ("const", default)
            for mc, v in cases:
                if all({_MASKS[0]: s, _MASKS[1]: o}.get(nm) == pol
                       for nm, pol in mc):
                    val = ("v", v[0], v[1])
            t[(s, o)] = val
    return t


def rule_k2(ctx):
    r = ctx.r
    r.rule("K2", "the case table (self bounded?, other bounded?) -> (array, "
                 "negated?) of the elementwise arm equals that of the "
                 "pairwise arm, and the pairwise masks expand self/other on "
                 "the axes disk_interactions uses for its 1st/2nd disk")
    # axes used by disk_interactions
    di = ctx.p.get_function(CORE_REL, "disk_interactions")
    r.analysed(di)
    pax = {}
    for n in ast.walk(di.node):
        inner, ax = _strip_expand(n)
        if ax is not None and isinstance(inner, ast.Name):
            pax.setdefault(inner.id, set()).add(ax)
    params = di.params
    first = {a for p in params[0:2] for a in pax.get(p, ())}
    second = {a for p in params[2:4] for a in pax.get(p, ())}
    if len(first) != 1 or len(second) != 1 or first == second:
        raise AnalysisError("disk_interactions: pairwise axis convention not "
                            f"recognised (first={first}, second={second})")
    (ax_s,), (ax_o,) = tuple(first), tuple(second)

    for mname in ("contains", "intersects"):
        f = ctx.p.get_function(CP_REL, f"CP1Disk.{mname}")
        r.analysed(f)
        defs = single_defs(f.node)
        # which locals play which role is read off where they come from:
        # <self-ish>.center_inside() / <other-ish>.center_inside() for the
        # two bounded-ness masks, .circle_parameters() for centres / radii,
        # np.full / np.zeros / np.ones for the result table
        other_param = next((p for p in f.params if p != "self"), "other")

        def role_of(recv, depth=0):
            if isinstance(recv, ast.Name):
                if recv.id == "self":
                    return "self"
                if recv.id == other_param:
                    return "other"
                if depth < 3:
                    roles = set()
                    for x in ast.walk(f.node):
                        if isinstance(x, ast.Assign) and any(
                                dotted(t) == recv.id for t in x.targets):
                            for y in ast.walk(x.value):
                                if isinstance(y, ast.Name) and y.id in (
                                        "self", other_param):
                                    roles.add("self" if y.id == "self"
                                              else "other")
                    if len(roles) == 1:
                        return roles.pop()
            elif isinstance(recv, (ast.Attribute, ast.Call, ast.Subscript)):
                names = {y.id for y in ast.walk(recv)
                         if isinstance(y, ast.Name)}
                if "self" in names and other_param not in names:
                    return "self"
                if other_param in names and "self" not in names:
                    return "other"
            return None
        masks, params4 = {}, {}
        for x in ast.walk(f.node):
            if isinstance(x, ast.Assign) and isinstance(x.value, ast.Call) \
                    and isinstance(x.value.func, ast.Attribute):
                ro = role_of(x.value.func.value)
                if x.value.func.attr == "center_inside" and ro \
                        and isinstance(x.targets[0], ast.Name):
                    masks[ro] = x.targets[0].id
                if x.value.func.attr == "circle_parameters" and ro \
                        and isinstance(x.targets[0], ast.Tuple) \
                        and len(x.targets[0].elts) == 2:
                    params4[ro] = [dotted(e) for e in x.targets[0].elts]
        if set(masks) != {"self", "other"}:
            raise AnalysisError(
                f"CP1Disk.{mname}: the two center_inside() masks were not "
                "found")
        _MASKS[:] = [masks["self"], masks["other"]]
        # receiver/argument order at the disk_interactions call
        call = None
        for n in ast.walk(f.node):
            if isinstance(n, ast.Call) and dotted(n.func).endswith(
                    "disk_interactions"):
                call = n
        if call is None:
            raise AnalysisError(f"CP1Disk.{mname}: call to disk_interactions "
                                "not found")
        # every exit hands out the case-table array: no shortcut returns a
        # raw disk_interactions result (which describes the boundary
        # circles, i.e. the complement for a disk through infinity)
        tables = {dotted(x.targets[0]) for x in ast.walk(f.node)
                  if isinstance(x, ast.Assign) and len(x.targets) == 1
                  and isinstance(x.value, ast.Call)
                  and dotted(x.value.func) in ("np.full", "np.zeros",
                                               "np.ones", "np.empty")}
        raw = [x for x in ast.walk(f.node) if isinstance(x, ast.Return)
               and x.value is not None and isinstance(x.value, ast.Name)
               and x.value.id not in tables]
        unpacked = {dotted(e) for x in ast.walk(f.node)
                    if isinstance(x, ast.Assign)
                    and isinstance(x.value, ast.Call)
                    and dotted(x.value.func).endswith("disk_interactions")
                    for t in x.targets
                    for e in (t.elts if isinstance(t, ast.Tuple) else [t])}
        raw = [x for x in raw if x.value.id in unpacked]
        if raw:
            x = raw[0]
            r.violation(
                "K2", f"{f.fq}|shortcut-return:{x.value.id}", loc(f, x),
                norm_stmt(x),
                f"CP1Disk.{mname} returns `{x.value.id}` (the raw affine "
                "relation between the boundary circles) without going "
                "through the bounded/unbounded case table: for an operand "
                "that contains infinity the circle bounds its complement",
                instance=f"{mname}:returns")
        else:
            r.ok("K2", f"{mname}:returns", loc(f, f.node), "",
                 "every return hands out the case-table array")
        elem, pair = [], []
        axes = {}
        elem_arm = None
        for n in ast.walk(f.node):
            if isinstance(n, ast.If) and isinstance(n.test, ast.Compare) \
                    and dotted(n.test.left) == "broadcast" \
                    and isinstance(n.test.comparators[0], ast.Constant) \
                    and n.test.comparators[0].value == "elementwise":
                elem_arm = n
        if elem_arm is None:
            raise AnalysisError(f"CP1Disk.{mname}: elementwise arm not found")
        for st in ast.walk(elem_arm):
            if isinstance(st, ast.Assign) and len(st.targets) == 1 \
                    and isinstance(st.targets[0], ast.Subscript) \
                    and dotted(st.targets[0].value) in tables:
                mc = _mask_case(st.targets[0].slice, defs, {})
                if mc is None:
                    raise AnalysisError(
                        f"CP1Disk.{mname}: unrecognised mask "
                        f"{dotted(st.targets[0].slice)}")
                elem.append((mc, _value_case(st.value), st))
        elem_nodes = {id(x) for x in ast.walk(elem_arm)}
        for n in ast.walk(f.node):
            if id(n) in elem_nodes:
                continue
            if isinstance(n, ast.Call) and dotted(n.func) == "np.putmask" \
                    and len(n.args) == 3 and dotted(n.args[0]) in tables:
                mc = _mask_case(n.args[1], defs, axes)
                if mc is None:
                    raise AnalysisError(
                        f"CP1Disk.{mname}: unrecognised pairwise mask "
                        f"{dotted(n.args[1])}")
                pair.append((mc, _value_case(n.args[2]), n))
        if len(elem) == 0 and len(pair) >= 3:
            # the elementwise arm written as one expression (nested
            # np.where / & / |): compare the full 2 x 2 tables
            rets = [x for x in ast.walk(elem_arm) if isinstance(x, ast.Return)
                    and x.value is not None]
            dflt = None
            for x in ast.walk(f.node):
                if isinstance(x, ast.Assign) and dotted(x.targets[0]) in tables \
                        and isinstance(x.value, ast.Call) \
                        and dotted(x.value.func) == "np.full" \
                        and len(x.value.args) == 2 and isinstance(
                            x.value.args[1], ast.Constant):
                    dflt = bool(x.value.args[1].value)
            if len(rets) == 1 and dflt is not None:
                try:
                    te4 = {(sv, ov): _sym_eval(rets[0].value,
                                               {_MASKS[0]: sv, _MASKS[1]: ov},
                                               defs)
                           for sv in (True, False) for ov in (True, False)}
                except _NoTable as ex:
                    raise AnalysisError(
                        f"CP1Disk.{mname}: elementwise expression not "
                        f"followed ({ex})")
                tp4 = _full_table([(mc, v) for mc, v, _ in pair], dflt)
                diff = sorted(k for k in te4 if te4[k] != tp4[k])

                def nm(k):
                    return ("self " + ("bounded" if k[0] else "unbounded")
                            + ", other "
                            + ("bounded" if k[1] else "unbounded"))

                def sv(v):
                    return str(v[1]) if v[0] == "const" else \
                        ("~" if v[2] else "") + v[1]
                if not diff:
                    r.ok("K2", f"{mname}:case-table", loc(f, rets[0]), "",
                         "elementwise expression and pairwise masks give "
                         "the same 2 x 2 table")
                else:
                    k = diff[0]
                    r.violation(
                        "K2", f"{f.fq}|case-table", loc(f, rets[0]),
                        norm_stmt(rets[0])[:160],
                        f"for {nm(k)} the elementwise arm answers "
                        f"{sv(te4[k])} where the pairwise arm answers "
                        f"{sv(tp4[k])}" + (f" ({len(diff)} of 4 cases "
                                           "differ)" if len(diff) > 1 else "")
                        + ": one of the two decides a bounded/unbounded "
                        "case with the wrong array",
                        instance=f"{mname}:case-table")
                elem = None
        if elem is not None and (len(elem) < 3 or len(pair) < 3):
            raise AnalysisError(
                f"CP1Disk.{mname}: expected 3 cases per arm, found "
                f"{len(elem)} elementwise / {len(pair)} pairwise")
        te = {(mc, v) for mc, v, _ in (elem or [])}
        tp = {(mc, v) for mc, v, _ in pair}
        if elem is None:
            te = tp

        def show(t):
            return sorted((sorted(mc), v) for mc, v in t)
        if elem is None:
            pass
        elif te == tp:
            r.ok("K2", f"{mname}:case-table", loc(f, f.node), "",
                 f"both arms: {show(te)}")
        else:
            only_e = te - tp
            only_p = tp - te
            st = [s for mc, v, s in elem if (mc, v) in only_e]
            where = loc(f, st[0]) if st else loc(f, f.node)
            con = norm_stmt(st[0]) if st else mname
            r.violation(
                "K2", f"{f.fq}|case-table", where, con[:160],
                f"elementwise arm has {show(only_e)} where the pairwise arm "
                f"has {show(only_p)}: one of the two decides a "
                "bounded/unbounded case with the wrong array",
                instance=f"{mname}:case-table")
        # axis agreement
        s_axes = axes.get(_MASKS[0], set())
        o_axes = axes.get(_MASKS[1], set())
        if s_axes == {ax_s} and o_axes == {ax_o}:
            r.ok("K2", f"{mname}:axes", loc(f, f.node), "",
                 f"self masks expand on axis {ax_s}, other on axis {ax_o}, as "
                 "disk_interactions does for its first/second disk")
        else:
            r.violation(
                "K2", f"{f.fq}|axes", loc(f, f.node), mname,
                f"pairwise masks expand s_aff on {sorted(s_axes)} and o_aff on "
                f"{sorted(o_axes)} but disk_interactions puts its first disk "
                f"on axis {ax_s} and its second on axis {ax_o}: the mask is "
                "transposed relative to the arrays it selects from",
                instance=f"{mname}:axes")
        # self's parameters are the first disk
        a = [dotted(x) for x in ctx.p.positional_args(call)[:4]]
        if set(params4) != {"self", "other"}:
            r.note("K2", loc(f, call), dotted(call)[:80],
                   "circle_parameters() results not found by role (roles of "
                   "the disk_interactions arguments not judged)")
        elif a[:2] == params4["self"] and a[2:4] == params4["other"]:
            r.ok("K2", f"{mname}:roles", loc(f, call), dotted(call)[:100],
                 "self is the first disk, other the second")
        else:
            r.violation("K2", f"{f.fq}|roles", loc(f, call),
                        dotted(call)[:160],
                        "disk_interactions is not called as (self centre, "
                        "self radius, other centre, other radius): the "
                        "contain/contained outputs swap roles",
                        instance=f"{mname}:roles")
