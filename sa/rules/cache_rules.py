"""C2 -- memo / cache coherence, and purity of query methods that hand out
cached data.

A *memo attribute* of a class family is a self attribute outside the family's
primary-state table that some value-returning method both reads and stores
(lazy cache, memo dictionary).  Necessary condition for every property that
quantifies over histories / repeated calls: whenever primary state is
written, every memo derived from it is reset wholesale.
"""
import ast

from ..project import AnalysisError, loc, norm_stmt
from ..flow import Interp, dotted

FAMILIES = {
    "ProjectiveObject": {
        "root": ("geometry_tools/projective.py", "ProjectiveObject"),
        "primary": {"proj_data", "aux_data", "dual_data", "unit_ndims",
                    "aux_ndims", "dual_ndims", "base_ring"},
    },
    "Representation": {
        "root": ("geometry_tools/representation.py", "Representation"),
        "primary": {"generators", "_dim", "_dtype", "_base_ring", "relations",
                    "invert_gen", "parse_simple"},
    },
    "CoxeterGroup": {
        "root": ("geometry_tools/coxeter.py", "CoxeterGroup"),
        "primary": {"coxeter_matrix", "generators", "generator_index",
                    "ordered_gens"},
    },
    "CP1Disk": {
        "root": ("geometry_tools/complex_projective.py", "CP1Disk"),
        "primary": {"proj_data", "aux_data", "dual_data"},
    },
    "Drawing": {
        "root": ("geometry_tools/drawtools.py", "Drawing"),
        "primary": {"transform", "model", "chart_index"},
    },
    "FSA": {
        "root": ("geometry_tools/automata/fsa.py", "FSA"),
        "primary": {"_out_dict", "_in_dict", "_graph_dict", "start_vertices"},
    },
}


def _self_attr(e):
    """self.X or self.X[...] -> X"""
    while isinstance(e, ast.Subscript):
        e = e.value
    if isinstance(e, ast.Attribute) and isinstance(e.value, ast.Name) \
            and e.value.id == "self":
        return e.attr
    return None


def _is_instance_dict(e):
    """`self.__dict__` / `vars(self)`"""
    if isinstance(e, ast.Attribute) and e.attr == "__dict__" \
            and dotted(e.value) == "self":
        return True
    return isinstance(e, ast.Call) and dotted(e.func) == "vars" \
        and len(e.args) == 1 and dotted(e.args[0]) == "self"


def _dict_attr(n):
    """attribute name reached through the instance dictionary:
    self.__dict__["k"], self.__dict__.setdefault / get / pop("k", ..),
    setattr / getattr(self, "k")  ->  ("k", stores?, loads?)"""
    if isinstance(n, ast.Subscript) and _is_instance_dict(n.value) \
            and isinstance(n.slice, ast.Constant) \
            and isinstance(n.slice.value, str):
        st = isinstance(n.ctx, (ast.Store, ast.Del))
        return n.slice.value, st, not st
    if isinstance(n, ast.Call) and isinstance(n.func, ast.Attribute) \
            and _is_instance_dict(n.func.value) and n.args \
            and isinstance(n.args[0], ast.Constant) \
            and isinstance(n.args[0].value, str):
        if n.func.attr == "setdefault":
            return n.args[0].value, True, True
        if n.func.attr in ("get", "pop"):
            return n.args[0].value, False, True
    if isinstance(n, ast.Call) and dotted(n.func) == "setattr" \
            and len(n.args) == 3 and dotted(n.args[0]) == "self" \
            and isinstance(n.args[1], ast.Constant) \
            and isinstance(n.args[1].value, str):
        return n.args[1].value, True, False
    if isinstance(n, ast.Compare) and len(n.ops) == 1 and isinstance(
            n.ops[0], (ast.In, ast.NotIn)) and _is_instance_dict(
            n.comparators[0]) and isinstance(n.left, ast.Constant) \
            and isinstance(n.left.value, str):
        return n.left.value, False, True
    return None


def _stores(fnode):
    """[(attr, node, whole?)] stores through self in a function."""
    out = []
    for n in ast.walk(fnode):
        da = _dict_attr(n)
        if da is not None and da[1]:
            out.append((da[0], n, False))
        tgts = []
        if isinstance(n, ast.Assign):
            tgts = n.targets
        elif isinstance(n, (ast.AugAssign, ast.AnnAssign)):
            tgts = [n.target]
        elif isinstance(n, ast.Delete):
            tgts = n.targets
        for t in tgts:
            for el in (t.elts if isinstance(t, (ast.Tuple, ast.List)) else [t]):
                a = _self_attr(el)
                if a is not None:
                    out.append((a, n, isinstance(el, ast.Attribute)))
        # filling a container held in a self attribute through a method
        if isinstance(n, ast.Call) and isinstance(n.func, ast.Attribute) \
                and n.func.attr in ("setdefault", "update", "append",
                                    "extend", "add", "insert") :
            a = _self_attr(n.func.value)
            if a is not None:
                out.append((a, n, False))
    return out


def _loads(fnode):
    out = set()
    for n in ast.walk(fnode):
        da = _dict_attr(n)
        if da is not None and da[2]:
            out.add(da[0])
        if isinstance(n, ast.Attribute) and isinstance(n.ctx, ast.Load):
            a = _self_attr(n)
            if a is not None:
                out.add(a)
        if isinstance(n, ast.Call) and dotted(n.func) in ("getattr", "hasattr") \
                and len(n.args) >= 2 and dotted(n.args[0]) == "self" \
                and isinstance(n.args[1], ast.Constant):
            out.add(n.args[1].value)
    return out


def _returns_value(fnode):
    return any(isinstance(n, ast.Return) and n.value is not None
               for n in ast.walk(fnode)) or any(
        isinstance(n, (ast.Yield, ast.YieldFrom)) for n in ast.walk(fnode))


def _is_fresh_empty(v):
    if isinstance(v, ast.Constant) and v.value is None:
        return True
    if isinstance(v, (ast.Dict, ast.List, ast.Set)) and not (
            getattr(v, "keys", None) or getattr(v, "elts", None)):
        return True
    if isinstance(v, ast.Call) and dotted(v.func) in (
            "dict", "list", "set", "defaultdict", "OrderedDict") \
            and not v.args:
        return True
    return False


def _wholesale_resets(f, attr):
    """Does method f unconditionally reset self.<attr> wholesale?"""
    for st in f.node.body:
        if isinstance(st, ast.Assign):
            for t in st.targets:
                if isinstance(t, ast.Attribute) and _self_attr(t) == attr \
                        and _is_fresh_empty(st.value):
                    return True
        if isinstance(st, ast.Delete):
            for t in st.targets:
                if isinstance(t, ast.Attribute) and _self_attr(t) == attr:
                    return True
        if isinstance(st, ast.Expr) and isinstance(st.value, ast.Call) \
                and isinstance(st.value.func, ast.Attribute) \
                and st.value.func.attr == "clear" \
                and _self_attr(st.value.func.value) == attr:
            return True
    return False


def _self_calls(f):
    out = set()
    for n in ast.walk(f.node):
        if isinstance(n, ast.Call) and isinstance(n.func, ast.Attribute):
            v = n.func.value
            if isinstance(v, ast.Name) and v.id == "self":
                out.add(n.func.attr)
            # Base.method(self, ...)
            if n.args and dotted(n.args[0]) == "self":
                out.add(n.func.attr)
    return out


def rule_c2(ctx, family, scope=None):
    r = ctx.r
    r.rule("C2", "memo coherence: a self attribute outside the primary-state "
                 "table that a value-returning method both reads and stores "
                 "(lazy cache / memo dict) must be reset wholesale "
                 "(= None / {} / .clear() / del, unconditionally) by every "
                 "method that writes primary state, directly or through a "
                 "self-call")
    spec = FAMILIES[family]
    root = ctx.p.get_class(*spec["root"])
    classes = [root] + ctx.p.subclasses(root)
    primary = spec["primary"]
    methods = []
    for c in classes:
        for f in c.methods.values():
            methods.append(f)
    byname = {}
    for f in methods:
        byname.setdefault(f.name, []).append(f)
    # memo attributes
    memos = {}
    for f in methods:
        if not _returns_value(f.node):
            continue
        st = _stores(f.node)
        ld = _loads(f.node)
        for a, node, whole in st:
            if a in primary or a.startswith("__"):
                continue
            if a in ld:
                memos.setdefault(a, []).append((f, node))
    # writers of primary state
    writers = []
    for f in methods:
        if any(a in primary for a, n, w in _stores(f.node)):
            writers.append(f)
    r.extra.setdefault("C2_families", {})[family] = {
        "classes": len(classes), "methods": len(methods),
        "primary_state_writers": sorted({w.qualname for w in writers}),
        "memo_attributes": sorted(memos)}
    if not memos:
        r.ok("C2", f"{family}:no-memo", loc(root, root.node), "",
             f"{len(methods)} methods in {len(classes)} classes: no memo "
             f"attribute exists; {len(writers)} primary-state writers")
        return
    # transitive reset through self-calls
    def resets(f, attr, seen=None):
        seen = seen or set()
        if f.fq in seen:
            return False
        seen.add(f.fq)
        if _wholesale_resets(f, attr):
            return True
        for nm in _self_calls(f):
            for g in byname.get(nm, []):
                if g is not f and _wholesale_resets(g, attr):
                    return True
        return False
    for attr, sites in sorted(memos.items()):
        q, node = sites[0]
        if scope is not None and not any(x[0] in scope for x in sites):
            r.note("C2", loc(q, node), f"self.{attr}",
                   f"memo attribute filled in {q.qualname}, which this "
                   "property's entry points do not reach (not attributed "
                   "to this property)")
            continue
        r.analysed(q)
        bad = [w for w in writers
               if w is not q and w.name != "__init__" and not resets(w, attr)]
        inits = [w for w in writers if w.name == "__init__"]
        inst = f"{family}:{attr}"
        if not bad:
            r.ok("C2", inst, loc(q, node), norm_stmt(node)[:120],
                 f"memo `{attr}` (filled in {q.qualname}) is reset by all "
                 f"{len(writers)} primary-state writers")
        else:
            w = bad[0]
            r.violation(
                "C2", f"{q.fq}|memo:{attr}", loc(q, node),
                norm_stmt(node)[:160],
                f"{q.qualname} caches a derived value in self.{attr}, but "
                f"{', '.join(sorted(x.qualname for x in bad))} write(s) "
                "primary state without resetting it wholesale: after that "
                "write (or after copy()+set(), item assignment, re-assigning "
                "a generator...) the cached value describes the old object",
                instance=inst)


# ---------------------------------------------------------------------------
# query purity for classes that may hand out self data


def _return_alias_methods(classes):
    """method name -> True if some implementation returns data rooted at self"""
    out = set()
    for c in classes:
        for f in c.methods.values():
            it = Interp(f.node).run()
            for st, roots in it.returns:
                if "self" in roots and st.value is not None \
                        and not isinstance(st.value, ast.Name):
                    out.add(f.name)
                elif "self" in roots and isinstance(st.value, ast.Name) \
                        and st.value.id != "self":
                    out.add(f.name)
    return out


def rule_query_purity(ctx, family, queries, ctor_names=()):
    r = ctx.r
    r.rule("P1q", "query methods do not store into data rooted at self "
                  "(attribute rebinding, element stores, in-place updates), "
                  "including data obtained from a self-method that returns "
                  "self-owned (e.g. cached) arrays")
    spec = FAMILIES[family]
    root = ctx.p.get_class(*spec["root"])
    classes = [root] + ctx.p.subclasses(root)
    alias = _return_alias_methods(classes)

    def summ(call, name):
        if isinstance(call.func, ast.Attribute) \
                and isinstance(call.func.value, ast.Name) \
                and call.func.value.id == "self":
            if call.func.attr in alias:
                return {"returns": "receiver"}
            return {"returns": "fresh"}
        if name.startswith("utils.") or name.startswith("np."):
            if name in ("utils.normalize",):
                return {"mutates_args": [0], "returns": "arg0"}
            return None
        return None
    for q in queries:
        f = ctx.p.find_method(root, q)
        if f is None:
            r.note("P1q", spec["root"][0], q, "query method no longer exists")
            continue
        r.analysed(f)
        it = Interp(f.node, summaries=summ,
                    ctor_names=set(ctor_names) | {c.name for c in
                                                  ctx.p.all_classes}).run()
        bad = [m for m in it.mutations if "self" in m.roots]
        inst = f"{root.name}.{q}"
        if not bad:
            r.ok("P1q", inst, loc(f, f.node), "",
                 f"{len(it.mutations)} mutation site(s), none rooted at self")
        for m in bad:
            con = norm_stmt(m.stmt)
            r.violation(
                "P1q", f"{f.fq}|{con}", loc(f, m.stmt), con[:160],
                f"{inst} is a query, but `{m.target}` ({m.kind}) is data "
                "owned by self here (possibly a cached array handed out by "
                "another method): calling the query changes what later "
                "calls on the same object return", instance=inst)


# ---------------------------------------------------------------------------
# CLS1: no mutable class-level default shared by the instances


def _always_assigns(body, attr):
    """every path through `body` (that does not raise) executes
    `self.<attr> = ...`"""
    for st in body:
        if isinstance(st, ast.Assign):
            for t in st.targets:
                for el in (t.elts if isinstance(t, (ast.Tuple, ast.List))
                           else [t]):
                    if isinstance(el, ast.Attribute) and _self_attr(el) == attr:
                        return True
        if isinstance(st, ast.If):
            if st.orelse and _always_assigns(st.body, attr) \
                    and _always_assigns(st.orelse, attr):
                return True
            if _always_assigns(st.body, attr) and not st.orelse:
                pass
        if isinstance(st, (ast.With,)):
            if _always_assigns(st.body, attr):
                return True
        if isinstance(st, ast.Try):
            if _always_assigns(st.body, attr) and all(
                    _always_assigns(h.body, attr) for h in st.handlers):
                return True
            if st.finalbody and _always_assigns(st.finalbody, attr):
                return True
        if isinstance(st, (ast.Return, ast.Raise)):
            return isinstance(st, ast.Raise)
    return False


_MUTATORS = {"append", "extend", "insert", "pop", "remove", "clear",
             "update", "setdefault", "add", "discard", "popitem", "sort",
             "reverse"}


def rule_cls1(ctx, family):
    r = ctx.r
    r.rule("CLS1", "a mutable container bound at class level (dict / list / "
                   "set literal or constructor call) that methods update in "
                   "place through self is one object shared by every "
                   "instance: every path through __init__ must rebind it "
                   "on the instance")
    spec = FAMILIES[family]
    root = ctx.p.get_class(*spec["root"])
    classes = [root] + ctx.p.subclasses(root)
    n = 0
    for c in classes:
        shared = {}
        for st in c.node.body:
            if isinstance(st, ast.Assign) and len(st.targets) == 1 \
                    and isinstance(st.targets[0], ast.Name):
                v = st.value
                if isinstance(v, (ast.Dict, ast.List, ast.Set)) or (
                        isinstance(v, ast.Call) and dotted(v.func) in (
                            "dict", "list", "set", "defaultdict",
                            "OrderedDict", "collections.defaultdict")):
                    shared[st.targets[0].id] = st
        for attr, st in shared.items():
            n += 1
            # in-place updates through self anywhere in the family
            mut = None
            for k in classes:
                if c not in ctx.p.mro(k):
                    continue
                for f in k.methods.values():
                    for x in ast.walk(f.node):
                        if isinstance(x, (ast.Assign, ast.AugAssign)):
                            tg = x.targets if isinstance(x, ast.Assign) \
                                else [x.target]
                            for t in tg:
                                if isinstance(t, ast.Subscript) \
                                        and _self_attr(t) == attr:
                                    mut = mut or (f, x)
                        if isinstance(x, ast.Call) and isinstance(
                                x.func, ast.Attribute) \
                                and x.func.attr in _MUTATORS \
                                and _self_attr(x.func.value) == attr:
                            mut = mut or (f, x)
            inits = [k.methods["__init__"] for k in ctx.p.mro(c)
                     if "__init__" in k.methods]
            init = c.methods.get("__init__") or (inits[0] if inits else None)
            rebinds = init is not None and _always_assigns(init.node.body,
                                                           attr)
            inst = f"{c.name}.{attr}"
            if mut is None or rebinds:
                r.ok("CLS1", inst, loc(c, st), norm_stmt(st)[:100],
                     "not updated in place through self" if mut is None else
                     "rebound on every path through __init__")
            else:
                f, x = mut
                r.violation(
                    "CLS1", f"{c.fq}|{attr}",
                    loc(c, st), norm_stmt(st)[:120],
                    f"`{attr}` is a class-level mutable default and "
                    f"{f.qualname} updates it in place (`{dotted(x)[:60]}`), "
                    "but __init__ does not rebind it on every path: all "
                    "instances built that way share one container, so "
                    "assigning a generator in one object changes the others",
                    instance=inst)
    if n == 0:
        r.ok("CLS1", f"{family}:none", loc(root, root.node), "",
             f"{len(classes)} classes: no mutable class-level default")


# ---------------------------------------------------------------------------
# DER1: an attribute derived from a constructor argument follows the state
# that argument initialises


def _names(e):
    return {x.id for x in ast.walk(e) if isinstance(x, ast.Name)}


def _init_dependencies(init):
    """attr -> set of constructor parameters its value (or the condition it
    is assigned under) mentions"""
    params = {a.arg for a in init.node.args.args[1:]} | {
        a.arg for a in init.node.args.kwonlyargs}
    out = {}

    def walk(body, conds):
        for st in body:
            if isinstance(st, ast.Assign):
                for t in st.targets:
                    a = _self_attr(t) if isinstance(t, ast.Attribute) else None
                    if a is not None:
                        out.setdefault(a, set()).update(
                            (_names(st.value) | conds) & params)
            elif isinstance(st, ast.If):
                c = conds | (_names(st.test) & params)
                walk(st.body, c)
                walk(st.orelse, c)
            elif isinstance(st, (ast.With, ast.Try, ast.For, ast.While)):
                walk(getattr(st, "body", []), conds)
                walk(getattr(st, "orelse", []), conds)
                for h in getattr(st, "handlers", []):
                    walk(h.body, conds)
    walk(init.node.body, set())
    return out


def rule_der1(ctx, root_rel, root_name):
    r = ctx.r
    r.rule("DER1", "an attribute that __init__ derives from a constructor "
                   "argument (a flag, a cached form) while that argument "
                   "also initialises mutable state with setters elsewhere "
                   "must be re-derived by those setters; otherwise it "
                   "describes the state the object was built with, not the "
                   "current one")
    root = ctx.p.get_class(root_rel, root_name)
    classes = [root] + ctx.p.subclasses(root)
    n = 0
    for c in classes:
        init = c.methods.get("__init__")
        if init is None:
            continue
        deps = _init_dependencies(init)
        family = [k for k in classes if k in ctx.p.mro(c) or c in ctx.p.mro(k)]
        # writers outside constructors
        writers = {}
        readers = {}
        for k in family:
            for f in k.methods.values():
                for a, node, whole in _stores(f.node):
                    if f.name != "__init__":
                        writers.setdefault(a, []).append(f)
                for a in _loads(f.node):
                    if f.name != "__init__":
                        readers.setdefault(a, []).append(f)
        for a, params_a in sorted(deps.items()):
            if a in writers or not params_a or a not in readers:
                continue            # has its own setters / unused
            # state that shares a constructor parameter and has setters
            shared = [p for p, ps in deps.items()
                      if p != a and ps & params_a and p in writers]
            if not shared:
                continue
            n += 1
            inst = f"{c.name}.{a}"
            p = shared[0]
            ws = sorted({w.qualname for w in writers[p]})
            r.analysed(init)
            r.violation(
                "DER1", f"{c.fq}|{a}", loc(init, init.node), inst,
                f"`self.{a}` is computed once in {c.name}.__init__ from "
                f"{sorted(params_a)}, the argument that also initialises "
                f"`self.{p}`; {', '.join(ws)} change `self.{p}` without "
                f"updating `self.{a}`, and "
                f"{sorted({x.qualname for x in readers[a]})[0]} reads it: "
                "after such a call the object behaves as it did when it "
                "was constructed", instance=inst)
    if n == 0:
        r.ok("DER1", f"{root_name}:none", loc(root, root.node), "",
             f"{len(classes)} classes: no constructor-derived attribute "
             "shadows state that has setters")


def rule_shared1(ctx, rels):
    """SHARED1: a function that hands out an element of a module-level
    container (a memo) hands out the SAME object to every caller."""
    from ..norm import single_defs
    r = ctx.r
    r.rule("SHARED1", "a function returning an entry of a module-level "
                      "container (a memo of arrays) returns the one stored "
                      "object to every caller: either it returns a copy, or "
                      "no caller writes into what it receives (item / "
                      "augmented assignment, in-place methods). "
                      "sln_basis_matrix writes -1 into the matrix it gets "
                      "from basis_matrix; with basis_matrix memoised, every "
                      "later gln_adjoint uses E_ii - E_nn for E_ii")
    n = 0
    for rel in rels:
        mod = ctx.p.module_by_rel(rel)
        glob = set()
        for st in mod.tree.body:
            if isinstance(st, ast.Assign) and len(st.targets) == 1 \
                    and isinstance(st.targets[0], ast.Name) and (
                        isinstance(st.value, (ast.Dict, ast.List))
                        or (isinstance(st.value, ast.Call)
                            and dotted(st.value.func) in (
                                "dict", "list", "defaultdict",
                                "collections.defaultdict", "OrderedDict"))):
                glob.add(st.targets[0].id)
        if not glob:
            continue

        def from_global(e):
            if isinstance(e, ast.Subscript) and isinstance(e.value, ast.Name) \
                    and e.value.id in glob:
                return True
            if isinstance(e, ast.Call) and isinstance(e.func, ast.Attribute) \
                    and e.func.attr in ("get", "setdefault") \
                    and isinstance(e.func.value, ast.Name) \
                    and e.func.value.id in glob:
                return True
            return False
        for f in ctx.p.all_functions:
            if f.module is not mod or f.parent is not None:
                continue
            shared_locals = set()
            for st in ast.walk(f.node):
                if isinstance(st, ast.Assign) and len(st.targets) == 1 \
                        and isinstance(st.targets[0], ast.Name) \
                        and from_global(st.value):
                    shared_locals.add(st.targets[0].id)
            hands_out = None
            for rt in ast.walk(f.node):
                if isinstance(rt, ast.Return) and rt.value is not None:
                    v = rt.value
                    if from_global(v) or (isinstance(v, ast.Name)
                                          and v.id in shared_locals):
                        hands_out = rt
            if hands_out is None:
                continue
            n += 1
            r.analysed(f)
            writers = []
            for cs in ctx.cg.callers.get(f, []):
                g = cs.caller
                par = g.module.parents.get(cs.node)
                if not (isinstance(par, ast.Assign) and len(par.targets) == 1
                        and isinstance(par.targets[0], ast.Name)):
                    continue
                nm = par.targets[0].id
                for st in ast.walk(g.node):
                    tgt = None
                    if isinstance(st, ast.Assign):
                        for t in st.targets:
                            if isinstance(t, ast.Subscript):
                                tgt = t
                    elif isinstance(st, ast.AugAssign):
                        tgt = st.target
                    if tgt is None:
                        continue
                    base = tgt
                    while isinstance(base, ast.Subscript):
                        base = base.value
                    if isinstance(base, ast.Name) and base.id == nm \
                            and st.lineno > par.lineno:
                        writers.append((g, st))
            inst = f"{f.qualname}:shared-result"
            if not writers:
                r.ok("SHARED1", inst, loc(f, hands_out),
                     dotted(hands_out)[:60],
                     "no caller writes into the shared result")
            else:
                g, st = writers[0]
                r.violation(
                    "SHARED1", f"{f.fq}|{g.qualname}", loc(g, st),
                    dotted(st)[:80],
                    f"{f.qualname} returns the object stored in a "
                    f"module-level container, and {g.qualname} writes into "
                    f"it (`{dotted(st)[:50]}`): the stored entry is changed "
                    "for every later caller -- after one sln_adjoint / "
                    "sln_killing_form call, gln_adjoint for the same (n, "
                    "dtype) is built from corrupted elementary matrices: "
                    "Ad(1) != 1, Ad(g)Ad(h) != Ad(gh)",
                    instance=inst)
    if n == 0:
        r.ok("SHARED1", "modules", ",".join(rels), "",
             "no function returns an entry of a module-level container")
